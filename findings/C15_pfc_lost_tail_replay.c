/* replay: PFC page whose last packet is lost, followed by a page with the expected
   continuity index: the block in progress is completed with bytes of the next page. */
/* C15_6 demo: a PFC block spanning three packets loses its middle packet.
   The damaged block must be discarded - only that block - and delivery
   must resume with the first block of the next page. */

#include <stdio.h>
#include <stdlib.h>
#include <string.h>

#include "libzvbi.h"

#define PGNO 0x2A5
#define STREAM 1
#define MAG ((PGNO >> 8) & 7)

struct blk {
	unsigned int app_id;
	unsigned int size;
	uint8_t data[2048];
};

static struct blk got[64];
static unsigned int n_got;

static struct blk sent[64];	/* blocks expected to arrive */
static unsigned int n_sent;

static vbi_bool
cb (vbi_pfc_demux *dx, void *user_data, const vbi_pfc_block *b)
{
	(void) dx; (void) user_data;
	if (n_got < 64) {
		got[n_got].app_id = b->application_id;
		got[n_got].size = b->block_size;
		memcpy (got[n_got].data, b->block, b->block_size);
	}
	++n_got;
	return TRUE;
}

static void
ham16 (uint8_t *p, unsigned int c)
{
	p[0] = vbi_ham8 (c);
	p[1] = vbi_ham8 (c >> 4);
}

static void
header (uint8_t pkt[42], unsigned int ci, unsigned int n_packets)
{
	unsigned int subno;

	memset (pkt, vbi_ham8 (0), 42);
	ham16 (pkt + 0, MAG);			/* magazine, packet 0 */
	ham16 (pkt + 2, PGNO & 0xFF);
	subno = (ci & 15) | ((n_packets & 7) << 4) | (STREAM << 8)
		| ((n_packets & 0x18) << 9);
	ham16 (pkt + 4, subno & 0xFF);
	ham16 (pkt + 6, subno >> 8);
}

/* Packet addressed MAG/packet, filled with filler bytes,
   "no block starts here". */
static void
empty_packet (uint8_t pkt[42], unsigned int packet)
{
	memset (pkt, vbi_ham8 (0x03), 42);
	ham16 (pkt + 0, MAG | (packet << 3));
	pkt[2] = vbi_ham8 (13);			/* BP 39: no block start */
}

/* Block separator + structure header at column 3, returns the first
   data column (8). */
static unsigned int
start_block (uint8_t pkt[42], unsigned int app_id, unsigned int size)
{
	unsigned int sh = app_id | (size << 5);

	pkt[2] = vbi_ham8 (0);			/* BP -> BS at col 3 */
	pkt[3] = vbi_ham8 (0x0C);
	ham16 (pkt + 4, sh & 0xFF);
	ham16 (pkt + 6, sh >> 8);
	return 8;
}

static struct blk *
new_block (unsigned int app_id, unsigned int size, vbi_bool expect)
{
	static struct blk tmp;
	struct blk *b = expect ? &sent[n_sent++] : &tmp;
	unsigned int i;

	b->app_id = app_id;
	b->size = size;
	for (i = 0; i < size; ++i)
		b->data[i] = (uint8_t)(app_id * 41 + i * 7 + 0x80);
	return b;
}

static int fail;

static void
feed (vbi_pfc_demux *dx, const uint8_t pkt[42], const char *what)
{
	if (!vbi_pfc_demux_feed (dx, pkt)) {
		printf ("FAIL: feed() returned FALSE for %s\n", what);
		fail = 1;
	}
}

/* A page with two packets, each carrying one small complete block. */
static void
simple_page (vbi_pfc_demux *dx, unsigned int ci, unsigned int app_base)
{
	uint8_t pkt[42];
	unsigned int k;

	header (pkt, ci, 2);
	feed (dx, pkt, "page header");

	for (k = 1; k <= 2; ++k) {
		struct blk *b = new_block (app_base + k, 20, TRUE);
		unsigned int col;

		empty_packet (pkt, k);
		col = start_block (pkt, b->app_id, b->size);
		memcpy (pkt + col, b->data, b->size);
		feed (dx, pkt, "packet with small block");
	}
}

int
main (void)
{
	vbi_pfc_demux *dx;
	uint8_t pkt[42];
	struct blk *b;
	unsigned int col, ci, i;

	dx = vbi_pfc_demux_new (PGNO, STREAM, cb, NULL);
	if (!dx) return 2;

	/* Page ci=0, 3 packets: block A (20 bytes) in packet 1, block B (34 + 30 bytes) in
	   packets 2 and 3.  Packet 3 - the LAST packet of the page - is lost.  The next page
	   (ci=1, continuity index as expected) follows. */
	header (pkt, 0, 3);
	feed (dx, pkt, "page header 0");

	b = new_block (1, 20, TRUE);			/* A */
	empty_packet (pkt, 1);
	col = start_block (pkt, b->app_id, b->size);
	memcpy (pkt + col, b->data, b->size);
	feed (dx, pkt, "packet 1 (block A)");

	b = new_block (2, 34 + 30, FALSE);		/* B, will be damaged */
	empty_packet (pkt, 2);
	col = start_block (pkt, b->app_id, b->size);
	memcpy (pkt + col, b->data, 34);
	feed (dx, pkt, "packet 2 (block B, part 1)");

	/* packet 3 (block B part 2) is lost in transmission */

	for (ci = 1; ci <= 4; ++ci)
		simple_page (dx, ci, 2 + ci * 2);

	printf ("expected %u blocks, delivered %u\n", n_sent, n_got);
	for (i = 0; i < n_got && i < 64; ++i)
		printf ("  #%u app_id=%u size=%u\n", i, got[i].app_id, got[i].size);
	for (i = 0; i < n_got && i < 64; ++i) {
		unsigned int k, ok = 0;
		for (k = 0; k < n_sent; ++k)
			if (got[i].app_id == sent[k].app_id && got[i].size == sent[k].size
			    && 0 == memcmp (got[i].data, sent[k].data, sent[k].size))
				ok = 1;
		if (!ok) {
			printf ("FAIL: delivered block #%u (app_id=%u size=%u) was never sent like that "
				"(the unfinished block B was completed with bytes of the next page)\n",
				i, got[i].app_id, got[i].size);
			fail = 1;
		}
	}
	vbi_pfc_demux_delete (dx);
	printf (fail ? "RESULT: FAIL\n" : "RESULT: PASS\n");
	return fail;
}
