/* Replay of a genuine defect (property C17): a page search that starts at a
   subpage number beyond the cached subpages of its start page never visits
   that page.  Backward from 102.0 the walk starts at 101.3F7E, the page walk
   (_vbi_cache_foreach_page) steps to 101.3F7D > subno_max and leaves page 101;
   after the wrap-around the stop test ends the pass before 101 is reached.
   Forward from 101.0 with only subpage 101.5 cached: same thing at subno_min.
   Build: gcc -I<tree> -I<tree>/src -DHAVE_CONFIG_H -D_GNU_SOURCE this.c
          <tree>/src/.libs/libzvbi.a -lpthread -lm -lpng -lz
   Unchanged tree (9ef088b): REPLAY FAILED (page 101 is never returned);
   with the fix: REPLAY PASSED. */

#include "config.h"
#include <stdio.h>
#include <stdlib.h>
#include <string.h>
#include <assert.h>
#include "vbi.h"
#include "cache-priv.h"
#include "search.h"
#include "hamm.h"

#define MAX_CALLS 50

static vbi_decoder *vbi;
static int g_pgno = 0x100, g_subno = 0;

static void
put_page(int pgno, int subno, const char *rows[], int nrows)
{
	cache_page cp, *r;
	int i;

	memset(&cp, 0, sizeof(cp));
	cp.function = PAGE_FUNCTION_LOP;
	cp.pgno = pgno;
	cp.subno = subno;
	cp.lop_packets = (1 << 26) - 1;
	memset(cp.data.lop.raw, 0x20, sizeof(cp.data.lop.raw));
	for (i = 0; i < nrows; i++) {
		size_t n;
		if (!rows[i])
			continue;
		n = strlen(rows[i]);
		memcpy(cp.data.lop.raw[i + 1], rows[i], n > 40 ? 40 : n);
	}
	vbi_par(cp.data.lop.raw[0], sizeof(cp.data.lop.raw));
	r = _vbi_cache_put_page(vbi->ca, vbi->cn, &cp);
	assert(r);
	cache_page_unref(r);
}

static vbi_search *
mksearch(int pgno, int subno, const char *pat)
{
	uint16_t u[128];
	int i;

	for (i = 0; pat[i]; i++)
		u[i] = (unsigned char) pat[i];
	u[i] = 0;
	return vbi_search_new(vbi, pgno, subno, u, /* casefold */ 0,
			      /* regexp */ 0, NULL);
}

/* Position of the first highlighted cell and the highlighted text. */
static void
hl_info(vbi_page *pg, int *row, int *col, char *text, int max)
{
	int r, c, n = 0;

	*row = *col = -1;
	for (r = 1; r < 24; r++)
		for (c = 0; c < 40; c++) {
			vbi_char *ac = &pg->text[r * pg->columns + c];
			if (ac->background != 32 + VBI_YELLOW)
				continue;
			if (*row < 0) {
				*row = r;
				*col = c;
			}
			if (n < max - 1)
				text[n++] = (ac->unicode < 128) ? ac->unicode : '?';
		}
	text[n] = 0;
}

struct hit { int pgno, subno, row, col; };

static int
run_pass(int dir, const struct hit *exp, int n_exp,
	 const char *pattern, const char *what)
{
	vbi_search *s;
	int n, n_hits = 0, st = VBI_SEARCH_SUCCESS, fail = 0;
	vbi_page *pg;

	s = mksearch(g_pgno, g_subno, pattern);
	assert(s);

	printf("-- %s\n", what);
	for (n = 0; n < MAX_CALLS; n++) {
		int row, col;
		char text[64];

		st = vbi_search_next(s, &pg, dir);
		if (st != VBI_SEARCH_SUCCESS)
			break;
		hl_info(pg, &row, &col, text, sizeof(text));
		if (n_hits >= n_exp + 3) {
			/* keep the log short, the verdict is already clear */
			n_hits++;
			continue;
		}
		printf("   call %2d: SUCCESS %03x/%04x row %d col %d '%s'",
		       n + 1, pg->pgno, pg->subno, row, col, text);
		if (n_hits >= n_exp) {
			printf("  <-- UNEXPECTED extra hit");
			fail = 1;
		} else if (pg->pgno != exp[n_hits].pgno
			   || pg->subno != exp[n_hits].subno
			   || row != exp[n_hits].row || col != exp[n_hits].col) {
			printf("  <-- MISMATCH, expected %03x/%04x row %d col %d",
			       exp[n_hits].pgno, exp[n_hits].subno,
			       exp[n_hits].row, exp[n_hits].col);
			fail = 1;
		} else if (0 != strcmp(text, pattern)) {
			printf("  <-- MISMATCH, highlight is not '%s'", pattern);
			fail = 1;
		}
		printf("\n");
		n_hits++;
	}
	if (st == VBI_SEARCH_SUCCESS) {
		printf("   pass did NOT end: still SUCCESS after %d calls\n", n);
		fail = 1;
	} else if (st != VBI_SEARCH_NOT_FOUND) {
		printf("   call %2d: unexpected status %d\n", n + 1, st);
		fail = 1;
	} else {
		printf("   call %2d: NOT_FOUND\n", n + 1);
		if (n_hits != n_exp) {
			printf("   %d hits, expected %d\n", n_hits, n_exp);
			fail = 1;
		}
	}
	printf("   %s\n", fail ? "FAILED" : "ok");
	vbi_search_delete(s);
	return fail;
}

int
main(void)
{
	static const char *pa[] = { "NEWS a" };
	static const struct hit exp_rev_102[] = { {0x101,0,1,0}, {0x100,0,1,0}, {0x102,0,1,0} };
	static const struct hit exp_rev_any[] = { {0x100,0,1,0}, {0x102,0,1,0}, {0x101,0,1,0} };
	static const struct hit exp_fwd_101[] = { {0x101,5,1,0}, {0x102,0,1,0}, {0x100,0,1,0} };
	int fail = 0;

	vbi = vbi_decoder_new();
	assert(vbi);
	put_page(0x100, 0, pa, 1);
	put_page(0x101, 0, pa, 1);
	put_page(0x102, 0, pa, 1);
	g_pgno = 0x102; g_subno = 0;
	fail |= run_pass(-1, exp_rev_102, 3, "NEWS", "backward from 102.0");
	g_pgno = 0x100; g_subno = VBI_ANY_SUBNO;
	fail |= run_pass(-1, exp_rev_any, 3, "NEWS", "backward from 100.ANY");
	vbi_decoder_delete(vbi);

	vbi = vbi_decoder_new();
	assert(vbi);
	put_page(0x100, 0, pa, 1);
	put_page(0x101, 5, pa, 1);
	put_page(0x102, 0, pa, 1);
	g_pgno = 0x101; g_subno = 0;
	fail |= run_pass(+1, exp_fwd_101, 3, "NEWS", "forward from 101.0, only 101.5 cached");
	vbi_decoder_delete(vbi);

	printf("%s\n", fail ? "REPLAY FAILED" : "REPLAY PASSED");
	return fail ? 1 : 0;
}
