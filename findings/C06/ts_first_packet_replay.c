/* C06 / C07 replay: the TS demultiplexer loses the first PES packet after (re)synchronisation
   when that packet fits one TS packet (PES_packet_length 178, the minimum EN 300 472 allows
   and what vbi_dvb_ts_mux_new produces for frames of up to three lines).

   build: cc -I/repo -I/repo/src ts_first_packet_replay.c /repo/src/.libs/libzvbi.a -lm -lpthread -lpng -lz
   exit 0: every frame but the last (which the demultiplexer holds back until the next frame
           begins) is delivered, the first one included;  exit 1: frame 0 is missing. */
#include <stdio.h>
#include <stdlib.h>
#include <string.h>
#include "src/dvb_mux.h"
#include "src/dvb_demux.h"

static uint8_t ts[64 * 188];
static unsigned int n_ts;

static vbi_bool
mux_cb (vbi_dvb_mux *mx, void *ud, const uint8_t *packet, unsigned int packet_size)
{
	(void) mx; (void) ud;
	memcpy (ts + n_ts, packet, packet_size);
	n_ts += packet_size;
	return TRUE;
}

static int64_t got_pts[16];
static unsigned int n_got;

static vbi_bool
dx_cb (vbi_dvb_demux *dx, void *ud, const vbi_sliced *s, unsigned int n, int64_t pts)
{
	(void) dx; (void) ud; (void) s; (void) n;
	if (n_got < 16)
		got_pts[n_got] = pts;
	++n_got;
	return TRUE;
}

int
main (void)
{
	vbi_dvb_mux *mx = vbi_dvb_ts_mux_new (0x123, mux_cb, NULL);
	vbi_dvb_demux *dx = _vbi_dvb_ts_demux_new (dx_cb, NULL, 0x123);
	unsigned int f;

	for (f = 0; f < 4; ++f) {
		vbi_sliced s;

		memset (&s, 0, sizeof (s));
		s.id = VBI_SLICED_TELETEXT_B_625;
		s.line = 7;
		memset (s.data, 0x40 + f, 42);
		if (!vbi_dvb_mux_feed (mx, &s, 1, VBI_SLICED_TELETEXT_B_625, NULL, NULL, 1000 + f)) {
			printf ("mux refused frame %u\n", f);
			return 2;
		}
	}
	printf ("%u TS bytes (%u packets) for 4 frames\n", n_ts, n_ts / 188);
	{
		static const unsigned int chunks[] = { 1, 7, 188, 100000 };
		unsigned int g, c, bad = 0;

		/* g bytes of noise before the first sync byte move the first TS header to every
		   position of the synchronisation window */
		for (g = 0; g <= 200; ++g) {
			for (c = 0; c < 4; ++c) {
				static uint8_t in[64 * 188 + 256];
				unsigned int n = g + n_ts, i;

				memset (in, 0x55, g);
				memcpy (in + g, ts, n_ts);
				vbi_dvb_demux_reset (dx);
				n_got = 0;
				for (i = 0; i < n; i += chunks[c]) {
					unsigned int k = n - i < chunks[c] ? n - i : chunks[c];
					if (!vbi_dvb_demux_feed (dx, in + i, k)) {
						printf ("demux feed failed\n");
						return 2;
					}
				}
				if (n_got != 3 || got_pts[0] != 1000) {
					if (bad++ < 5)
						printf ("noise %u, chunk %u: delivered %u frames, first pts %lld\n",
							g, chunks[c], n_got, n_got ? (long long) got_pts[0] : -1LL);
				}
			}
		}
		if (bad) {
			printf ("FAIL: frame 0 (pts 1000) was not delivered in %u of %u runs\n", bad, 201 * 4);
			return 1;
		}
	}
	printf ("OK: frame 0 delivered in all %u runs\n", 201 * 4);
	return 0;
}
