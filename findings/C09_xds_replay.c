/* replay of the C09 candidates against the real library (sanitizer build) */
#include <stdio.h>
#include <string.h>
#include <stdlib.h>
#include "libzvbi.h"

static int odd (int c) { int p = c ^ (c >> 4); p ^= p >> 2; p ^= p >> 1; return (p & 1) ? c : c | 0x80; }
static void pair (uint8_t *b, int c1, int c2) { b[0] = odd (c1); b[1] = odd (c2); }
static int ndeliv;
static vbi_bool cb (vbi_xds_demux *xd, const vbi_xds_packet *xp, void *ud)
{ ndeliv++; printf ("delivered class %d subclass 0x%x size %u\n", xp->xds_class, xp->xds_subclass, xp->buffer_size); return TRUE; }

int main (int argc, char **argv)
{
	int which = atoi (argv[1]);
	uint8_t b[2];
	if (which == 1 || which == 2) {
		vbi_xds_demux *xd = vbi_xds_demux_new (cb, NULL);
		int i;
		if (which == 1) {
			/* F1: odd count 33 */
			pair (b, 0x01, 0x01); vbi_xds_demux_feed (xd, b);
			for (i = 0; i < 15; ++i) { pair (b, 0x41, 0x42); vbi_xds_demux_feed (xd, b); }
			pair (b, 0x41, 0x00); vbi_xds_demux_feed (xd, b);	/* count 32 -> 33 */
			pair (b, 0x41, 0x42); vbi_xds_demux_feed (xd, b);	/* writes buffer[31], buffer[32] */
		} else {
			/* F5: subclass 0x18 of class 0 aliases class 1 subclass 0 */
			int sum;
			pair (b, 0x03, 0x00); vbi_xds_demux_feed (xd, b);	/* start class 1 (future) type 0 */
			pair (b, 0x41, 0x42); vbi_xds_demux_feed (xd, b);
			pair (b, 0x01, 0x18); vbi_xds_demux_feed (xd, b);	/* start class 0 type 0x18: not a valid subclass */
			pair (b, 0x58, 0x59); vbi_xds_demux_feed (xd, b);
			pair (b, 0x04, 0x00); vbi_xds_demux_feed (xd, b);	/* continue class 1 type 0 */
			pair (b, 0x43, 0x44); vbi_xds_demux_feed (xd, b);
			sum = 0x03 + 0x00 + 0x41 + 0x42 + 0x43 + 0x44 + 0x0F;
			pair (b, 0x0F, (128 - (sum & 127)) & 127); vbi_xds_demux_feed (xd, b);
			printf ("deliveries of the intact class-1 packet: %d (expected 1)\n", ndeliv);
			return ndeliv == 1 ? 0 : 1;
		}
		vbi_xds_demux_delete (xd);
	} else {
		vbi_decoder *vbi = vbi_decoder_new ();
		vbi_sliced s; int i;
		memset (&s, 0, sizeof s); s.id = VBI_SLICED_CAPTION_525; s.line = 284;
		double t = 1.0;
#define FEED(c1,c2) do { pair (s.data, c1, c2); vbi_decode (vbi, &s, 1, t); t += 1/30.0; } while (0)
		if (which == 3) {
			/* F1 in caption.c: count 33 then terminator -> assert */
			FEED (0x01, 0x01);
			for (i = 0; i < 15; ++i) FEED (0x41, 0x42);
			FEED (0x41, 0x00);
			FEED (0x41, 0x42);
			{ int sum = 0x01 + 0x01 + 15 * (0x41 + 0x42) + 0x41 + 0x41 + 0x42 + 0x0F;
			  FEED (0x0F, (128 - (sum & 127)) & 127); }
		} else {
			/* F17: parity error leaves curr_sp set with count 0 */
			FEED (0x01, 0x01);
			FEED (0x41, 0x42);
			s.data[0] = odd (0x41) ^ 0x80; s.data[1] = odd (0x42); vbi_decode (vbi, &s, 1, t); t += 1/30.0; /* parity error */
			FEED (0x41, 0x42);	/* stored at buffer[-2] */
		}
		vbi_decoder_delete (vbi);
	}
	puts ("done");
	return 0;
}
