/* replay: ure_exec() restarts at the character *after* the one that broke a partial match:
   "ab" is not found in "aab", "abc" not in "ababc". */
#include <stdio.h>
#include <string.h>
#include "ure.h"
static int find(const char *pat, const char *text) {
	ucs2_t p[64], t[256]; unsigned long ms = 0, me = 0; int i, r;
	ure_buffer_t b = ure_buffer_create(); ure_dfa_t d;
	for (i = 0; pat[i]; i++) p[i] = (unsigned char) pat[i];
	d = ure_compile(p, i, 0, b);
	for (i = 0; text[i]; i++) t[i] = (unsigned char) text[i];
	r = ure_exec(d, 0, t, i, &ms, &me);
	ure_dfa_free(d); ure_buffer_free(b);
	return r ? (int) ms : -1;
}
int main(void) {
	struct { const char *p, *t; int at; } c[] = { {"ab","xab",1}, {"ab","aab",1}, {"abc","ababc",2}, {"needle","a neneedle",4}, {"aab","aaab",1} };
	int i, bad = 0;
	for (i = 0; i < 5; i++) {
		int r = find(c[i].p, c[i].t);
		printf("%-8s in %-12s -> %d (expected %d)%s\n", c[i].p, c[i].t, r, c[i].at, r == c[i].at ? "" : "  FAIL");
		bad += r != c[i].at;
	}
	return bad != 0;
}
