/* C15 replay: vbi_idl_demux_feed_frame() / vbi_pfc_demux_feed_frame() return at the first line
   whose feed() fails and never look at the remaining lines of the frame.  feed() fails for any
   Teletext packet with an uncorrectable address byte - before channel or page filtering - so one
   damaged packet of an unrelated service makes the demultiplexer lose the intact packets of the
   selected channel that follow it in the same frame.

   build: cc -I/repo/src feed_frame_replay.c /repo/src/.libs/libzvbi.a -lm -lpthread -lpng -lz
   exit 0: the two intact IDL packets behind the damaged foreign packet are delivered, without a
   data-lost flag;  exit 1 otherwise. */
#include <stdio.h>
#include <stdlib.h>
#include <string.h>
#include "libzvbi.h"

static uint16_t crc_table[256];
static void init_crc (void) {
	unsigned i, j;
	for (i = 0; i < 256; ++i) { unsigned crc = 0, val = i;
		for (j = 0; j < 8; ++j) { crc = (crc >> 1) ^ (0x8940 & ((1 & ~(val ^ crc)) - 1)); val >>= 1; }
		crc_table[i] = crc; }
}
static int n_cb, any_lost;
static vbi_bool idl_cb (vbi_idl_demux *dx, const uint8_t *buf, unsigned n, unsigned flags, void *ud)
{ (void) dx; (void) buf; (void) ud; n_cb++; if (flags & VBI_IDL_DATA_LOST) any_lost = 1; printf ("IDL callback: %u bytes, flags 0x%x\n", n, flags); return TRUE; }
static void idl_packet (uint8_t *b, int ci, int fill)
{
	unsigned crc = 0, j;
	memset (b, 0, 42);
	b[0] = vbi_ham8 (0); b[1] = vbi_ham8 (15); b[2] = vbi_ham8 (4 /* FT_HAVE_CI */); b[3] = vbi_ham8 (0);
	b[4] = ci;
	for (j = 5; j < 40; ++j) b[j] = fill + j;
	for (j = 4; j < 40; ++j) crc = (crc >> 8) ^ crc_table[(crc & 0xFF) ^ b[j]];
	b[40] = crc & 0xFF; b[41] = crc >> 8;
}
static int bad_byte (void) { int x; for (x = 0; x < 256; ++x) if (vbi_unham8 (x) < 0) return x; return -1; }
int main (void)
{
	vbi_sliced s[4]; vbi_idl_demux *dx; vbi_bool r; int i;
	init_crc ();
	dx = vbi_idl_a_demux_new (0, 0, idl_cb, NULL);
	memset (s, 0, sizeof s);
	for (i = 0; i < 4; ++i) { s[i].id = VBI_SLICED_TELETEXT_B; s[i].line = 7 + i; }
	idl_packet (s[0].data, 0, 1);
	/* a packet of some other magazine whose first address byte has two bit errors */
	memset (s[1].data, 0x20, 42); s[1].data[0] = bad_byte (); s[1].data[1] = vbi_ham8 (3);
	idl_packet (s[2].data, 1, 2);
	idl_packet (s[3].data, 2, 3);
	r = vbi_idl_demux_feed_frame (dx, s, 4);
	printf ("feed_frame returned %d, %d of 3 packets of the selected channel delivered\n", r, n_cb);
	/* next frame: the continuity index goes on */
	idl_packet (s[0].data, 3, 4);
	vbi_idl_demux_feed_frame (dx, s, 1);
	if (n_cb != 4 || any_lost) {
		printf ("FAIL: %d of 4 intact packets delivered%s\n", n_cb, any_lost ? ", data loss flagged although no packet of the channel was lost" : "");
		return 1;
	}
	printf ("OK\n");
	return 0;
}
