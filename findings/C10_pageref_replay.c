/* replay of the page-reference findings (C10/C01) against the real library (ASan/LSan build) */
#include <stdio.h>
#include <stdlib.h>
#include <string.h>
#include "src/vbi.h"
#include "src/hamm.h"
#include "src/cache-priv.h"
#include "src/vt.h"

static vbi_decoder *vbi;
static double T = 1000;
static uint8_t par (uint8_t c) { int n = 0, i; for (i = 0; i < 7; ++i) n += (c >> i) & 1; return (c & 0x7F) | ((n & 1) ? 0 : 0x80); }
static void ham16 (uint8_t *p, int v) { p[0] = vbi_ham8 (v & 15); p[1] = vbi_ham8 (v >> 4); }
static void send (uint8_t *pkt) { vbi_sliced s; memset (&s, 0, sizeof s); s.id = VBI_SLICED_TELETEXT_B; s.line = 7; memcpy (s.data, pkt, 42); T += 0.04; vbi_decode (vbi, &s, 1, T); }
static void header (uint8_t *pkt, int mag, int page) { int i; memset (pkt, par (' '), 42); ham16 (pkt, (mag & 7)); ham16 (pkt + 2, page); ham16 (pkt + 4, 0); ham16 (pkt + 6, 0); ham16 (pkt + 8, 0); for (i = 10; i < 42; ++i) pkt[i] = par ('A' + i % 20); }
static void row (uint8_t *pkt, int mag, int packet, int fill) { int i; ham16 (pkt, (mag & 7) | (packet << 3)); for (i = 2; i < 42; ++i) pkt[i] = fill; }
static void ev (vbi_event *e, void *u) { }
static int n_referenced (void) { int n = 0; struct node *nd; for (nd = vbi->ca->referenced._succ; nd != &vbi->ca->referenced; nd = nd->_succ) ++n; return n; }

int main (int argc, char **argv)
{
	int which = atoi (argv[1]), i; uint8_t pkt[42];
	vbi = vbi_decoder_new ();
	vbi_event_handler_register (vbi, VBI_EVENT_TTX_PAGE, ev, NULL);
	if (which == 1) {
		/* F2: a DRCS page (MIP code 0xE5) is stored with _vbi_cache_put_page() and the returned reference dropped */
		header (pkt, 1, 0xFD); send (pkt);
		row (pkt, 1, 1, vbi_ham8 (0)); ham16 (pkt + 2, 0xE5); send (pkt);	/* MIP: page 100 is a DRCS page */
		header (pkt, 1, 0x00); send (pkt);					/* ends the MIP page, opens page 100 */
		row (pkt, 1, 1, par (0x40)); send (pkt);				/* DRCS pattern data */
		header (pkt, 1, 0x01); send (pkt);					/* ends page 100: stored */
	} else {
		/* F14: TOP index: an AIT page without a qualifying title is fetched by next_ait() and never released */
		vbi_page pg;
		header (pkt, 1, 0xF0); send (pkt);					/* BTT page 1F0 */
		row (pkt, 1, 21, vbi_ham8 (0));
		{ uint8_t *r = pkt + 2; int n4[8] = { 1, 0xF, 1, 0, 0, 0, 0, TOP_PAGE_FUNCTION_AIT }; for (i = 0; i < 8; ++i) r[i] = vbi_ham8 (n4[i]); }
		send (pkt);
		header (pkt, 1, 0xF1); send (pkt);					/* ends BTT, opens AIT page 1F1 (no titles) */
		header (pkt, 1, 0x00); send (pkt);					/* ends 1F1: stored */
		printf ("referenced pages before the TOP index fetch: %d\n", n_referenced ());
		i = vbi_fetch_vt_page (vbi, &pg, 0x900, VBI_ANY_SUBNO, VBI_WST_LEVEL_1, 25, 1);
		printf ("vbi_fetch_vt_page (0x900) = %d\n", i);
		if (i) vbi_unref_page (&pg);
	}
	printf ("pages still referenced after all references were returned: %d\n", n_referenced ());
	i = n_referenced ();
	vbi_decoder_delete (vbi);
	return i ? 1 : 0;
}
