#!/bin/sh
# usage: sh run.sh <built zvbi tree> <mode>     (see replay.c)
# mode 1: ThreadSanitizer build of the library sources + replay (data race report, exit 66)
# mode 2/3: plain build against <tree>/src/.libs/libzvbi.a (prints DEADLOCK, exit 2)
T=${1:-/repo}; M=${2:-1}
D=$(cd "$(dirname "$0")" && pwd)
O=$(mktemp -d)
if [ "$M" = 1 ]; then
  SRCS=""
  for u in bit_slicer cache caption cc608_decoder conv dvb_mux dvb_demux event exp-html exp-templ exp-txt exp-vtx export hamm \
    idl_demux inout io-bktr io-dvb io-sim io-v4l io-v4l2 io-v4l2k lang misc packet teletext packet-830 page_table pdc pfc_demux \
    proxy-client raw_decoder sampling_par search ure sliced_filter tables trigger vbi vps wss xds_demux proxy-msg decoder exp-gfx; do
    SRCS="$SRCS $T/src/$u.c"; done
  gcc -fsanitize=thread -g -O1 -w -DHAVE_CONFIG_H -D_GNU_SOURCE -I"$T" -I"$T/src" "$D/replay.c" $SRCS -lpthread -lm -lpng -lz -o "$O/demo" || exit 3
  TSAN_OPTIONS="exitcode=66 halt_on_error=1" "$O/demo" 1 2>&1 | grep -v "^    #" | head -20
else
  gcc -g -I"$T" -I"$T/src" "$D/replay.c" "$T/src/.libs/libzvbi.a" -lpthread -lm -lpng -lz -o "$O/demo" || exit 3
  "$O/demo" "$M"
fi
rc=$?
rm -rf "$O"
exit $rc
