/* Replay of the C20 findings against the real library (built with TSan by run.sh).
 *   mode 1  F11: vbi_decode() -> vbi_chsw_reset() -> vbi_caption_channel_switched()
 *           writes caption channel memory without cc.mutex while another
 *           thread is in vbi_fetch_cc_page()  (ThreadSanitizer data race)
 *   mode 2  vbi_chsw_reset() called from xds_decoder() (cc.mutex held) sends an
 *           ASPECT event; a handler that calls vbi_fetch_cc_page() - which the
 *           library documents as permitted from a handler - deadlocks
 *   mode 3  an ATVEF trigger on caption channel T2 fires at once: add_trigger()
 *           sends the TRIGGER event with cc.mutex held; same deadlock
 */
#include <pthread.h>
#include <signal.h>
#include <stdio.h>
#include <stdlib.h>
#include <string.h>
#include <unistd.h>
#include "src/libzvbi.h"

static vbi_decoder *vbi;
static volatile int done;
static double T = 1000.0;

static uint8_t odd (uint8_t c) { unsigned n = 0, i; for (i = 0; i < 7; ++i) n += (c >> i) & 1; return (c & 0x7F) | ((n & 1) ? 0 : 0x80); }
static void feed_cc (int line, uint8_t c1, uint8_t c2)
{
	vbi_sliced s; memset (&s, 0, sizeof s);
	s.id = VBI_SLICED_CAPTION_525; s.line = line; s.data[0] = odd (c1); s.data[1] = odd (c2);
	T += 1 / 30.0; vbi_decode (vbi, &s, 1, T);
}
static void *fetcher (void *arg)
{
	vbi_page pg;
	while (!__atomic_load_n (&done, __ATOMIC_SEQ_CST)) vbi_fetch_cc_page (vbi, &pg, 1, 1);
	return NULL;
}
static void handler (vbi_event *ev, void *ud)
{
	vbi_page pg;
	fprintf (stderr, "handler: event 0x%x, calling vbi_fetch_cc_page()\n", ev->type);
	vbi_fetch_cc_page (vbi, &pg, 1, 1);
	fprintf (stderr, "handler: returned\n");
}
static void on_alarm (int sig) { static const char m[] = "DEADLOCK: handler stuck in vbi_fetch_cc_page()\n"; write (2, m, sizeof m - 1); _exit (2); }
static void xds_packet (int c1, int c2, const char *payload)
{
	int sum = c1 + c2, i, n = strlen (payload);
	feed_cc (284, c1, c2);
	for (i = 0; i < n; i += 2) { int a = payload[i], b = (i + 1 < n) ? payload[i + 1] : 0; feed_cc (284, a, b); sum += a + b; }
	sum += 0x0F; feed_cc (284, 0x0F, (128 - (sum & 127)) & 127);
}

int main (int argc, char **argv)
{
	int mode = atoi (argv[1]), i;
	vbi = vbi_decoder_new ();
	if (mode == 1) {
		pthread_t th; vbi_sliced s;
		pthread_create (&th, NULL, fetcher, NULL);
		for (i = 0; i < 400; ++i) {
			feed_cc (21, 0x14, 0x20);
			if (i % 50 == 10) { vbi_channel_switched (vbi, 0); }	/* documented cross-thread request; reset runs in vbi_decode */
		}
		__atomic_store_n (&done, 1, __ATOMIC_SEQ_CST);
		pthread_join (th, NULL);
		puts ("mode 1 finished");
		return 0;
	}
	signal (SIGALRM, on_alarm); alarm (5);
	vbi_event_handler_register (vbi, VBI_EVENT_ASPECT | VBI_EVENT_NETWORK | VBI_EVENT_TRIGGER | VBI_EVENT_CAPTION, handler, NULL);
	if (mode == 2) {
		/* an aspect ratio first (XDS current class, type 9), then two different network names, each sent twice */
		xds_packet (0x01, 0x09, "\x45\x46");
		xds_packet (0x01, 0x09, "\x45\x46");
		xds_packet (0x05, 0x01, "AAAA"); xds_packet (0x05, 0x01, "AAAA");
		xds_packet (0x05, 0x01, "BBBB"); xds_packet (0x05, 0x01, "BBBB");
	} else {
		/* ITV / ATVEF trigger on T2 (field 1, text channel 2): text restart then the trigger string */
		const char *trg = "<http://x.y>[n:A]"; char cs[8]; int n = strlen (trg);
		feed_cc (21, 0x1C, 0x2A);	/* T2: text restart */
		for (i = 0; i < n; i += 2) feed_cc (21, trg[i], (i + 1 < n) ? trg[i + 1] : 0);
		feed_cc (21, 0x1C, 0x2D);	/* carriage return ends the line */
		feed_cc (21, 0x1C, 0x2D);
	}
	puts ("no deadlock");
	return 0;
}
