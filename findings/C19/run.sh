#!/bin/sh
# usage: sh run.sh /path/to/built/zvbi/tree
# Builds replay.c (which #includes daemon/proxyd.c of the given tree) against the
# tree's static libzvbi and runs it.  Exit status 0 = property holds.
set -e
TREE=${1:?usage: run.sh <zvbi tree>}
TREE=$(cd "$TREE" && pwd)
HERE=$(cd "$(dirname "$0")" && pwd)
OUT="$HERE/build"
mkdir -p "$OUT"

gcc -g -O0 -fsanitize=address -fno-omit-frame-pointer \
    -I"$TREE" -I"$TREE/src" -I"$HERE" \
    -DHAVE_CONFIG_H -D_GNU_SOURCE -D_REENTRANT \
    "$HERE/replay.c" "$TREE/src/.libs/libzvbi.a" \
    -lpthread -lm -lpng -lz -o "$OUT/demo"

cd "$OUT"
rm -f ./c19-*.sock
ASAN_OPTIONS=detect_leaks=0:abort_on_error=0 ./demo "$2"
