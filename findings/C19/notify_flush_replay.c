/* C19 replay: a client that connected without requesting any service (the daemon then has no
   capture device open: p_capture == NULL) sends CHN_NOTIFY_REQ with the FLUSH flag.
   vbi_proxyd_channel_flush() checks p_capture for NULL, vbi_proxyd_channel_update() does not:
   with forced_switch it calls vbi_capture_flush (NULL), which asserts - the daemon aborts and
   every client of every device loses its connection.

   Uses the daemon harness written for the seeded changes (seeded/C19_7/harness.h: the daemon's
   real main loop in a thread, a simulated capture device, hand-made protocol messages).
   build+run: sh notify_flush_replay.sh <built zvbi tree>
   exit 0: the daemon answers CHN_NOTIFY_CNF and keeps serving; exit 1: it died. */
#include "../../seeded/C19_7/harness.h"
#include <sys/wait.h>

static int
scenario (void)
{
	client_buf cb;
	VBIPROXY_CHN_NOTIFY_REQ req;
	int a, b;

	daemon_start ("c19flush");

	a = cl_connect ("A", 0 /* no services: acquisition is not started */, &cb);
	memset (&req, 0, sizeof (req));
	req.notify_flags = VBI_PROXY_CHN_FLUSH;
	cl_send (a, MSG_TYPE_CHN_NOTIFY_REQ, &req, sizeof (req));
	cl_expect (a, &cb, MSG_TYPE_CHN_NOTIFY_CNF, "A", "flush notification");

	/* the daemon still serves a new client */
	b = cl_connect ("B", VBI_SLICED_TELETEXT_B, &cb);
	sim_feed_frame (1);
	cl_expect_frame (b, &cb, 1, "B");
	close (a);
	close (b);
	daemon_cleanup ();
	return 0;
}

int
main (void)
{
	pid_t pid = fork ();
	int status = 0;

	if (0 == pid)
		_exit (scenario ());
	waitpid (pid, &status, 0);
	if (WIFSIGNALED (status)) {
		printf ("FAIL: the daemon process died with signal %d after CHN_NOTIFY_REQ (FLUSH) from a client "
			"without services\n", WTERMSIG (status));
		return 1;
	}
	if (0 != WEXITSTATUS (status)) {
		printf ("FAIL: scenario exit %d\n", WEXITSTATUS (status));
		return 1;
	}
	printf ("OK: flush notification answered, daemon keeps serving\n");
	return 0;
}
