/*
 *  Test harness: runs the real proxy daemon code (daemon/proxyd.c, #included
 *  verbatim) single-threaded inside this process.
 *
 *  - main() of the daemon is renamed, everything else is the unmodified source.
 *  - The capture device is simulated: vbi_capture_v4l2_new() is redirected to a
 *    fake select()-capable capture context; one frame becomes readable each time
 *    the test calls fake_inject_frame().
 *  - The daemon's select() call is redirected to a zero-timeout select() that
 *    also counts main loop passes, so the test can run the daemon's own
 *    vbi_proxyd_main_loop() for exactly N passes (run_daemon(N)).
 *  - Clients are plain non-blocking AF_UNIX sockets connected to the daemon's
 *    real listening socket, speaking the wire protocol by hand.
 */
#ifndef _GNU_SOURCE
#define _GNU_SOURCE
#endif
#include "config.h"

#include <unistd.h>
#include <stdio.h>
#include <stdlib.h>
#include <string.h>
#include <stddef.h>
#include <time.h>
#include <sys/time.h>
#include <sys/types.h>
#include <sys/stat.h>
#include <sys/select.h>
#include <sys/socket.h>
#include <sys/un.h>
#include <sys/ioctl.h>
#include <netinet/in.h>
#include <arpa/inet.h>
#include <fcntl.h>
#include <errno.h>
#include <signal.h>
#include <assert.h>
#include <pthread.h>

#include "src/vbi.h"
#include "src/inout.h"
#include "src/bcd.h"
#include "src/proxy-msg.h"

/* ---- redirections applied to the daemon source only ---- */
static int demo_select (int n, fd_set *r, fd_set *w, fd_set *e, struct timeval *t);
static vbi_capture *demo_capture_new (const char *dev_name, int buffers,
                                      unsigned int *services, int strict,
                                      char **errstr, vbi_bool trace);

#define main                  proxyd_main
#define select                demo_select
#define vbi_capture_v4l2_new  demo_capture_new
#include "daemon/proxyd.c"
#undef main
#undef select
#undef vbi_capture_v4l2_new
#undef dprintf

#ifndef ENABLE_PROXY
#error "tree was configured without the proxy"
#endif

/* ---- main loop pass control ---- */
static int g_passes_left;

static int demo_select (int n, fd_set *r, fd_set *w, fd_set *e, struct timeval *t)
{
   struct timeval tv = { 0, 0 };

   (void) t;
   if (--g_passes_left <= 0)
      proxy.should_exit = TRUE;     /* finish this pass, then leave the loop */
   return select (n, r, w, e, &tv);
}

static void run_daemon (int passes)
{
   g_passes_left = passes;
   proxy.should_exit = FALSE;
   vbi_proxyd_main_loop ();
}

/* ---- simulated capture device ---- */
#define FAKE_LINES      4           /* sliced lines per frame */
#define FAKE_SERVICES   (VBI_SLICED_TELETEXT_B | VBI_SLICED_VPS | VBI_SLICED_WSS_625)

typedef struct
{
   vbi_capture       cap;
   vbi_raw_decoder   dec;
   int               fds[2];
   unsigned int      frame_no;
} fake_capture;

static fake_capture * g_fake;       /* currently opened device, if any */
static unsigned int   g_fake_frames_total;

static void fake_fill_line (vbi_sliced *s, unsigned int frame_no, unsigned int i)
{
   unsigned int k;

   s->id   = VBI_SLICED_TELETEXT_B;
   s->line = 7 + i;
   for (k = 0; k < sizeof (s->data); k++)
      s->data[k] = (uint8_t)(frame_no * 31 + i * 7 + k);
}

static int fake_read (vbi_capture *cap, vbi_capture_buffer **raw,
                      vbi_capture_buffer **sliced, const struct timeval *timeout)
{
   fake_capture *f = (fake_capture *) cap;
   char c;
   unsigned int i;

   (void) raw; (void) timeout;

   if (read (f->fds[0], &c, 1) != 1)
      return 0;                     /* timeout: no frame pending */

   f->frame_no = ++g_fake_frames_total;
   if (sliced != NULL && *sliced != NULL)
   {
      vbi_sliced *s = (vbi_sliced *) (*sliced)->data;
      for (i = 0; i < FAKE_LINES; i++)
         fake_fill_line (s + i, f->frame_no, i);
      (*sliced)->size = FAKE_LINES * sizeof (vbi_sliced);
      (*sliced)->timestamp = f->frame_no * 0.04;
   }
   return 1;
}

static vbi_raw_decoder * fake_parameters (vbi_capture *cap)
{
   return &((fake_capture *) cap)->dec;
}

static unsigned int fake_update_services (vbi_capture *cap, vbi_bool reset, vbi_bool commit,
                                          unsigned int services, int strict, char **errstr)
{
   (void) cap; (void) reset; (void) commit; (void) strict; (void) errstr;
   return services & FAKE_SERVICES;
}

static int  fake_get_scanning (vbi_capture *cap) { (void) cap; return 625; }
static void fake_flush (vbi_capture *cap) { (void) cap; }
static int  fake_get_fd (vbi_capture *cap) { return ((fake_capture *) cap)->fds[0]; }
static VBI_CAPTURE_FD_FLAGS fake_get_fd_flags (vbi_capture *cap)
{
   (void) cap;
   return VBI_FD_HAS_SELECT;
}

static void fake_delete (vbi_capture *cap)
{
   fake_capture *f = (fake_capture *) cap;

   close (f->fds[0]);
   close (f->fds[1]);
   if (g_fake == f)
      g_fake = NULL;
   free (f);
}

static vbi_capture *demo_capture_new (const char *dev_name, int buffers,
                                      unsigned int *services, int strict,
                                      char **errstr, vbi_bool trace)
{
   fake_capture *f;

   (void) dev_name; (void) buffers; (void) services; (void) strict;
   (void) errstr; (void) trace;

   f = calloc (1, sizeof (*f));
   assert (f != NULL);
   if (pipe (f->fds) != 0)
      abort ();
   fcntl (f->fds[0], F_SETFL, O_NONBLOCK);
   fcntl (f->fds[1], F_SETFL, O_NONBLOCK);

   f->cap.read            = fake_read;
   f->cap.parameters      = fake_parameters;
   f->cap.update_services = fake_update_services;
   f->cap.get_scanning    = fake_get_scanning;
   f->cap.flush           = fake_flush;
   f->cap.get_fd          = fake_get_fd;
   f->cap.get_fd_flags    = fake_get_fd_flags;
   f->cap._delete         = fake_delete;

   f->dec.scanning        = 625;
   f->dec.sampling_format = VBI_PIXFMT_YUV420;
   f->dec.sampling_rate   = 27000000;
   f->dec.bytes_per_line  = 2048;
   f->dec.offset          = 128;
   f->dec.start[0]        = 6;
   f->dec.count[0]        = 16;
   f->dec.start[1]        = 318;
   f->dec.count[1]        = 16;
   f->dec.interlaced      = FALSE;
   f->dec.synchronous     = TRUE;

   g_fake = f;
   return &f->cap;
}

/* makes one frame readable on the simulated device (returns FALSE if closed) */
static vbi_bool fake_inject_frame (void)
{
   char c = 0;

   if (g_fake == NULL)
      return FALSE;
   return (write (g_fake->fds[1], &c, 1) == 1);
}

/* ---- daemon start / stop ---- */
static char g_sock_path[64];

static void daemon_setup (void)
{
   memset (&proxy, 0, sizeof (proxy));
   proxy.tcp_ip_fd = -1;
   pthread_mutex_init (&proxy.clnt_mutex, NULL);

   opt_no_detach = TRUE;
   if (getenv ("C19_DEBUG") != NULL)
   {
      opt_debug_level = atoi (getenv ("C19_DEBUG")) | DBG_MSG;
      vbi_proxy_msg_set_debug_level (1);
   }

   vbi_proxyd_add_device ("/dev/c19-fake-vbi");
   /* listening socket in the current directory instead of /tmp */
   free (proxy.dev[0].p_sock_path);
   snprintf (g_sock_path, sizeof (g_sock_path), "./c19-%d.sock", (int) getpid ());
   proxy.dev[0].p_sock_path = strdup (g_sock_path);

   vbi_proxyd_init ();              /* signal handlers (SIGPIPE, SIGALRM, ...) */
   vbi_proxyd_set_max_conn (opt_max_clients);
   vbi_proxyd_set_address (FALSE, NULL, NULL);

   if (vbi_proxyd_listen () == FALSE)
   {
      fprintf (stderr, "harness: cannot listen on %s\n", g_sock_path);
      exit (2);
   }
}

static void daemon_shutdown (void)
{
   vbi_proxyd_destroy ();
   pthread_mutex_destroy (&proxy.clnt_mutex);
   unlink (g_sock_path);
}

/* ---- hand-written protocol client ---- */
typedef union
{
   VBIPROXY_MSG   msg;
   char           raw[128 * 1024];
} CL_MSG;

static int cl_open (void)
{
   struct sockaddr_un sa;
   int fd;

   fd = socket (AF_UNIX, SOCK_STREAM, 0);
   assert (fd >= 0);
   memset (&sa, 0, sizeof (sa));
   sa.sun_family = AF_UNIX;
   strcpy (sa.sun_path, g_sock_path);
   if (connect (fd, (struct sockaddr *) &sa, sizeof (sa)) != 0)
   {
      perror ("harness: connect");
      exit (2);
   }
   fcntl (fd, F_SETFL, O_NONBLOCK);
   run_daemon (1);                  /* let the daemon accept */
   return fd;
}

/* sends one complete message (header + body) in a single write */
static void cl_send (int fd, VBIPROXY_MSG_TYPE type, const void *body, size_t body_len)
{
   CL_MSG m;
   size_t len = sizeof (VBIPROXY_MSG_HEADER) + body_len;

   memset (&m.msg.head, 0, sizeof (m.msg.head));
   if (body_len > 0)
      memcpy (&m.msg.body, body, body_len);
   m.msg.head.len  = htonl (len);
   m.msg.head.type = htonl (type);
   if (write (fd, &m, len) != (ssize_t) len)
   {
      perror ("harness: client write");
      exit (2);
   }
}

/* non-blocking: returns message type, or -1 if no complete message is pending */
static int cl_poll (int fd, CL_MSG *m)
{
   ssize_t n;
   size_t len, off;
   int tries;

   n = recv (fd, m->raw, sizeof (VBIPROXY_MSG_HEADER), MSG_PEEK);
   if (n < (ssize_t) sizeof (VBIPROXY_MSG_HEADER))
      return -1;
   len = ntohl (m->msg.head.len);
   assert (len >= sizeof (VBIPROXY_MSG_HEADER) && len <= sizeof (m->raw));

   off = 0;
   for (tries = 0; off < len && tries < 1000; tries++)
   {
      n = recv (fd, m->raw + off, len - off, 0);
      if (n > 0)
         off += n;
      else if (n == 0)
         return -1;
      else
         run_daemon (1);            /* rest of the message still to be written */
   }
   assert (off == len);
   m->msg.head.len  = len;
   m->msg.head.type = ntohl (m->msg.head.type);
   return (int) m->msg.head.type;
}

/* runs the daemon until a message arrives for this client (or gives up) */
static int cl_wait (int fd, CL_MSG *m, int max_passes)
{
   int type, i;

   for (i = 0; i <= max_passes; i++)
   {
      type = cl_poll (fd, m);
      if (type >= 0)
         return type;
      run_daemon (1);
   }
   return -1;
}

static void cl_connect_req (int fd, const char *name, unsigned int services)
{
   VBIPROXY_CONNECT_REQ req;
   CL_MSG m;
   int type;

   memset (&req, 0, sizeof (req));
   vbi_proxy_msg_fill_magics (&req.magics);
   snprintf ((char *) req.client_name, VBIPROXY_CLIENT_NAME_MAX_LENGTH, "%s", name);
   req.pid          = getpid ();
   req.client_flags = 0;
   req.scanning     = 625;
   req.buffer_count = 1;
   req.services     = services;
   req.strict       = 0;
   cl_send (fd, MSG_TYPE_CONNECT_REQ, &req, sizeof (req));

   type = cl_wait (fd, &m, 10);
   if (type != MSG_TYPE_CONNECT_CNF)
   {
      fprintf (stderr, "harness: %s: connect failed (reply type %d)\n", name, type);
      exit (2);
   }
   if (m.msg.body.connect_cnf.services != (services & FAKE_SERVICES))
   {
      fprintf (stderr, "harness: %s: unexpected services 0x%X\n", name,
               m.msg.body.connect_cnf.services);
      exit (2);
   }
}
