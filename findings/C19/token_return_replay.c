/* C19 replay: a client that never held the channel token sends CHN_NOTIFY_REQ with the
   VBI_PROXY_CHN_TOKEN flag ("I return the token").  vbi_proxyd_take_message() sets its
   token_state to REQ_TOKEN_RETURNED without looking at the state it had; with a real holder A
   there are then two clients in a non-NONE state, and the next vbi_proxyd_get_token_owner()
   (here: a token request by a third client C) fails assert (p_owner == NULL): the daemon aborts
   for everybody.

   Uses the daemon harness of the seeded changes (seeded/C19_7/harness.h).
   build+run: sh token_return_replay.sh <built zvbi tree>
   exit 0: the daemon survives and C is refused or served;  exit 1: the daemon died. */
#include "../../seeded/C19_7/harness.h"
#include <sys/wait.h>

static client_buf cb;

static int
token_req_v (int fd, const char *who, unsigned int sub_prio, int valid);
static int
token_req (int fd, const char *who, unsigned int sub_prio)
{
	return token_req_v (fd, who, sub_prio, TRUE);
}
static int
token_req_v (int fd, const char *who, unsigned int sub_prio, int valid)
{
	VBIPROXY_CHN_TOKEN_REQ req;

	memset (&req, 0, sizeof (req));
	req.chn_prio = VBI_CHN_PRIO_BACKGROUND;
	req.chn_profile.is_valid = valid;
	req.chn_profile.sub_prio = sub_prio;
	req.chn_profile.allow_suspend = TRUE;
	cl_send (fd, MSG_TYPE_CHN_TOKEN_REQ, &req, sizeof (req));
	cl_expect (fd, &cb, MSG_TYPE_CHN_TOKEN_CNF, who, "token request");
	return !!cb.msg.body.chn_token_cnf.token_ind;
}

static int
scenario (void)
{
	VBIPROXY_CHN_NOTIFY_REQ nreq;
	int f, a, c;

	daemon_start ("c19tokret");
	f = cl_connect ("F", VBI_SLICED_TELETEXT_B, &cb);
	a = cl_connect ("A", VBI_SLICED_TELETEXT_B, &cb);
	c = cl_connect ("C", VBI_SLICED_TELETEXT_B, &cb);
	/* F and C become background clients without a schedulable profile */
	token_req_v (f, "F", 0, FALSE);
	token_req_v (c, "C", 0, FALSE);
	if (!token_req (a, "A", VBI_CHN_SUBPRIO_CHECK))
		cl_expect (a, &cb, MSG_TYPE_CHN_TOKEN_IND, "A", "token");
	printf ("A holds the token\n");

	/* F never asked for the token, yet "returns" it */
	memset (&nreq, 0, sizeof (nreq));
	nreq.notify_flags = VBI_PROXY_CHN_TOKEN;
	cl_send (f, MSG_TYPE_CHN_NOTIFY_REQ, &nreq, sizeof (nreq));
	cl_expect (f, &cb, MSG_TYPE_CHN_NOTIFY_CNF, "F", "token return by a non-holder");
	printf ("F 'returned' a token it never had\n");

	token_req (c, "C", VBI_CHN_SUBPRIO_UPDATE);
	printf ("C's token request was answered\n");
	{	/* A may be asked to give the token back to C first: that is the scheduler's business */
		VBIPROXY_CHN_NOTIFY_REQ sreq;
		int t;

		memset (&sreq, 0, sizeof (sreq));
		cl_send (a, MSG_TYPE_CHN_NOTIFY_REQ, &sreq, sizeof (sreq));
		do t = cl_recv_skip_ind (a, &cb, 5000);
		while (MSG_TYPE_CHN_RECLAIM_REQ == t);
		if (MSG_TYPE_CHN_NOTIFY_CNF != t)
			demo_fail ("A: the daemon does not answer any more (%d)", t);
	}
	cl_sync (c, &cb, "C");
	close (f); close (a); close (c);
	daemon_cleanup ();
	return 0;
}

int
main (void)
{
	pid_t pid = fork ();
	int status = 0;

	if (0 == pid)
		_exit (scenario ());
	waitpid (pid, &status, 0);
	if (WIFSIGNALED (status)) {
		printf ("FAIL: the daemon process died with signal %d\n", WTERMSIG (status));
		return 1;
	}
	if (0 != WEXITSTATUS (status)) {
		printf ("FAIL: scenario exit %d\n", WEXITSTATUS (status));
		return 1;
	}
	printf ("OK: the daemon survived the bogus token return\n");
	return 0;
}
