/* Replay of the C19 findings against the real daemon code (harness.h is the
 * sub-agent's harness of seed C19_1: it #includes daemon/proxyd.c unmodified,
 * runs vbi_proxyd_main_loop pass by pass and talks to it over its real socket).
 *   mode 1  F9a: a message header announcing 0x7fffffff bytes aborts the daemon
 *                (assert (readLen <= max_read_len) in vbi_proxy_msg_handle_read)
 *   mode 2  F9b: a header announcing 4 bytes (< header size) makes
 *                readLen - readOff wrap; recv() then writes past req->msg_buf (ASan)
 *   mode 3  F8:  SERVICE_REQ with strict = 100 writes req->services[101] (ASan)
 *   mode 5  F19: a valid CONNECT_REQ sent in two pieces: the half-read message
 *                trips assert (readOff == 0 || readOff == readLen) in vbi_proxy_msg_is_idle
 *   mode 4  F10: a client that never had the token sends CHN_NOTIFY {TOKEN}:
 *                two non-NONE clients, vbi_proxyd_get_token_owner() asserts
 */
#include "harness.h"

int main (int argc, char **argv)
{
   int mode = atoi (argv[1]);
   int a, b; CL_MSG m;
   daemon_setup ();
   a = cl_open ();
   if (mode == 1 || mode == 2) {
      VBIPROXY_MSG_HEADER h;
      char junk[4096];
      memset (junk, 0x41, sizeof junk);
      h.len = htonl (mode == 1 ? 0x7fffffff : 4); h.type = htonl (MSG_TYPE_CONNECT_REQ);
      if (write (a, &h, sizeof h) != sizeof h) return 2;
      run_daemon (2);
      for (b = 0; b < 64; b++) { if (write (a, junk, sizeof junk) < 0) break; run_daemon (1); }
   } else if (mode == 5) {
      VBIPROXY_CONNECT_REQ req; CL_MSG mm; size_t len = sizeof (VBIPROXY_MSG_HEADER) + sizeof (req);
      memset (&req, 0, sizeof req); vbi_proxy_msg_fill_magics (&req.magics); req.scanning = 625; req.buffer_count = 1; req.services = VBI_SLICED_TELETEXT_B;
      memcpy (&mm.msg.body, &req, sizeof req); mm.msg.head.len = htonl (len); mm.msg.head.type = htonl (MSG_TYPE_CONNECT_REQ);
      if (write (a, &mm, 100) != 100) return 2;		/* first piece */
      run_daemon (2);
      if (write (a, (char *) &mm + 100, len - 100) != (ssize_t)(len - 100)) return 2;
      run_daemon (2);
   } else if (mode == 3) {
      VBIPROXY_SERVICE_REQ r;
      cl_connect_req (a, "A", VBI_SLICED_TELETEXT_B);
      memset (&r, 0, sizeof r); r.reset = 0; r.commit = 1; r.strict = 100; r.services = 0xFFFFFFFF;
      cl_send (a, MSG_TYPE_SERVICE_REQ, &r, sizeof r);
      run_daemon (3);
   } else {
      VBIPROXY_CHN_TOKEN_REQ t; VBIPROXY_CHN_NOTIFY_REQ n; int c, fd[3], holder = -1, k, i, ty;
      b = cl_open (); c = -1; fd[0] = a; fd[1] = b; fd[2] = c;
      cl_connect_req (a, "A", 0); cl_connect_req (b, "B", 0);
      memset (&t, 0, sizeof t); t.chn_prio = VBI_CHN_PRIO_BACKGROUND; t.chn_profile.is_valid = 1;
      t.chn_profile.sub_prio = 0x10; t.chn_profile.min_duration = 1000; t.chn_profile.exp_duration = 1000;
      cl_send (a, MSG_TYPE_CHN_TOKEN_REQ, &t, sizeof t);
      cl_send (b, MSG_TYPE_CHN_TOKEN_REQ, &t, sizeof t);
      for (k = 0; k < 20 && holder < 0; k++) {
         run_daemon (1);

         for (i = 0; i < 2; i++)
            while ((ty = cl_poll (fd[i], &m)) >= 0)
               if ((ty == MSG_TYPE_CHN_TOKEN_CNF && m.msg.body.chn_token_cnf.token_ind) || ty == MSG_TYPE_CHN_TOKEN_IND) holder = i;
      }
      printf ("client %c holds the token\n", holder < 0 ? '?' : 'A' + holder);
      if (holder < 0) return 2;
      memset (&n, 0, sizeof n); n.notify_flags = VBI_PROXY_CHN_TOKEN;
      printf ("client %c, which does not hold it, sends CHN_NOTIFY {TOKEN}\n", 'A' + (1 - holder));
      cl_send (fd[1 - holder], MSG_TYPE_CHN_NOTIFY_REQ, &n, sizeof n);
      run_daemon (3);
      { PROXY_CLNT *w; int nctl = 0; for (w = proxy.p_clnts; w; w = w->p_next) { printf ("   fd %d token_state %d\n", w->io.sock_fd, w->chn_state.token_state); if (REQ_CONTROLS_CHN (w->chn_state.token_state)) nctl++; }
        printf ("clients for which REQ_CONTROLS_CHN() is true (may issue channel ioctls): %d\n", nctl);
        if (nctl > 1) puts ("FAIL: two clients control the channel"); }
      c = cl_open (); cl_connect_req (c, "C", 0);
      t.chn_profile.sub_prio = 0x30;
      cl_send (c, MSG_TYPE_CHN_TOKEN_REQ, &t, sizeof t);	/* scheduling a third client walks the owners */
      run_daemon (4);
   }
   puts ("daemon survived");
   daemon_shutdown ();
   return 0;
}
