/* replay: vbi3_bit_slicer_slice() guards the output buffer with `bs->payload > buffer_size * 8`,
   but for byte-aligned payloads (Teletext: 42 bytes) bs->payload counts *bytes*: a 6 byte buffer
   passes the test (42 <= 48) and the slicer stores 42 bytes into it. */
#include <stdio.h>
#include <stdlib.h>
#include <string.h>
#include "misc.h"
#include "bit_slicer.h"
#include "io-sim.h"
#include "raw_decoder.h"
int main(void) {
	vbi_sampling_par sp; vbi3_bit_slicer bs; uint8_t *raw; uint8_t *out; vbi_sliced sl; vbi_bool r;
	memset(&sp, 0, sizeof sp);
	sp.scanning = 625; sp.sampling_format = VBI_PIXFMT_YUV420; sp.sampling_rate = 13500000;
	sp.bytes_per_line = 720; sp.offset = 9.7e-6 * 13.5e6; sp.start[0] = 7; sp.count[0] = 1; sp.start[1] = 320; sp.count[1] = 0;
	sp.interlaced = 0; sp.synchronous = 1;
	raw = malloc(720);
	memset(&sl, 0, sizeof sl); sl.id = VBI_SLICED_TELETEXT_B; sl.line = 7; memset(sl.data, 0x55, 42);
	if (!vbi_raw_vbi_image(raw, 720, &sp, 0, 0, FALSE, &sl, 1)) { printf("cannot simulate\n"); return 2; }
	_vbi3_bit_slicer_init(&bs);
	if (!vbi3_bit_slicer_set_params(&bs, VBI_PIXFMT_YUV420, 13500000, 0, 720, 0x00AAAA, 0xFFFF, 18, 6937500, 160, 0xE4, 8, 42 * 8, 6937500, VBI3_MODULATION_NRZ_LSB)) { printf("set_params failed\n"); return 2; }
	out = malloc(6);			/* much too small: the call must refuse it */
	r = vbi3_bit_slicer_slice(&bs, out, 6, raw);
	printf("slice() with a 6 byte buffer for a 42 byte payload returned %d\n", r);
	free(out); free(raw);
	return r ? 1 : 0;
}
