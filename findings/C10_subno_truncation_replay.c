/* C10 / C17 replay: struct ttx_page_stat keeps subno_min / subno_max in uint8_t, but subcodes
   go up to 0x3F7F (clock and rolling pages carry the time of day, e.g. 0x1234).  The highest
   subpage reported for such a page is the low byte only, and the page walk of the search - which
   visits the subcodes subno_min ... subno_max of each page - never reaches it: text on that page
   is not found although vbi_is_cached() says the page is there.

   build: cc -I/repo subno_truncation_replay.c /repo/src/.libs/libzvbi.a -lm -lpthread -lpng -lz
   exit 0: hi_subno and the search agree with the cache;  exit 1: they do not. */
#include <stdio.h>
#include <stdlib.h>
#include <string.h>
#include "src/libzvbi.h"
static vbi_decoder *vbi; static double T = 1000;
static uint8_t par (uint8_t c) { int n = 0, i; for (i = 0; i < 7; ++i) n += (c >> i) & 1; return (c & 0x7F) | ((n & 1) ? 0 : 0x80); }
static void ham16 (uint8_t *p, int v) { p[0] = vbi_ham8 (v & 15); p[1] = vbi_ham8 (v >> 4); }
static void send (uint8_t *pkt) { vbi_sliced s; memset (&s, 0, sizeof s); s.id = VBI_SLICED_TELETEXT_B; s.line = 7; memcpy (s.data, pkt, 42); T += 0.04; vbi_decode (vbi, &s, 1, T); }
static void header (uint8_t *pkt, int mag, int page, int subno)
{
	int i;
	memset (pkt, par (' '), 42);
	ham16 (pkt, mag & 7); ham16 (pkt + 2, page);
	/* S1 (4 bits), S2 (3 bits) + C4, S3 (4 bits), S4 (2 bits) + C5 C6 */
	pkt[4] = vbi_ham8 (subno & 15); pkt[5] = vbi_ham8 ((subno >> 4) & 7);
	pkt[6] = vbi_ham8 ((subno >> 8) & 15); pkt[7] = vbi_ham8 ((subno >> 12) & 3);
	ham16 (pkt + 8, 0);
	for (i = 10; i < 42; ++i) pkt[i] = par ('A' + i % 20);
}
static void row (uint8_t *pkt, int mag, int packet, const char *txt) { int i; ham16 (pkt, (mag & 7) | (packet << 3)); for (i = 2; i < 42; ++i) pkt[i] = par (' '); for (i = 0; txt[i] && i < 40; ++i) pkt[2 + i] = par (txt[i]); }
static void ev (vbi_event *e, void *u) { (void) e; (void) u; }
int main (void)
{
	uint8_t pkt[42]; uint16_t pat[] = { 'z', 'e', 'b', 'r', 'a', 0 }; vbi_search *s; vbi_page *pg; int r, fail = 0, hi;
	vbi = vbi_decoder_new ();
	vbi_event_handler_register (vbi, VBI_EVENT_TTX_PAGE, ev, NULL);
	header (pkt, 1, 0x50, 0); send (pkt); row (pkt, 1, 1, "hello world"); send (pkt);
	header (pkt, 1, 0x60, 0x1234); send (pkt); row (pkt, 1, 1, "a zebra at 12:34"); send (pkt);
	header (pkt, 1, 0x70, 0); send (pkt);		/* pages 150 and 160.1234 are now cached */
	printf ("vbi_is_cached (160, 0x1234) = %d\n", vbi_is_cached (vbi, 0x160, 0x1234));
	hi = vbi_cache_hi_subno (vbi, 0x160);
	printf ("vbi_cache_hi_subno (160) = 0x%x\n", hi);
	if (!vbi_is_cached (vbi, 0x160, 0x1234)) { printf ("page was not stored - replay broken\n"); return 2; }
	if (hi != 0x1234) { printf ("FAIL: highest subpage of 160 is 0x1234, reported 0x%x\n", hi); fail = 1; }
	s = vbi_search_new (vbi, 0x100, VBI_ANY_SUBNO, pat, 0, 0, NULL);
	r = vbi_search_next (s, &pg, +1);
	printf ("vbi_search_next returned %d%s\n", r, r == VBI_SEARCH_SUCCESS ? " (found)" : "");
	if (r != VBI_SEARCH_SUCCESS) { printf ("FAIL: \"zebra\" is on the cached page 160.1234 but the search does not find it\n"); fail = 1; }
	else printf ("found on page %x.%x\n", pg->pgno, pg->subno);
	return fail;
}
