/* replay of the C15 candidates against the real library (sanitizer build) */
#include <stdio.h>
#include <stdlib.h>
#include <string.h>
#include "libzvbi.h"

static uint16_t crc_table[256];
static void init_crc (void) {
	unsigned i, j;
	for (i = 0; i < 256; ++i) { unsigned crc = 0, val = i;
		for (j = 0; j < 8; ++j) { crc = (crc >> 1) ^ (0x8940 & ((1 & ~(val ^ crc)) - 1)); val >>= 1; }
		crc_table[i] = crc; }
}
static int n_cb, last_flags = -1;
static vbi_bool idl_cb (vbi_idl_demux *dx, const uint8_t *buf, unsigned n, unsigned flags, void *ud)
{ n_cb++; last_flags = flags; printf ("IDL callback: %u bytes, flags 0x%x\n", n, flags); return TRUE; }
static void idl_packet (uint8_t *b, int ci, int fill)
{
	unsigned crc = 0, j;
	memset (b, 0, 42);
	b[0] = vbi_ham8 (0); b[1] = vbi_ham8 (15); b[2] = vbi_ham8 (4 /* FT_HAVE_CI */); b[3] = vbi_ham8 (0);
	b[4] = ci;
	for (j = 5; j < 40; ++j) b[j] = fill + j;
	for (j = 4; j < 40; ++j) crc = (crc >> 8) ^ crc_table[(crc & 0xFF) ^ b[j]];
	b[40] = crc & 0xFF; b[41] = crc >> 8;
}
static int n_pfc;
static vbi_bool pfc_cb (vbi_pfc_demux *dx, void *ud, const vbi_pfc_block *blk)
{ n_pfc++; printf ("PFC callback: app id %u size %u\n", blk->application_id, blk->block_size); return TRUE; }
static void ham16 (uint8_t *p, int v) { p[0] = vbi_ham8 (v & 15); p[1] = vbi_ham8 (v >> 4); }

static int bad_byte (void) { int x; for (x = 0; x < 256; ++x) if (vbi_unham8 (x) < 0) return x; return -1; }
int main (int argc, char **argv)
{
	int which = atoi (argv[1]);
	init_crc ();
	if (which == 1) {		/* F6/F7: data-lost flag never delivered, flags uninitialised */
		uint8_t b[42];
		vbi_idl_demux *dx = vbi_idl_a_demux_new (0, 0, idl_cb, NULL);
		idl_packet (b, 0, 1); vbi_idl_demux_feed (dx, b);
		idl_packet (b, 5, 2); vbi_idl_demux_feed (dx, b);	/* CI 1..4 lost */
		printf ("callbacks %d, flags of the packet after the gap 0x%x (VBI_IDL_DATA_LOST = 0x%x)\n", n_cb, last_flags, VBI_IDL_DATA_LOST);
		return (n_cb == 2 && (last_flags & VBI_IDL_DATA_LOST)) ? 0 : 1;
	} else if (which == 2) {	/* shift of -1 */
		uint8_t b[42];
		vbi_idl_demux *dx = vbi_idl_a_demux_new (0, 0x21, idl_cb, NULL);
		idl_packet (b, 0, 1);
		b[3] = vbi_ham8 (2);		/* two address nibbles */
		b[4] = vbi_ham8 (1); b[5] = bad_byte ();	/* second nibble uncorrectable */
		vbi_idl_demux_feed (dx, b);
		return 0;
	} else {
		/* PFC: page 0x1DF stream 0 */
		uint8_t *pk = malloc (42);	/* exactly 42 bytes: ASan sees buffer[42] */
		vbi_pfc_demux *dx = vbi_pfc_demux_new (0x1DF, 0, pfc_cb, NULL);
		int subno, sh;
		/* page header: magazine 1 packet 0 */
		memset (pk, 0x15 /* ham8(0) */, 42);
		ham16 (pk + 0, 1 | (0 << 3));
		ham16 (pk + 2, 0xDF);
		subno = 0 /* ci */ | (1 << 4) /* n_packets low: 1 */;
		ham16 (pk + 4, subno & 0xFF); ham16 (pk + 6, subno >> 8);
		vbi_pfc_demux_feed (dx, pk);
		/* packet 1 */
		memset (pk, vbi_ham8 (3) /* filler? use data */, 42);
		ham16 (pk + 0, 1 | (1 << 3));
		if (which == 3) {
			/* structure header with an uncorrectable low byte and a non-zero high byte */
			pk[2] = vbi_ham8 (0);		/* bp = 0 -> block separator at col 3 */
			pk[3] = vbi_ham8 (0x0C);	/* block separator */
			sh = 1 | (2 << 5);		/* app id 1, size 2 */
			ham16 (pk + 4, sh & 0xFF); ham16 (pk + 6, 1 /* high byte 1 -> size += 8 */);
			pk[5] = bad_byte (); printf ("damaged byte 0x%02x: vbi_unham8 = %d\n", pk[5], vbi_unham8 (pk[5]));			/* second nibble of the low byte: uncorrectable */
			pk[8] = 0x41; pk[9] = 0x42;
			n_pfc = 0;
			printf ("feed returned %d\n", vbi_pfc_demux_feed (dx, pk));
			/* a following packet 2 would complete the bogus 8+ byte block */
			{ int ok = 1; /* inspect through a second feed: send filler-only packet */ }
			printf ("(a Hamming-damaged structure header must be rejected: feed must return 0)\n");
			return 0;
		} else {
			/* block that ends exactly at byte 41: bp -> separator, SH (4 bytes), data up to col 42 */
			int size = 42 - 8;
			pk[2] = vbi_ham8 (0);
			pk[3] = vbi_ham8 (0x0C);
			sh = 1 | (size << 5);
			ham16 (pk + 4, sh & 0xFF); ham16 (pk + 6, sh >> 8);
			vbi_pfc_demux_feed (dx, pk);
			printf ("callbacks %d\n", n_pfc);
			return 0;
		}
	}
}
