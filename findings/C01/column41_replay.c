/* replay: column_41() (teletext.c) steps 24 rows from row 1 and then writes "the navigation
   bar" through acp[40]/acp[39] = text[1065]/text[1064] of vbi_page.text[1056]: the store lands in
   vbi_page.color_map[13..14].  A 1-row fetch returns before the loop, so the colour maps of a
   1-row and a 25-row fetch of the same page must be identical - and are not. */
#include <stdio.h>
#include <stdlib.h>
#include <string.h>
#include "libzvbi.h"
static void handler(vbi_event *e, void *u) { (void) e; (void) u; }
static vbi_decoder *vbi; static double now = 1000.0;
static void send_packet(int mag, int packet, const uint8_t payload[40]) {
	vbi_sliced s; memset(&s, 0, sizeof(s));
	s.id = VBI_SLICED_TELETEXT_B; s.line = 7;
	s.data[0] = vbi_ham8((mag & 7) | ((packet & 1) << 3));
	s.data[1] = vbi_ham8(packet >> 1);
	memcpy(s.data + 2, payload, 40);
	vbi_decode(vbi, &s, 1, now); now += 0.04;
}
static void send_header(int mag, int page) {
	uint8_t p[40]; int i;
	p[0] = vbi_ham8(page & 15); p[1] = vbi_ham8(page >> 4);
	for (i = 2; i < 8; i++) p[i] = vbi_ham8(0);
	for (i = 0; i < 32; i++) p[8 + i] = vbi_par8(' ');
	send_packet(mag, 0, p);
}
static void send_row(int mag, int row, const char *t) {
	uint8_t p[40]; int i, n = strlen(t);
	for (i = 0; i < 40; i++) p[i] = vbi_par8(i < n ? t[i] : ' ');
	send_packet(mag, row, p);
}
int main(void) {
	vbi_page a, b; int i, bad = 0;
	vbi = vbi_decoder_new();
	vbi_event_handler_register(vbi, VBI_EVENT_TTX_PAGE, handler, NULL);
	send_header(1, 0x00); send_row(1, 1, "page 100"); send_header(1, 0x01);
	if (!vbi_fetch_vt_page(vbi, &a, 0x100, VBI_ANY_SUBNO, VBI_WST_LEVEL_1p5, 1, 0)) return 2;
	if (!vbi_fetch_vt_page(vbi, &b, 0x100, VBI_ANY_SUBNO, VBI_WST_LEVEL_1p5, 25, 0)) return 2;
	for (i = 0; i < 40; i++)
		if (a.color_map[i] != b.color_map[i]) {
			printf("color_map[%d]: 1-row fetch %08x, 25-row fetch %08x\n", i, a.color_map[i], b.color_map[i]);
			bad++;
		}
	vbi_unref_page(&a); vbi_unref_page(&b);
	vbi_decoder_delete(vbi);
	printf(bad ? "FAIL: %d colour map entries clobbered by column_41()\n" : "OK%.0d\n", bad);
	return bad != 0;
}
