/* replay: vbi_search_new() with a regular expression naming character property 20
   (\p20): _ure_prop_list() accepts property numbers up to 32 but cclass_flags[] has 18 entries */
#include <stdio.h>
#include <stdlib.h>
#include <stdint.h>
#include "libzvbi.h"
int main(int argc, char **argv) {
	vbi_decoder *vbi = vbi_decoder_new();
	const char *pat = argc > 1 ? argv[1] : "\\p20";
	uint16_t u[64]; int i;
	for (i = 0; pat[i]; i++) u[i] = (unsigned char) pat[i];
	u[i] = 0;
	vbi_search *s = vbi_search_new(vbi, 0x100, VBI_ANY_SUBNO, u, 0, 1, NULL);
	printf("search %s\n", s ? "created" : "rejected");
	if (s) vbi_search_delete(s);
	vbi_decoder_delete(vbi);
	return 0;
}
