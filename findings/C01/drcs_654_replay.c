/* C01 replay: convert_drcs() expands a DRCS page's pattern transfer units into
   data.drcs.chars[48][60].  For mode 3 (6x5 pixels, 4 planes; announced by X/28/3 or M/29/3)
   the loop runs 20 times per unit, reading 80 and writing 120 bytes where a unit has 20 bytes
   of input and 60 bytes of output: with all 48 units in that mode it reads 3840 bytes from the
   960 byte raw page and writes 5760 bytes into the 2880 byte array - over mode[], invalid and
   whatever follows the page (the stack frame of vbi_convert_page(), the decoder's next
   raw_page).

   The function is static: the replay includes src/packet.c and calls it on a heap page of
   exactly sizeof (cache_page) so that AddressSanitizer sees the overflow.
   build: cc -fsanitize=address -g -I/repo -I/repo/src -DHAVE_CONFIG_H -D_GNU_SOURCE drcs_654_replay.c \
          /repo/src/.libs/libzvbi.a -lm -lpthread -lpng -lz
   exit 0: the conversion stays inside the page;  ASan abort otherwise. */
#include "src/packet.c"

int
main (void)
{
	cache_page *cp = calloc (1, sizeof (*cp));
	uint8_t *raw = malloc (24 * 40);
	unsigned int i;

	memset (raw, 0x40 | 0x15, 24 * 40);	/* valid pattern bytes */
	cp->function = PAGE_FUNCTION_DRCS;
	cp->lop_packets = 0x1FFFFFE;		/* packets 1 ... 24 received */
	for (i = 0; i < 48; ++i)
		cp->data.drcs.mode[i] = DRCS_MODE_6_5_4;
	convert_drcs (cp, raw);
	for (i = 0; i < 48; ++i)
		if (DRCS_MODE_6_5_4 != cp->data.drcs.mode[i]) {
			printf ("FAIL: mode[%u] was overwritten by the conversion\n", i);
			return 1;
		}
	free (raw); free (cp);
	printf ("OK: 48 units of mode 6x5x4 converted inside chars[48][60]\n");
	return 0;
}
