/* replay: a deferred (countdown) EACEM trigger.
   1. add_trigger() mallocs the list node and never copies the trigger into it: url and fire
      time are uninitialised (MSan-style: we poison via ASan's malloc pattern and look at them).
   2. vbi_deferred_trigger() frees the node that fired and then evaluates `tp = &t->next`,
      `t = *tp` on the freed node. */
#include <stdio.h>
#include <stdlib.h>
#include <string.h>
#include "vbi.h"
#include "trigger.h"
static int uaf_only; static int fired; static char last_url[256];
static void handler(vbi_event *e, void *u) { (void) u;
	if (e->type == VBI_EVENT_TRIGGER) { fired++; if (!uaf_only) snprintf(last_url, sizeof last_url, "%s", (char *) e->ev.trigger->url); } }
int main(int argc, char **argv) {
	vbi_decoder *vbi = vbi_decoder_new();
	uaf_only = argc > 1 && !strcmp(argv[1], "uaf");	/* only exercise the list walk */
	unsigned char s[] = "<http://www.example.org/a>(countdown:10)";
	vbi_event_handler_register(vbi, VBI_EVENT_TRIGGER, handler, NULL);
	vbi->time = 1000.0;
	vbi_eacem_trigger(vbi, s);			/* fires at 1010: goes on the list */
	if (fired || !vbi->triggers) { printf("unexpected: trigger not deferred\n"); return 2; }
	vbi->time = 1005.0; vbi_deferred_trigger(vbi);	/* too early */
	if (fired && !uaf_only) { printf("FAIL: deferred trigger fired %d time(s) 5 s early, url '%s'\n", fired, last_url); return 1; }
	vbi->time = 1011.0; vbi_deferred_trigger(vbi);
	if (uaf_only) { vbi_decoder_delete(vbi); printf("OK (list walk)\n"); return 0; }
	if (fired != 1 || strcmp(last_url, "http://www.example.org/a")) {
		printf("FAIL: after the fire time: fired=%d url='%s'\n", fired, last_url); return 1; }
	vbi_decoder_delete(vbi);
	printf("OK\n");
	return 0;
}
