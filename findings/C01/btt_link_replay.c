/* replay: Basic TOP Table page 1F0, packet X/23: parse_btt() stores five page links at
   btt_link[10..14] of cache_network.btt_link[10] - over have_top and the first magazine's
   defaults (its extension: designations, charset codes ...). */
#include <stdio.h>
#include <stdlib.h>
#include <string.h>
#include "vbi.h"
#include "cache-priv.h"
#include "hamm.h"
static void handler(vbi_event *e, void *u) { (void) e; (void) u; }
static vbi_decoder *vbi; static double now = 1000.0;
static void send_packet(int mag, int packet, const uint8_t payload[40]) {
	vbi_sliced s; memset(&s, 0, sizeof(s));
	s.id = VBI_SLICED_TELETEXT_B; s.line = 7;
	s.data[0] = vbi_ham8((mag & 7) | ((packet & 1) << 3));
	s.data[1] = vbi_ham8(packet >> 1);
	memcpy(s.data + 2, payload, 40);
	vbi_decode(vbi, &s, 1, now); now += 0.04;
}
static void send_header(int mag, int page) {
	uint8_t p[40]; int i;
	p[0] = vbi_ham8(page & 15); p[1] = vbi_ham8(page >> 4);
	for (i = 2; i < 8; i++) p[i] = vbi_ham8(0);
	for (i = 0; i < 32; i++) p[8 + i] = vbi_par8(' ');
	send_packet(mag, 0, p);
}
int main(void) {
	uint8_t p[40]; int i, k; unsigned char before[64], after[64];
	vbi = vbi_decoder_new();
	vbi_event_handler_register(vbi, VBI_EVENT_TTX_PAGE, handler, NULL);
	send_header(1, 0xF0);
	/* a packet 21 first, so that have_top is already TRUE */
	for (k = 0; k < 5; k++) {	/* five links: page 2F1 subcode 0001 function AIT */
		p[k*8+0] = vbi_ham8(2); p[k*8+1] = vbi_ham8(0xF); p[k*8+2] = vbi_ham8(1);
		p[k*8+3] = p[k*8+4] = p[k*8+5] = vbi_ham8(0); p[k*8+6] = vbi_ham8(1); p[k*8+7] = vbi_ham8(2);
	}
	send_packet(1, 21, p);
	memcpy(before, &vbi->cn->have_top, sizeof(before));
	send_packet(1, 23, p);
	memcpy(after, &vbi->cn->have_top, sizeof(after));
	for (i = 0, k = 0; i < (int) sizeof(before); i++) k += before[i] != after[i];
	if (k) {
		printf("FAIL: packet X/23 of the BTT changed %d of the 64 bytes behind btt_link[] "
		       "(have_top=%d, magazine 8 designations=%#x)\n", k, vbi->cn->have_top,
		       vbi->cn->_magazines[0].extension.designations);
		return 1;
	}
	printf("OK\n");
	vbi_decoder_delete(vbi);
	return 0;
}
