/* C03 replay: an uncorrectable byte in a TOP Basic TOP Table packet (page 1F0, packets 1-20) is
   not contained: parse_btt() leaves the inner loop with `break` after it has consumed the bad
   byte but before the page index was advanced over the rest of that group of ten, so the page
   types of all later pages in the packet are stored for the wrong pages.

   build: cc -I/repo btt_misalign_replay.c /repo/src/.libs/libzvbi.a -lm -lpthread -lpng -lz
   exit 0: after the damaged retransmission every page still has the type of the error-free
   transmission;  exit 1: other pages changed their type. */
#include <stdio.h>
#include <stdlib.h>
#include <string.h>
#include "src/libzvbi.h"
static vbi_decoder *vbi; static double T = 1000;
static uint8_t par (uint8_t c) { int n = 0, i; for (i = 0; i < 7; ++i) n += (c >> i) & 1; return (c & 0x7F) | ((n & 1) ? 0 : 0x80); }
static void ham16 (uint8_t *p, int v) { p[0] = vbi_ham8 (v & 15); p[1] = vbi_ham8 (v >> 4); }
static void send (uint8_t *pkt) { vbi_sliced s; memset (&s, 0, sizeof s); s.id = VBI_SLICED_TELETEXT_B; s.line = 7; memcpy (s.data, pkt, 42); T += 0.04; vbi_decode (vbi, &s, 1, T); }
static void header (uint8_t *pkt, int mag, int page) { int i; memset (pkt, par (' '), 42); ham16 (pkt, mag & 7); ham16 (pkt + 2, page); ham16 (pkt + 4, 0); ham16 (pkt + 6, 0); ham16 (pkt + 8, 0); for (i = 10; i < 42; ++i) pkt[i] = par ('A' + i % 20); }
static void ev (vbi_event *e, void *u) { (void) e; (void) u; }

static void btt_packet1 (uint8_t *pkt, int damage)
{
	int i;
	/* packet 1 of page 1F0: page types of 100-109, 110-119, 120-129, 130-139 */
	ham16 (pkt, (1 & 7) | (1 << 3));
	for (i = 0; i < 40; ++i)
		pkt[2 + i] = vbi_ham8 (8);		/* normal page */
	pkt[2 + 0] = vbi_ham8 (4);			/* 100 block */
	pkt[2 + 10] = vbi_ham8 (6);			/* 110 group */
	pkt[2 + 20] = vbi_ham8 (1);			/* 120 subtitle */
	if (damage)
		pkt[2 + 3] ^= 0x03;			/* two bit errors in the byte of page 103 */
}

int main (void)
{
	uint8_t pkt[42]; int before[0x40], after[0x40], i, bad = 0; vbi_subno sub;
	vbi = vbi_decoder_new ();
	vbi_event_handler_register (vbi, VBI_EVENT_TTX_PAGE, ev, NULL);
	header (pkt, 1, 0xF0); send (pkt); btt_packet1 (pkt, 0); send (pkt);
	header (pkt, 1, 0xF1); send (pkt);
	for (i = 0; i < 0x40; ++i) before[i] = vbi_classify_page (vbi, 0x100 + i, &sub, NULL);
	header (pkt, 1, 0xF0); send (pkt); btt_packet1 (pkt, 1); send (pkt);
	header (pkt, 1, 0xF1); send (pkt);
	for (i = 0; i < 0x40; ++i) after[i] = vbi_classify_page (vbi, 0x100 + i, &sub, NULL);
	printf ("error-free: 100=%#x 110=%#x 120=%#x\n", before[0], before[0x10], before[0x20]);
	for (i = 0; i < 0x40; ++i)
		if (before[i] != after[i]) {
			if (bad++ < 6)
				printf ("page %x: type %#x -> %#x after the damaged retransmission\n", 0x100 + i, before[i], after[i]);
		}
	if (0x70 != before[0x20]) { printf ("replay broken: BTT not decoded\n"); return 2; }
	if (bad) { printf ("FAIL: %d pages changed their type although only the byte of page 103 was damaged\n", bad); return 1; }
	printf ("OK: the uncorrectable byte changed nothing\n");
	return 0;
}
