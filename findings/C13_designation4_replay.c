/* C13 replay: Teletext packet 8/30 with the reserved designation code 4 is taken for format 2
   (parse_8_30 ignores only designations above 4; parse_bsd ignores 4 and above): a PROG_ID
   event is raised with a label that was never transmitted as programme identification.

   build: cc -I/repo designation4_replay.c /repo/src/.libs/libzvbi.a -lm -lpthread -lpng -lz
   exit 0: designation 2 raises one PROG_ID event, designation 4 none;  exit 1 otherwise. */
#include <stdio.h>
#include <stdlib.h>
#include <string.h>
#include "src/libzvbi.h"
static vbi_decoder *vbi; static double T = 1000; static int n_pid;
static void send (uint8_t *pkt) { vbi_sliced s; memset (&s, 0, sizeof s); s.id = VBI_SLICED_TELETEXT_B; s.line = 7; memcpy (s.data, pkt, 42); T += 0.04; vbi_decode (vbi, &s, 1, T); }
static void ev (vbi_event *e, void *u) { (void) u; if (VBI_EVENT_PROG_ID == e->type) { ++n_pid; printf ("  PROG_ID event: cni %04x pil %05x\n", e->ev.prog_id->cni, e->ev.prog_id->pil); } }
static void p830 (uint8_t *pkt, int designation)
{
	int i;
	pkt[0] = vbi_ham8 (0 | ((30 & 1) << 3));	/* magazine 8, packet 30 */
	pkt[1] = vbi_ham8 (30 >> 1);
	pkt[2] = vbi_ham8 (designation);
	for (i = 3; i < 9; ++i) pkt[i] = vbi_ham8 (i == 3 ? 0 : 1);	/* initial page link */
	for (i = 9; i < 22; ++i) pkt[i] = vbi_ham8 ((i * 5) & 15);	/* Hamming-clean payload */
	for (i = 22; i < 42; ++i) pkt[i] = 0x20;
}
int main (void)
{
	uint8_t pkt[42]; int n2, n4;
	vbi = vbi_decoder_new ();
	vbi_event_handler_register (vbi, VBI_EVENT_PROG_ID, ev, NULL);
	printf ("designation 2 (format 2):\n");
	p830 (pkt, 2); send (pkt); n2 = n_pid;
	printf ("designation 4 (reserved):\n");
	p830 (pkt, 4); send (pkt); n4 = n_pid - n2;
	if (1 != n2) { printf ("replay broken: format 2 packet raised %d events\n", n2); return 2; }
	if (0 != n4) { printf ("FAIL: the reserved designation 4 raised %d PROG_ID event(s)\n", n4); return 1; }
	printf ("OK: reserved designation ignored\n");
	return 0;
}
