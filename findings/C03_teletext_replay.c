/* replay of the C03 candidates against the real library (ASan/UBSan build, private headers for inspection) */
#include <stdio.h>
#include <stdlib.h>
#include <string.h>
#include "src/vbi.h"
#include "src/hamm.h"
#include "src/cache-priv.h"

static vbi_decoder *vbi;
static double T = 1000;
static int bad_byte (void) { int x; for (x = 0; x < 256; ++x) if (vbi_unham8 (x) < 0) return x; return -1; }
static uint8_t par (uint8_t c) { int n = 0, i; for (i = 0; i < 7; ++i) n += (c >> i) & 1; return (c & 0x7F) | ((n & 1) ? 0 : 0x80); }
static void ham16 (uint8_t *p, int v) { p[0] = vbi_ham8 (v & 15); p[1] = vbi_ham8 (v >> 4); }
static void send (uint8_t *pkt) { vbi_sliced s; memset (&s, 0, sizeof s); s.id = VBI_SLICED_TELETEXT_B; s.line = 7; memcpy (s.data, pkt, 42); T += 0.04; vbi_decode (vbi, &s, 1, T); }
static void header (uint8_t *pkt, int mag, int page, int s1s2, int s3s4, int c) {
	int i; memset (pkt, par (' '), 42);
	ham16 (pkt, (mag & 7) | (0 << 3)); ham16 (pkt + 2, page); ham16 (pkt + 4, s1s2); ham16 (pkt + 6, s3s4); ham16 (pkt + 8, c);
	for (i = 10; i < 42; ++i) pkt[i] = par ('A' + i % 20);
}
static void row (uint8_t *pkt, int mag, int packet, int fill) { int i; ham16 (pkt, (mag & 7) | (packet << 3)); for (i = 2; i < 42; ++i) pkt[i] = fill; }
static void ev (vbi_event *e, void *u) { if (e->type == VBI_EVENT_TTX_PAGE) printf ("page event %x.%04x\n", e->ev.ttx_page.pgno, e->ev.ttx_page.subno); }

int main (int argc, char **argv)
{
	int which = atoi (argv[1]); uint8_t pkt[42];
	vbi = vbi_decoder_new ();
	vbi_event_handler_register (vbi, VBI_EVENT_TTX_PAGE, ev, NULL);
	if (which == 1) {
		/* F16: S1/S2 byte pair uncorrectable, S3/S4 non-zero: the header must be refused */
		vbi_page pg;
		header (pkt, 1, 0x23, 0x01, 0x10, 0); pkt[4] = bad_byte ();
		printf ("vbi_unham16p (S1S2) = %d, vbi_unham16p (S3S4) = %d\n", vbi_unham16p (pkt + 4), vbi_unham16p (pkt + 6));
		send (pkt);
		row (pkt, 1, 1, par ('x')); send (pkt);
		header (pkt, 1, 0x24, 0, 0, 0); send (pkt);		/* terminates page 123 */
		if (vbi_fetch_vt_page (vbi, &pg, 0x123, VBI_ANY_SUBNO, VBI_WST_LEVEL_1, 25, 0))
			{ printf ("page 123 was stored under subno 0x%04x although its subcode was uncorrectable\n", pg.subno); return 1; }
		printf ("page 123 refused\n"); return 0;
	} else if (which == 2) {
		/* F15: X/28/1 with uncorrectable triplets changes the DRCS CLUT */
		struct ttx_extension *ext; int i, changed = 0; uint8_t before[40];
		header (pkt, 1, 0x30, 0, 0, 0); send (pkt);
		ext = &cache_network_magazine (vbi->cn, 0x100)->extension;
		(void) ext;
		{ cache_page *cp = vbi->vt.raw_page[1].page; memcpy (before, cp->data.ext_lop.ext.drcs_clut, 40);
		row (pkt, 1, 28, 0); pkt[2] = vbi_ham8 (1); /* designation 1 */
		for (i = 3; i < 42; ++i) pkt[i] = 0xFF;	/* garbage triplets */
		printf ("vbi_unham24p (first triplet) = %d\n", vbi_unham24p (pkt + 3));
		send (pkt);
		for (i = 0; i < 40; ++i) changed += before[i] != cp->data.ext_lop.ext.drcs_clut[i];
		printf ("DRCS CLUT entries changed by an X/28/1 packet whose triplets are all uncorrectable: %d\n", changed); }
		return changed ? 1 : 0;
	} else {
		/* MIP page 1FD: entry for page 100 has code 0x50, its sub-code triplet in packet 15 has an uncorrectable third byte */
		int i;
		header (pkt, 1, 0xFD, 0, 0, 0); send (pkt);
		row (pkt, 1, 1, vbi_ham8 (0)); ham16 (pkt + 2, 0x50); send (pkt);
		row (pkt, 1, 15, vbi_ham8 (0)); ham16 (pkt + 3, 0x02); pkt[5] = bad_byte (); send (pkt);
		header (pkt, 1, 0x00, 0, 0, 0); send (pkt);	/* terminates the MIP page -> parse_mip */
		puts ("MIP page parsed");
		return 0;
	}
}
