/*
 * Test harness for the zvbi proxy daemon (daemon/proxyd.c).
 *
 * The daemon source is compiled into the demo unchanged (#include), with
 *  - main() renamed, and
 *  - vbi_capture_v4l2_new() redirected to a simulated capture device
 *    (a pipe the demo feeds with frame sequence numbers; the daemon
 *    select()s on it and reads one "frame" per 4 byte sequence number).
 * The daemon's real main loop runs in a thread and listens on a real
 * UNIX domain socket; the demo talks to it with hand-made protocol
 * messages so that it can also misbehave.
 */
#ifndef SIM_COUNT0
#define SIM_COUNT0 16
#endif
#ifndef SIM_COUNT1
#define SIM_COUNT1 16
#endif
#ifndef SIM_LINES
#define SIM_LINES 2
#endif
#ifndef HARNESS_H
#define HARNESS_H

#define main                  zvbid_main
#define vbi_capture_v4l2_new  sim_capture_new
#include "daemon/proxyd.c"
#undef main
#undef vbi_capture_v4l2_new

#include <stdarg.h>
#include <poll.h>
#include <sys/socket.h>
#include <sys/un.h>
#include <arpa/inet.h>

/* ------------------------------------------------------------------ */
/* simulated capture device                                            */

typedef struct {
	vbi_capture		cap;
	vbi_raw_decoder		dec;
	unsigned int		services;
} sim_capture;

static int sim_pipe[2] = { -1, -1 };
static volatile int sim_open_count;
static volatile int sim_delete_count;

#define SIM_SERVICES (VBI_SLICED_TELETEXT_B | VBI_SLICED_VPS)

static void
sim_fill_line (vbi_sliced *s, uint32_t seq, unsigned int n)
{
	unsigned int i;

	memset (s, 0, sizeof (*s));
	s->id = VBI_SLICED_TELETEXT_B;
	s->line = (0 == n) ? 7 : 320;
	memcpy (s->data, &seq, 4);
	for (i = 4; i < 42; ++i)
		s->data[i] = (uint8_t)(seq * 7 + n * 31 + i);
}

static int
sim_read (vbi_capture *vc, vbi_capture_buffer **raw,
	  vbi_capture_buffer **sliced, const struct timeval *timeout)
{
	uint32_t seq;
	ssize_t r;

	(void) vc; (void) raw; (void) timeout;

	r = read (sim_pipe[0], &seq, 4);
	if (4 != r)
		return 0; /* "timeout" */

	if (NULL != sliced && NULL != *sliced) {
		vbi_sliced *s = (vbi_sliced *)(*sliced)->data;

		sim_fill_line (s + 0, seq, 0);
		if (SIM_LINES > 1)
			sim_fill_line (s + 1, seq, 1);
		(*sliced)->size = SIM_LINES * sizeof (vbi_sliced);
		(*sliced)->timestamp = (double) seq;
	}

	return 1;
}

static vbi_raw_decoder *
sim_parameters (vbi_capture *vc)
{
	return &((sim_capture *) vc)->dec;
}

static unsigned int
sim_update_services (vbi_capture *vc, vbi_bool reset, vbi_bool commit,
		     unsigned int services, int strict, char **errorstr)
{
	sim_capture *sc = (sim_capture *) vc;
	unsigned int granted = services & SIM_SERVICES;

	(void) commit; (void) strict; (void) errorstr;

	if (reset)
		sc->services = 0;
	sc->services |= granted;
	sc->dec.services = sc->services;

	return granted;
}

static int  sim_get_scanning (vbi_capture *vc) { (void) vc; return 625; }
static void sim_flush (vbi_capture *vc) { (void) vc; }
static int  sim_get_fd (vbi_capture *vc) { (void) vc; return sim_pipe[0]; }

static VBI_CAPTURE_FD_FLAGS
sim_get_fd_flags (vbi_capture *vc)
{
	(void) vc;
	return VBI_FD_HAS_SELECT;
}

static void
sim_delete (vbi_capture *vc)
{
	++sim_delete_count;
	free (vc);
}

vbi_capture *
sim_capture_new (const char *dev_name, int buffers, unsigned int *services,
		 int strict, char **errorstr, vbi_bool trace)
{
	sim_capture *sc;

	(void) dev_name; (void) buffers; (void) services;
	(void) strict; (void) errorstr; (void) trace;

	sc = calloc (1, sizeof (*sc));
	assert (NULL != sc);

	sc->cap.read		= sim_read;
	sc->cap.parameters	= sim_parameters;
	sc->cap.update_services	= sim_update_services;
	sc->cap.get_scanning	= sim_get_scanning;
	sc->cap.flush		= sim_flush;
	sc->cap.get_fd		= sim_get_fd;
	sc->cap.get_fd_flags	= sim_get_fd_flags;
	sc->cap._delete		= sim_delete;

	sc->dec.scanning	= 625;
	sc->dec.start[0]	= 6;
	sc->dec.count[0]	= SIM_COUNT0;
	sc->dec.start[1]	= 318;
	sc->dec.count[1]	= SIM_COUNT1;

	++sim_open_count;

	return &sc->cap;
}

/* demo side: let the "device" deliver frame number seq */
static void
sim_feed_frame (uint32_t seq)
{
	ssize_t r = write (sim_pipe[1], &seq, 4);
	assert (4 == r);
}

/* ------------------------------------------------------------------ */
/* daemon in a thread                                                  */

static pthread_t daemon_tid;
static char daemon_dev_name[128];
static volatile int daemon_exited;

static void
daemon_cleanup (void)
{
	if (proxy.dev_count > 0 && NULL != proxy.dev[0].p_sock_path)
		unlink (proxy.dev[0].p_sock_path);
}

static void *
daemon_thread (void *arg)
{
	(void) arg;
	vbi_proxyd_main_loop ();
	daemon_exited = 1;
	return NULL;
}

static void
daemon_start (const char *tag)
{
	sigset_t set;
	int r;

	setvbuf (stdout, NULL, _IONBF, 0);

	r = pipe (sim_pipe);
	assert (0 == r);
	fcntl (sim_pipe[0], F_SETFL, O_NONBLOCK);

	/* same as main() of the daemon, except for the device name */
	memset (&proxy, 0, sizeof (proxy));
	proxy.tcp_ip_fd = -1;
	pthread_mutex_init (&proxy.clnt_mutex, NULL);

	opt_no_detach = TRUE;
	snprintf (daemon_dev_name, sizeof (daemon_dev_name),
		  "/zvbi-%s-%d", tag, (int) getpid ());
	vbi_proxyd_add_device (daemon_dev_name);
	vbi_proxy_msg_set_debug_level (0);

	vbi_proxyd_init ();
	vbi_proxyd_set_max_conn (opt_max_clients);
	vbi_proxyd_set_address (FALSE, NULL, NULL);
	vbi_proxy_msg_set_logging (FALSE, 0, 0, NULL);

	if (!vbi_proxyd_listen ()) {
		fprintf (stderr, "harness: daemon cannot listen on %s\n",
			 proxy.dev[0].p_sock_path);
		exit (2);
	}
	atexit (daemon_cleanup);

	r = pthread_create (&daemon_tid, NULL, daemon_thread, NULL);
	assert (0 == r);

	/* SIGALRM (channel scheduler) shall go to the daemon thread */
	sigemptyset (&set);
	sigaddset (&set, SIGALRM);
	pthread_sigmask (SIG_BLOCK, &set, NULL);
}

/* ------------------------------------------------------------------ */
/* raw protocol client                                                 */

typedef union {
	VBIPROXY_MSG	msg;
	char		space[65536];
} client_buf;

static void
demo_fail (const char *fmt, ...)
{
	va_list ap;

	fprintf (stderr, "FAIL: ");
	va_start (ap, fmt);
	vfprintf (stderr, fmt, ap);
	va_end (ap);
	fprintf (stderr, "\n");
	fflush (stderr);
	daemon_cleanup ();
	_exit (1);
}

static int
cl_open (void)
{
	struct sockaddr_un sa;
	int fd;

	fd = socket (AF_UNIX, SOCK_STREAM, 0);
	assert (fd >= 0);
	memset (&sa, 0, sizeof (sa));
	sa.sun_family = AF_UNIX;
	snprintf (sa.sun_path, sizeof (sa.sun_path), "%s",
		  proxy.dev[0].p_sock_path);
	if (0 != connect (fd, (struct sockaddr *) &sa, sizeof (sa)))
		demo_fail ("cannot connect to daemon socket: %s",
			   strerror (errno));
	return fd;
}

static void
cl_send_bytes (int fd, const void *p, size_t n)
{
	const char *c = p;

	while (n > 0) {
		ssize_t r = send (fd, c, n, MSG_NOSIGNAL);

		if (r < 0 && EINTR == errno)
			continue;
		if (r <= 0)
			demo_fail ("send to daemon failed: %s",
				   strerror (errno));
		c += r;
		n -= r;
	}
}

static void
cl_send (int fd, VBIPROXY_MSG_TYPE type, const void *body, size_t body_len)
{
	char buf[2048];
	VBIPROXY_MSG_HEADER head;

	assert (sizeof (head) + body_len <= sizeof (buf));
	head.len  = htonl (sizeof (head) + body_len);
	head.type = htonl (type);
	memcpy (buf, &head, sizeof (head));
	if (body_len > 0)
		memcpy (buf + sizeof (head), body, body_len);
	cl_send_bytes (fd, buf, sizeof (head) + body_len);
}

/* returns 1 ok, 0 timeout, -1 connection closed */
static int
cl_recv_bytes (int fd, void *p, size_t n, int timeout_ms)
{
	char *c = p;

	while (n > 0) {
		struct pollfd pfd;
		ssize_t r;
		int pr;

		pfd.fd = fd;
		pfd.events = POLLIN;
		pfd.revents = 0;
		pr = poll (&pfd, 1, timeout_ms);
		if (pr < 0 && EINTR == errno)
			continue;
		if (0 == pr)
			return 0;
		r = recv (fd, c, n, 0);
		if (r < 0 && (EINTR == errno || EAGAIN == errno))
			continue;
		if (r <= 0)
			return -1;
		c += r;
		n -= r;
	}
	return 1;
}

/* Receive one message. Returns the message type, -1 on timeout,
   -2 when the daemon closed the connection. */
static int
cl_recv (int fd, client_buf *cb, int timeout_ms)
{
	uint32_t len;
	int r;

	r = cl_recv_bytes (fd, &cb->msg.head, sizeof (cb->msg.head), timeout_ms);
	if (0 == r)
		return -1;
	if (r < 0)
		return -2;
	len = ntohl (cb->msg.head.len);
	cb->msg.head.len = len;
	cb->msg.head.type = ntohl (cb->msg.head.type);
	if (len < sizeof (cb->msg.head) || len > sizeof (cb->space))
		demo_fail ("daemon sent a message with bad length %u", len);
	r = cl_recv_bytes (fd, &cb->msg.body, len - sizeof (cb->msg.head), 5000);
	if (r <= 0)
		demo_fail ("daemon sent a truncated message");
	return (int) cb->msg.head.type;
}

/* Receive the next message which is not a channel change indication
   (the daemon sends those asynchronously, e.g. for the norm). */
static int
cl_recv_skip_ind (int fd, client_buf *cb, int timeout_ms)
{
	int t;

	do t = cl_recv (fd, cb, timeout_ms);
	while (MSG_TYPE_CHN_CHANGE_IND == t);

	return t;
}

static void
cl_expect (int fd, client_buf *cb, int type, const char *who, const char *what)
{
	int t = cl_recv_skip_ind (fd, cb, 5000);

	if (t != type)
		demo_fail ("%s: expected %s (%s), got %d (%s)", who,
			   vbi_proxy_msg_debug_get_type_str (type), what, t,
			   (-1 == t) ? "timeout - daemon not responding" :
			   (-2 == t) ? "connection closed by daemon" :
			   vbi_proxy_msg_debug_get_type_str (t));
}

static int
cl_connect (const char *name, unsigned int services, client_buf *cb)
{
	VBIPROXY_CONNECT_REQ req;
	int fd = cl_open ();

	memset (&req, 0, sizeof (req));
	vbi_proxy_msg_fill_magics (&req.magics);
	snprintf ((char *) req.client_name, sizeof (req.client_name),
		  "%s", name);
	req.pid = getpid ();
	req.client_flags = 0;
	req.scanning = 0;
	req.buffer_count = 1;
	req.services = services;
	req.strict = 0;

	cl_send (fd, MSG_TYPE_CONNECT_REQ, &req, sizeof (req));
	cl_expect (fd, cb, MSG_TYPE_CONNECT_CNF, name, "connect");
	if (cb->msg.body.connect_cnf.services != services)
		demo_fail ("%s: connect granted services 0x%x, wanted 0x%x",
			   name, cb->msg.body.connect_cnf.services, services);
	return fd;
}

/* A harmless synchronous request: when the reply has arrived the daemon
   has processed everything sent to it earlier. */
static void
cl_sync (int fd, client_buf *cb, const char *who)
{
	VBIPROXY_CHN_NOTIFY_REQ req;

	memset (&req, 0, sizeof (req));
	req.notify_flags = VBI_PROXY_CHN_NONE;
	cl_send (fd, MSG_TYPE_CHN_NOTIFY_REQ, &req, sizeof (req));
	cl_expect (fd, cb, MSG_TYPE_CHN_NOTIFY_CNF, who, "sync");
}

/* Receive the next sliced frame and verify number and content. */
static void
cl_expect_frame (int fd, client_buf *cb, uint32_t seq, const char *who)
{
	VBIPROXY_SLICED_IND *ind = &cb->msg.body.sliced_ind;
	vbi_sliced want;
	unsigned int n;
	int t;

	t = cl_recv_skip_ind (fd, cb, 5000);
	if (MSG_TYPE_SLICED_IND != t)
		demo_fail ("%s: waiting for frame %u, got %d (%s)", who, seq, t,
			   (-1 == t) ? "timeout - daemon stopped delivering" :
			   (-2 == t) ? "connection closed by daemon" :
			   vbi_proxy_msg_debug_get_type_str (t));
	if (2 != ind->sliced_lines || (double) seq != ind->timestamp)
		demo_fail ("%s: waiting for frame %u, got frame %.0f "
			   "with %u lines", who, seq, ind->timestamp,
			   ind->sliced_lines);
	for (n = 0; n < 2; ++n) {
		sim_fill_line (&want, seq, n);
		if (0 != memcmp (&want, &ind->u.sliced[n], sizeof (want)))
			demo_fail ("%s: frame %u line %u corrupted",
				   who, seq, n);
	}
}

#endif /* HARNESS_H */
