#!/bin/sh
# usage: sh run.sh <built zvbi tree> [tsan]
T=${1:-/repo}; D=$(cd "$(dirname "$0")" && pwd); O=$(mktemp -d)
SAN=""; [ "${2:-}" = tsan ] && SAN="-fsanitize=thread"
gcc -g -O1 -w $SAN -I"$T" -I"$T/src" -I"$D" -DHAVE_CONFIG_H -D_GNU_SOURCE "$D/replay.c" "$T/src/.libs/libzvbi.a" -lpthread -lm -lpng -lz -o "$O/replay" || exit 3
TSAN_OPTIONS="exitcode=66" timeout 300 "$O/replay" 2>&1 | grep -v "^    #[2-9]\|^$" | head -${LINES_MAX:-40}
rc=$?; rm -rf "$O"; exit $rc
