/* Replay of the C18 finding F12: in the acquisition-thread configuration
 * (capture device without select) the main loop reads a queued frame in
 * vbi_proxyd_send_sliced() without queue_mutex while the acquisition
 * thread may force-free that very buffer, hand it out again and refill it.
 * One client reads continuously while the capture clock runs faster than
 * the queue can hold: every received frame must equal the direct capture
 * for its own timestamp.  Built with -fsanitize=thread the daemon process
 * also reports the data race directly.
 * (harness.h is the sub-agent's harness of seed C18_1: it #includes
 * daemon/proxyd.c with a fake capture device and runs it in a child.)
 */
#include "harness.h"

int main (void)
{
	h_client A; long i, torn = 0, got = 0; int ok = 1;
	signal (SIGPIPE, SIG_IGN);
	h_start_daemon (/* use_select */ 0);		/* -> acquisition thread */
	if (!h_connect (&A, "A", SRV_TTX | SRV_VPS | SRV_WSS, 0)) { h_stop_daemon (); return 2; }
	for (i = 0; i < 400 && h_daemon_alive (); i++) {
		int k;
		for (k = 0; k < 40; k++) h_tick ();	/* burst: more frames than buffers */
		for (k = 0; k < 12; k++) {
			vbi_capture_buffer *buf = NULL; struct timeval tv = { 0, 20000 };
			vbi_sliced ref[64]; long no; int n_ref, r;
			r = vbi_capture_pull_sliced (A.cap, &buf, &tv);
			if (r <= 0 || !buf) break;
			got++;
			no = lround ((buf->timestamp - TS_BASE) / TS_STEP);
			n_ref = gen_frame (no, A.want, ref);
			if ((int)(buf->size / sizeof (vbi_sliced)) != n_ref || memcmp (buf->data, ref, n_ref * sizeof (vbi_sliced))) {
				if (!torn) fprintf (stderr, "TORN FRAME: frame with timestamp of capture %ld does not contain the lines captured then\n", no);
				torn++;
			}
		}
	}
	fprintf (stderr, "%ld frames received, %ld torn; daemon %s\n", got, torn, h_daemon_alive () ? "alive" : "DIED");
	h_disconnect (&A);
	h_stop_daemon ();
	return torn ? 1 : 0;
}
