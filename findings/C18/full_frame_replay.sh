#!/bin/sh
# usage: sh full_frame_replay.sh /path/to/built/zvbi/tree
T=${1:-/repo}
D=$(cd "$(dirname "$0")" && pwd)
OUT=${TMPDIR:-/tmp}/c18_full_replay.$$
gcc -g -O0 -w -I"$T" -I"$T/src" -I"$D"  -DHAVE_CONFIG_H -D_GNU_SOURCE \
    "$D/full_frame_replay.c" "$T/src/.libs/libzvbi.a" -lpthread -lm -lpng -lz -o "$OUT" || exit 2
"$OUT"; RC=$?
rm -f "$OUT"
exit $RC
