/*
 * Test harness for the zvbi proxy daemon (property C18).
 *
 * The daemon source (daemon/proxyd.c) is #included into the demo with main()
 * renamed; the V4L/V4L2 open calls are redirected to a deterministic fake
 * capture device implemented below.  The daemon runs in a forked child
 * process; the parent drives the "capture clock" through a pipe (one byte ==
 * one captured frame) and talks to the daemon through the regular client
 * library (vbi_proxy_client_create / vbi_capture_proxy_new /
 * vbi_capture_pull_sliced / vbi_capture_update_services).
 *
 * Frame number n of the fake device is a pure function of n:
 *   timestamp = 1000 + n * 0.04
 *   Teletext B on lines 7..15 and 320..328, VPS on 16, Caption 625 on 22,
 *   WSS 625 on line 23; payload bytes derived from (n, line).
 * Only services currently enabled in the device (union of what the daemon
 * asked for with update_services) are "captured".
 */
#ifdef HAVE_CONFIG_H
#  include "config.h"
#endif

#include <stdio.h>
#include <stdlib.h>
#include <string.h>
#include <unistd.h>
#include <errno.h>
#include <fcntl.h>
#include <signal.h>
#include <poll.h>
#include <math.h>
#include <sys/types.h>
#include <sys/wait.h>
#include <sys/time.h>

#include "src/vbi.h"
#include "src/inout.h"
#include "src/proxy-msg.h"
#include "src/proxy-client.h"

#define SRV_TTX   VBI_SLICED_TELETEXT_B
#define SRV_VPS   VBI_SLICED_VPS
#define SRV_CC    VBI_SLICED_CAPTION_625
#define SRV_WSS   VBI_SLICED_WSS_625
#define SRV_ALL   (SRV_TTX | SRV_VPS | SRV_CC | SRV_WSS)

#define TS_BASE   1000.0
#define TS_STEP   0.04

/* ------------------------------------------------------------------ */
/* deterministic frame generator (shared by fake device and checker)  */

static int
gen_frame (long n, unsigned int services, vbi_sliced *out)
{
	static const struct { unsigned int id; int first, last; } spec[] = {
		{ SRV_TTX, 7, 15 },
		{ SRV_VPS, 16, 16 },
		{ SRV_CC, 22, 22 },
		{ SRV_WSS, 23, 23 },
		{ SRV_TTX, 320, 328 },
	};
	unsigned int i;
	int line, j, cnt = 0;

	for (i = 0; i < sizeof (spec) / sizeof (spec[0]); i++) {
		if (0 == (spec[i].id & services))
			continue;
		for (line = spec[i].first; line <= spec[i].last; line++) {
			memset (&out[cnt], 0, sizeof (out[cnt]));
			out[cnt].id = spec[i].id;
			out[cnt].line = line;
			for (j = 0; j < (int) sizeof (out[cnt].data); j++)
				out[cnt].data[j] =
					(uint8_t)(n * 7 + line * 13 + j);
			cnt++;
		}
	}
	return cnt;
}

/* ------------------------------------------------------------------ */
/* fake capture device (lives in the daemon process)                   */

typedef struct {
	vbi_capture		cap;
	vbi_raw_decoder		dec;
	unsigned int		enabled;
} fake_cap;

static int	fake_tick_fd = -1;	/* read end: one byte per frame */
static int	fake_log_fd = -1;	/* write end: device event log */
static int	fake_use_select = 1;
static long	fake_frame_no = 0;

static void
fake_log (const char *fmt, unsigned int arg)
{
	char buf[64];
	int n = snprintf (buf, sizeof (buf), fmt, arg);
	if (fake_log_fd >= 0 && n > 0)
		if (write (fake_log_fd, buf, n) < 0) { /* ignore */ }
}

static int
fake_read (vbi_capture *vc, vbi_capture_buffer **raw,
	   vbi_capture_buffer **sliced, const struct timeval *timeout)
{
	fake_cap *f = (fake_cap *) vc;
	char c;
	int n, lines;

	(void) timeout;

	n = read (fake_tick_fd, &c, 1);
	if (n != 1)
		return 0; /* timeout */

	if (NULL != raw)
		return -1; /* no raw data from this device */

	if (NULL != sliced && NULL != *sliced) {
		lines = gen_frame (fake_frame_no, f->enabled,
				   (vbi_sliced *)(*sliced)->data);
		(*sliced)->size = lines * sizeof (vbi_sliced);
		(*sliced)->timestamp = TS_BASE + fake_frame_no * TS_STEP;
	}
	fake_frame_no++;
	return 1;
}

static vbi_raw_decoder *
fake_parameters (vbi_capture *vc)
{
	return &((fake_cap *) vc)->dec;
}

static unsigned int
fake_update_services (vbi_capture *vc, vbi_bool reset, vbi_bool commit,
		      unsigned int services, int strict, char **errstr)
{
	fake_cap *f = (fake_cap *) vc;

	(void) strict; (void) errstr;

	if (reset)
		f->enabled = 0;
	f->enabled |= services & SRV_ALL;
	f->dec.services = f->enabled;
	if (commit)
		fake_log ("SRV %x\n", f->enabled);
	return services & SRV_ALL;
}

static int
fake_get_scanning (vbi_capture *vc)
{
	(void) vc;
	return 625;
}

static int
fake_get_fd (vbi_capture *vc)
{
	(void) vc;
	return fake_tick_fd;
}

static VBI_CAPTURE_FD_FLAGS
fake_get_fd_flags (vbi_capture *vc)
{
	(void) vc;
	return fake_use_select ? VBI_FD_HAS_SELECT : 0;
}

static void
fake_delete (vbi_capture *vc)
{
	fake_log ("CLOSE %x\n", 0);
	free (vc);
}

static vbi_capture *
fake_v4l2_new (const char *dev_name, int buffers, unsigned int *services,
	       int strict, char **errorstr, vbi_bool trace)
{
	fake_cap *f;

	(void) dev_name; (void) buffers; (void) services;
	(void) strict; (void) errorstr; (void) trace;

	f = calloc (1, sizeof (*f));
	if (NULL == f)
		return NULL;

	f->cap.read = fake_read;
	f->cap.parameters = fake_parameters;
	f->cap.update_services = fake_update_services;
	f->cap.get_scanning = fake_get_scanning;
	f->cap.get_fd = fake_get_fd;
	f->cap.get_fd_flags = fake_get_fd_flags;
	f->cap._delete = fake_delete;

	/* Like a bttv device: fixed VBI window independent of services. */
	f->dec.scanning = 625;
	f->dec.sampling_format = VBI_PIXFMT_YUV420;
	f->dec.sampling_rate = 27000000;
	f->dec.bytes_per_line = 2048;
	f->dec.offset = 128;
	f->dec.start[0] = 6;
	f->dec.start[1] = 318;
	f->dec.count[0] = 18;
	f->dec.count[1] = 18;
	f->dec.interlaced = FALSE;
	f->dec.synchronous = TRUE;

	fake_log ("OPEN %x\n", 0);
	return &f->cap;
}

static vbi_capture *
fake_v4l_new (const char *dev_name, int scanning, unsigned int *services,
	      int strict, char **errorstr, vbi_bool trace)
{
	(void) dev_name; (void) scanning; (void) services;
	(void) strict; (void) errorstr; (void) trace;
	return NULL;
}

/* ------------------------------------------------------------------ */
/* the daemon itself                                                   */

#define main			zvbid_original_main
#define vbi_capture_v4l2_new	fake_v4l2_new
#define vbi_capture_v4l_new	fake_v4l_new
#include "daemon/proxyd.c"
#undef main
#undef vbi_capture_v4l2_new
#undef vbi_capture_v4l_new
#undef dprintf

static char	h_dev_name[128];
static pid_t	h_daemon_pid = -1;
static int	h_tick_wr = -1;
static int	h_log_rd = -1;

static void
h_daemon_child (void)
{
	memset (&proxy, 0, sizeof (proxy));
	proxy.tcp_ip_fd = -1;
	pthread_mutex_init (&proxy.clnt_mutex, NULL);

	opt_no_detach = TRUE;
	vbi_proxyd_add_device (h_dev_name);
	vbi_proxy_msg_set_debug_level (0);

	vbi_proxyd_init ();
	vbi_proxyd_set_max_conn (opt_max_clients);
	vbi_proxyd_set_address (FALSE, NULL, NULL);
	vbi_proxy_msg_set_logging (FALSE, -1, -1, NULL);

	if (vbi_proxyd_listen ()) {
		fake_log ("READY %x\n", 0);
		vbi_proxyd_main_loop ();
	} else {
		fake_log ("LISTENFAIL %x\n", 0);
	}
	vbi_proxyd_destroy ();
	pthread_mutex_destroy (&proxy.clnt_mutex);
	_exit (0);
}

/* Read one line from the device log, waiting up to msecs. */
static int
h_log_line (char *buf, size_t size, int msecs)
{
	size_t off = 0;

	while (off + 1 < size) {
		struct pollfd pfd = { h_log_rd, POLLIN, 0 };
		char c;

		if (poll (&pfd, 1, msecs) <= 0)
			break;
		if (read (h_log_rd, &c, 1) != 1)
			break;
		if (c == '\n') {
			buf[off] = 0;
			return 1;
		}
		buf[off++] = c;
	}
	buf[off] = 0;
	return 0;
}

/* Wait until a log line starting with prefix appears (others skipped). */
static int
h_log_wait (const char *prefix, int msecs, unsigned int *arg)
{
	char line[80];

	while (h_log_line (line, sizeof (line), msecs)) {
		if (0 == strncmp (line, prefix, strlen (prefix))) {
			if (arg)
				*arg = strtoul (line + strlen (prefix),
						NULL, 16);
			return 1;
		}
	}
	return 0;
}

static void
h_start_daemon (int use_select)
{
	int tick[2], logp[2];

	snprintf (h_dev_name, sizeof (h_dev_name),
		  "/tmp/zw-c18-sim-%ld", (long) getpid ());

	if (pipe (tick) != 0 || pipe (logp) != 0) {
		perror ("pipe");
		exit (99);
	}

	fflush (NULL);
	h_daemon_pid = fork ();
	if (h_daemon_pid < 0) {
		perror ("fork");
		exit (99);
	}
	if (0 == h_daemon_pid) {
		close (tick[1]);
		close (logp[0]);
		fake_tick_fd = tick[0];
		fake_log_fd = logp[1];
		fake_use_select = use_select;
		if (use_select)
			fcntl (fake_tick_fd, F_SETFL, O_NONBLOCK);
		h_daemon_child ();
		_exit (0);
	}
	close (tick[0]);
	close (logp[1]);
	h_tick_wr = tick[1];
	h_log_rd = logp[0];

	if (!h_log_wait ("READY", 5000, NULL)) {
		fprintf (stderr, "harness: daemon did not start\n");
		exit (99);
	}
}

/* Returns 1 if the daemon process is still running. */
static int
h_daemon_alive (void)
{
	int status;
	pid_t r;

	if (h_daemon_pid <= 0)
		return 0;
	r = waitpid (h_daemon_pid, &status, WNOHANG);
	if (0 == r)
		return 1;
	fprintf (stderr, "harness: daemon died, wait status 0x%x\n", status);
	h_daemon_pid = -1;
	return 0;
}

static void
h_stop_daemon (void)
{
	char *sock;

	if (h_daemon_pid > 0) {
		int status, i;

		kill (h_daemon_pid, SIGTERM);
		for (i = 0; i < 200; i++) {
			if (waitpid (h_daemon_pid, &status, WNOHANG) != 0)
				break;
			usleep (10000);
		}
		if (i >= 200) {
			kill (h_daemon_pid, SIGKILL);
			waitpid (h_daemon_pid, &status, 0);
		}
		h_daemon_pid = -1;
	}
	sock = vbi_proxy_msg_get_socket_name (h_dev_name);
	if (sock) {
		unlink (sock);
		free (sock);
	}
}

/* One tick of the capture clock: the device delivers one frame. */
static void
h_tick (void)
{
	char c = 't';

	if (write (h_tick_wr, &c, 1) != 1) {
		perror ("tick");
		exit (99);
	}
}

/* ------------------------------------------------------------------ */
/* clients                                                             */

typedef struct {
	const char *		name;
	vbi_proxy_client *	vpc;
	vbi_capture *		cap;
	unsigned int		want;	/* services the application wants */
	long			next;	/* next expected frame number, -1 any */
	long			received;
} h_client;

static int
h_connect (h_client *c, const char *name, unsigned int services, int strict)
{
	char *err = NULL;
	unsigned int srv = services;

	memset (c, 0, sizeof (*c));
	c->name = name;
	c->next = -1;
	c->vpc = vbi_proxy_client_create (h_dev_name, name, 0, &err, 0);
	if (NULL == c->vpc) {
		fprintf (stderr, "%s: client_create failed: %s\n",
			 name, err ? err : "?");
		return 0;
	}
	c->cap = vbi_capture_proxy_new (c->vpc, 5, 625, &srv, strict, &err);
	if (NULL == c->cap) {
		fprintf (stderr, "%s: connect failed: %s\n",
			 name, err ? err : "?");
		return 0;
	}
	if (srv != services) {
		fprintf (stderr, "%s: granted 0x%x, wanted 0x%x\n",
			 name, srv, services);
		return 0;
	}
	c->want = services;
	return 1;
}

static void
h_disconnect (h_client *c)
{
	if (c->cap)
		vbi_capture_delete (c->cap);
	if (c->vpc)
		vbi_proxy_client_destroy (c->vpc);
	c->cap = NULL;
	c->vpc = NULL;
}

/*
 * Pull one frame and compare it with what a direct capture of the same
 * device would have returned for the services the client asked for.
 * expect_no: frame number which must arrive (or -1: continue the
 * client's own sequence / accept first frame).
 * Returns 1 ok, 0 on violation (message printed).
 */
static int
h_pull_check (h_client *c, long expect_no)
{
	vbi_capture_buffer *buf = NULL;
	struct timeval tv = { 3, 0 };
	vbi_sliced ref[64];
	const vbi_sliced *got;
	int r, n_got, n_ref, i;
	long no;

	r = vbi_capture_pull_sliced (c->cap, &buf, &tv);
	if (r <= 0 || NULL == buf) {
		fprintf (stderr, "VIOLATION: %s: no frame within 3 s "
			 "(pull_sliced returned %d, errno %d), "
			 "expected frame %ld\n",
			 c->name, r, errno,
			 expect_no >= 0 ? expect_no : c->next);
		return 0;
	}
	no = lround ((buf->timestamp - TS_BASE) / TS_STEP);
	if (fabs (buf->timestamp - (TS_BASE + no * TS_STEP)) > 1e-6) {
		fprintf (stderr, "VIOLATION: %s: bad timestamp %f\n",
			 c->name, buf->timestamp);
		return 0;
	}
	if (expect_no < 0)
		expect_no = c->next;
	if (expect_no >= 0 && no != expect_no) {
		fprintf (stderr, "VIOLATION: %s: got frame %ld, "
			 "expected frame %ld (lost/duplicated/reordered)\n",
			 c->name, no, expect_no);
		return 0;
	}
	got = (const vbi_sliced *) buf->data;
	n_got = buf->size / sizeof (vbi_sliced);
	n_ref = gen_frame (no, c->want, ref);
	for (i = 0; i < n_got; i++) {
		if (0 == (got[i].id & c->want)) {
			fprintf (stderr, "VIOLATION: %s: frame %ld contains "
				 "line %u of service 0x%x which the client "
				 "does not subscribe (wants 0x%x)\n",
				 c->name, no, got[i].line, got[i].id,
				 c->want);
			return 0;
		}
	}
	if (n_got != n_ref
	    || 0 != memcmp (got, ref, n_ref * sizeof (vbi_sliced))) {
		fprintf (stderr, "VIOLATION: %s: frame %ld differs from "
			 "direct capture (%d lines, expected %d)\n",
			 c->name, no, n_got, n_ref);
		return 0;
	}
	c->next = no + 1;
	c->received++;
	return 1;
}
