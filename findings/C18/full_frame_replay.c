/* C18 replay: the capture device delivers a frame in which every line of the device's range was
   decoded (here: a range of one line, as for a WSS-only or VPS-only client, and that line
   present).  vbi_proxyd_forward_data() asserts line_count < max_lines - strictly - although the
   buffer has room for max_lines lines: the daemon aborts and every client loses its connection.

   Uses the daemon harness of the seeded changes with a configurable device range.
   build+run: sh full_frame_replay.sh <built zvbi tree>
   exit 0: the client receives the frame;  exit 1: the daemon died. */
#define SIM_COUNT0 1
#define SIM_COUNT1 0
#define SIM_LINES 1
#include "harness_cfg.h"
#include <sys/wait.h>

static int
scenario (void)
{
	client_buf cb;
	int a, t;

	daemon_start ("c18full");
	a = cl_connect ("A", VBI_SLICED_TELETEXT_B, &cb);
	sim_feed_frame (1);
	t = cl_recv_skip_ind (a, &cb, 5000);
	if (MSG_TYPE_SLICED_IND != t)
		demo_fail ("A: no frame (%d: %s)", t, -2 == t ? "connection closed by daemon" : "timeout");
	if (1 != cb.msg.body.sliced_ind.sliced_lines)
		demo_fail ("A: frame has %d lines, 1 was captured", cb.msg.body.sliced_ind.sliced_lines);
	close (a);
	daemon_cleanup ();
	return 0;
}

int
main (void)
{
	pid_t pid = fork ();
	int status = 0;

	if (0 == pid)
		_exit (scenario ());
	waitpid (pid, &status, 0);
	if (WIFSIGNALED (status)) {
		printf ("FAIL: the daemon process died with signal %d on a frame that fills its device range\n", WTERMSIG (status));
		return 1;
	}
	if (0 != WEXITSTATUS (status)) {
		printf ("FAIL: scenario exit %d\n", WEXITSTATUS (status));
		return 1;
	}
	printf ("OK: full frame delivered\n");
	return 0;
}
