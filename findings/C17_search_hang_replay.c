/* replay: forward search that finds nothing never terminates when every cached page is numbered below the start page */
#include <stdio.h>
#include <stdlib.h>
#include <string.h>
#include <signal.h>
#include <unistd.h>
#include "src/libzvbi.h"
static vbi_decoder *vbi; static double T = 1000;
static uint8_t par (uint8_t c) { int n = 0, i; for (i = 0; i < 7; ++i) n += (c >> i) & 1; return (c & 0x7F) | ((n & 1) ? 0 : 0x80); }
static void ham16 (uint8_t *p, int v) { p[0] = vbi_ham8 (v & 15); p[1] = vbi_ham8 (v >> 4); }
static void send (uint8_t *pkt) { vbi_sliced s; memset (&s, 0, sizeof s); s.id = VBI_SLICED_TELETEXT_B; s.line = 7; memcpy (s.data, pkt, 42); T += 0.04; vbi_decode (vbi, &s, 1, T); }
static void header (uint8_t *pkt, int mag, int page) { int i; memset (pkt, par (' '), 42); ham16 (pkt, mag & 7); ham16 (pkt + 2, page); ham16 (pkt + 4, 0); ham16 (pkt + 6, 0); ham16 (pkt + 8, 0); for (i = 10; i < 42; ++i) pkt[i] = par ('A' + i % 20); }
static void row (uint8_t *pkt, int mag, int packet, const char *txt) { int i; ham16 (pkt, (mag & 7) | (packet << 3)); for (i = 2; i < 42; ++i) pkt[i] = par (' '); for (i = 0; txt[i] && i < 40; ++i) pkt[2 + i] = par (txt[i]); }
static void ev (vbi_event *e, void *u) { }
static void on_alarm (int s) { static const char m[] = "HANG: vbi_search_next() did not return within 5 s\n"; write (2, m, sizeof m - 1); _exit (3); }
int main (void)
{
	uint8_t pkt[42]; uint16_t pat[] = { 'z', 'e', 'b', 'r', 'a', 0 }; vbi_search *s; vbi_page *pg; int r;
	vbi = vbi_decoder_new ();
	vbi_event_handler_register (vbi, VBI_EVENT_TTX_PAGE, ev, NULL);
	header (pkt, 1, 0x00); send (pkt); row (pkt, 1, 1, "hello world"); send (pkt);
	header (pkt, 1, 0x01); send (pkt); row (pkt, 1, 1, "another page"); send (pkt);
	header (pkt, 1, 0x02); send (pkt);		/* pages 100 and 101 are now cached */
	s = vbi_search_new (vbi, 0x200, VBI_ANY_SUBNO, pat, 0, 0, NULL);
	signal (SIGALRM, on_alarm); alarm (5);
	r = vbi_search_next (s, &pg, +1);
	printf ("vbi_search_next returned %d\n", r);
	return 0;
}
