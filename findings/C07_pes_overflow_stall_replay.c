/* Replay of a genuine defect (property C07): in PES mode the demultiplexer never
   recovers from a frame with more lines than its frame buffer holds (64).
   demux_pes_packet() discards the damaged frame only `if (err < 0)`, but every
   VBI_ERR_* code is positive, so the frame cursor stays at the end of the buffer and
   line_address() refuses every data unit of every later packet ("Out of sliced VBI
   buffer space") before it can notice that a new frame began.  The TS path tests
   `0 != err` and recovers.
   Stream: one PES packet with 70 Teletext data units (line 7, then 69 with
   line_offset 0 = line unknown), then 6 ordinary frames (lines 7..12).
   Expected: all but at most the first frame after the damage are delivered.
   Build: gcc -I<tree> -I<tree>/src -DHAVE_CONFIG_H -D_GNU_SOURCE this.c
          <tree>/src/.libs/libzvbi.a -lpthread -lm -lpng -lz */
#undef NDEBUG
#include <assert.h>
#include <stdio.h>
#include <stdlib.h>
#include <string.h>
#include <stdint.h>
#include "src/libzvbi.h"

#define N_UNKNOWN 69
#define N_NORMAL 6
#define LINES_PER_FRAME 6

static uint8_t pes[16384];
static uint8_t stream[65536];
static unsigned int stream_size;

static void
put_pes (const uint8_t *p, unsigned int size)
{
	assert (stream_size + size <= sizeof (stream));
	memcpy (stream + stream_size, p, size);
	stream_size += size;
}

static uint8_t *
pes_header (uint8_t *p, unsigned int size, int64_t pts)
{
	assert (0 == size % 184);
	memset (p, 0xFF, size);
	p[0] = 0x00; p[1] = 0x00; p[2] = 0x01; p[3] = 0xBD;
	p[4] = (size - 6) >> 8; p[5] = (size - 6) & 0xFF;
	p[6] = 0x84; p[7] = 0x80; p[8] = 0x24;
	p[9] = 0x21 | ((pts >> 29) & 0x0E);
	p[10] = pts >> 22;
	p[11] = (pts >> 14) | 1;
	p[12] = pts >> 7;
	p[13] = (pts << 1) | 1;
	p[45] = 0x10; /* data_identifier */
	return p + 46;
}

static uint8_t *
ttx_unit (uint8_t *d, unsigned int line, unsigned int seed)
{
	unsigned int j;

	d[0] = 0x02; d[1] = 0x2C;
	d[2] = 0xC0 | 0x20 | line; /* first field */
	d[3] = 0xE4;
	for (j = 0; j < 42; ++j)
		d[4 + j] = seed + j;
	return d + 46;
}

static void
stuffing (uint8_t *d, uint8_t *end)
{
	assert (0 == (end - d) % 46);
	for (; d < end; d += 46) {
		d[0] = 0xFF; d[1] = 0x2C;
	}
}

static void
make_stream (void)
{
	unsigned int size, i, f;
	uint8_t *p, *d;

	/* Big frame: line 7, then N_UNKNOWN units with unknown line. */
	size = 46 + (1 + N_UNKNOWN) * 46;
	size = (size + 183) / 184 * 184;
	p = pes;
	assert (size <= sizeof (pes));
	d = pes_header (p, size, 1000);
	d = ttx_unit (d, 7, 0x10);
	for (i = 0; i < N_UNKNOWN; ++i)
		d = ttx_unit (d, 0, 0x20 + i);
	stuffing (d, p + size);
	put_pes (p, size);

	/* Ordinary frames, lines 7 ... 12. */
	for (f = 0; f < N_NORMAL; ++f) {
		d = pes_header (p, 368, 2000 + f * 3600);
		for (i = 0; i < LINES_PER_FRAME; ++i)
			d = ttx_unit (d, 7 + i, 0x80 + f * 8 + i);
		stuffing (d, p + 368);
		put_pes (p, 368);
	}
}


static unsigned int n_frames;
static int64_t got_pts[32];
static unsigned int got_lines[32];

static vbi_bool
cb (vbi_dvb_demux *dx, void *user_data, const vbi_sliced *sliced,
    unsigned int n_lines, int64_t pts)
{
	(void) dx; (void) user_data; (void) sliced;
	if (n_frames < 32) {
		got_pts[n_frames] = pts;
		got_lines[n_frames] = n_lines;
	}
	++n_frames;
	return TRUE;
}

int
main (void)
{
	vbi_dvb_demux *dx;
	unsigned int i, n_after = 0;

	make_stream ();
	dx = vbi_dvb_pes_demux_new (cb, NULL);
	assert (NULL != dx);
	vbi_dvb_demux_feed (dx, stream, stream_size);
	vbi_dvb_demux_delete (dx);
	for (i = 0; i < n_frames && i < 32; ++i) {
		printf ("frame %u: pts %lld, %u lines\n", i, (long long) got_pts[i], got_lines[i]);
		if (got_pts[i] >= 2000 && LINES_PER_FRAME == got_lines[i])
			++n_after;
	}
	/* The last frame stays in the demultiplexer (no later packet flushes it),
	   the first one after the damage may be lost. */
	printf ("%u intact frames delivered after the oversized one, at least %u expected\n",
		n_after, N_NORMAL - 2);
	if (n_after < N_NORMAL - 2) {
		printf ("REPLAY FAILED\n");
		return 1;
	}
	printf ("REPLAY PASSED\n");
	return 0;
}
