"""RF-NEG — decode-error discipline.

Sources are the results of the Hamming / parity decoders, which are negative
iff the byte (pair, triplet) was uncorrectable.  A source is *unchecked*
until a branch proves it non-negative: a test `E < 0` (false edge) or
`E >= 0` (true edge) where E carries the source through assignments and
bitwise OR only (OR is the only operator that preserves "negative iff some
operand was negative"; a sum, product, shift, mask or narrowing cast does
not, so a test on such a value proves nothing about its operands).

State (per program point), a dict:
   ("t", key) -> frozenset of (src, preserved)   taint of a local variable /
                                                  local array / tracked path
   "ok"       -> frozenset of src                sources proven >= 0
src = (call node id, generation) with generation "cur" or "old": when a source
call site executes again (a loop) the values of earlier executions become
"old", so that a test of this iteration's value does not vouch for them.

Join: union of taints, intersection of "ok".
"""
from . import ex, flow, summaries

CUR, OLD = "cur", "old"

# the decoders; each returns a negative int on an uncorrectable error.  The
# property modules verify through the interval engine that this is still so.
SOURCES = ("vbi_unham8", "vbi_unham16p", "vbi_unham24p", "vbi_unpar8", "vbi_unpar")
# pure value functions: the result depends on the argument but is never
# negative-preserving (bit reversal, BCD tests ...)
PASS_THROUGH = ("vbi_rev8", "vbi_rev16", "vbi_rev16p", "vbi_bcd2bin", "vbi_bcd2dec", "vbi_dec2bcd", "vbi_bin2bcd",
                "vbi_is_bcd", "vbi_add_bcd", "vbi_neg_bcd", "abs", "__builtin_expect", "vbi_par8", "get_bits")


class Neg:
    def __init__(self, ctx, f, sources=SOURCES, extra_sources=None):
        self.ctx = ctx
        self.f = f
        self.sources = set(sources)
        # repo wrappers whose result is negative on error: name -> True
        self.extra = set(extra_sources or ())
        self.IN = None
        self.n_sources = 0
        self._src_sites = set()
        self._all_keys = set()

    # ---- running -----------------------------------------------------------
    def run(self):
        self.IN = flow.forward(self.f, {"ok": frozenset()}, self.xfer_elem, self.xfer_edge, self.join,
                               max_visits=200)
        self.n_sources = len(self._src_sites)
        return self

    @staticmethod
    def join(a, b):
        if a is b:
            return a
        out = {"ok": a["ok"] & b["ok"]}
        for k in set(a) | set(b):
            if k == "ok":
                continue
            out[k] = a.get(k, frozenset()) | b.get(k, frozenset())
        # a source ok on one side only stays tainted where it is tainted
        return out

    def state_before(self, eid):
        pos = flow.elem_pos(self.f).get(eid)
        if pos is None:
            return None
        return flow.replay_block(self.f, self.IN, pos[0], self.xfer_elem, upto=eid)

    # ---- keys ----------------------------------------------------------------
    def key_of(self, lv):
        """State key of a local lvalue (variable, local array, field of a
        local aggregate); None for anything that lives outside the frame."""
        f = self.f
        i = ex.skip(f, lv)
        if i is None or i < 0:
            return None
        if summaries.is_nonlocal_lvalue(f, i):
            return None
        e = f.exprs[i]
        if e["k"] == "ref":
            return ("t", e["name"])
        if e["k"] == "idx":
            b = ex.root(f, i)
            if b is None:
                return None
            v = ex.const(f, e["c"][1])
            base = ex.path(f, e["c"][0])
            if base is None:
                return None
            if v is not None and v >= 0:
                return ("t", "%s[%d]" % (base, v))      # element at a constant index: its own key
            return ("t", "%s[]" % base)     # variable index: the array summary (weak updates)
        if e["k"] == "mem":
            p = ex.path(f, i)
            return ("t", p) if p else None
        return None

    def _pointee_keys(self, arg):
        """State keys of the local objects reachable from a pointer argument:
        &local, a local array, and - for &struct - the local arrays whose
        address was stored into one of its fields (bs.triplet = triplets)."""
        f = self.f
        j = ex.skip(f, arg)
        e = f.exprs[j]
        while e["k"] == "cast":
            j = ex.skip(f, e["c"][0])
            e = f.exprs[j]
        base = None
        if e["k"] == "un" and e["op"] == "&":
            base = ex.skip(f, e["c"][0])
        elif "arr" in e:
            base = j
        if base is None or summaries.is_nonlocal_lvalue(f, base):
            return []
        r = ex.root(f, base)
        if r is None:
            return []
        name = f.exprs[r]["name"]
        keys = [("t", name), ("t", "%s[]" % name)] + [k for k in self._all_keys if k[1].startswith(name + "[")]
        c = f._cache.get("neg_ptr_fields")
        if c is None:
            c = {}
            for bid, i in flow.all_events(f):
                for lhs, var, op, rhs in flow.stores(f, i):
                    if lhs is None or rhs is None or op != "=":
                        continue
                    le = f.exprs[ex.skip(f, lhs)]
                    if le["k"] != "mem" or summaries.is_nonlocal_lvalue(f, lhs):
                        continue
                    lr = ex.root(f, lhs)
                    re_ = f.exprs[ex.skip(f, rhs)]
                    while re_["k"] == "cast":
                        re_ = f.exprs[ex.skip(f, re_["c"][0])]
                    tgt = None
                    if re_["k"] == "ref" and "arr" in re_ and re_.get("dk") == "local":
                        tgt = re_["name"]
                    elif re_["k"] == "un" and re_["op"] == "&":
                        rr = ex.root(f, re_["c"][0])
                        if rr is not None and f.exprs[rr].get("dk") == "local":
                            tgt = f.exprs[rr]["name"]
                    if lr is not None and tgt is not None:
                        c.setdefault(f.exprs[lr]["name"], set()).add(tgt)
            f._cache["neg_ptr_fields"] = c
        for tgt in c.get(name, ()):
            keys += [("t", tgt), ("t", "%s[]" % tgt)]
        # fields of the local struct itself
        for k in list(self._all_keys):
            if k[1].startswith(name + "."):
                keys.append(k)
        return keys

    def is_weak(self, key):
        return key[1].endswith("[]")

    # ---- taint of an expression ----------------------------------------------
    def taint(self, st, i, depth=0):
        f = self.f
        if i is None or i < 0 or depth > 80:
            return frozenset()
        e = f.exprs[i]
        if "v" in e:
            return frozenset()
        k = e["k"]
        if k == "call":
            n = e.get("callee")
            if n in self.sources or n in self.extra:
                src = (i, CUR)
                if src in st["ok"]:
                    return frozenset()
                return frozenset([(src, True)])
            if n in PASS_THROUGH:
                t = frozenset()
                for a in e.get("c", []):
                    t |= self.taint(st, a, depth + 1)
                    # a pointer to a local object: what it (transitively) points to
                    for key in self._pointee_keys(a):
                        t |= frozenset((s, p) for s, p in st.get(key, frozenset()) if s not in st["ok"])
                if n == "__builtin_expect":
                    return self.taint(st, e["c"][0], depth + 1)
                return frozenset((s, False) for s, _ in t)
            return frozenset()
        if k in ("ref", "idx", "mem"):
            key = self.key_of(i)
            if key is not None:
                t = st.get(key, frozenset())
                if key[1].endswith("[]"):
                    # a[i] with unknown i may be any element
                    pre = key[1][:-1]
                    for k2, t2 in st.items():
                        if k2 != "ok" and k2 != key and k2[1].startswith(pre):
                            t = t | t2
                elif key[1].endswith("]"):
                    # a[c] may also have been written through a variable index
                    t = t | st.get(("t", key[1][:key[1].rindex("[")] + "[]"), frozenset())
                return frozenset((s, p) for s, p in t if s not in st["ok"])
            return frozenset()
        if k == "cast":
            t = self.taint(st, e["c"][0], depth + 1)
            if not t:
                return t
            ck = e["ck"]
            if ck in ex.TRANSPARENT_CASTS:
                return t
            if ck == "IntegralCast":
                src = f.exprs[e["c"][0]]
                a, b = src.get("it"), e.get("it")
                # sign-preserving widening keeps negativity; everything else does not
                if a and b and a[1] == 1 and b[1] == 1 and b[0] >= a[0]:
                    return t
                return frozenset((s, False) for s, _ in t)
            return frozenset((s, False) for s, _ in t)
        if k == "bin":
            op = e["op"]
            a = self.taint(st, e["c"][0], depth + 1)
            b = self.taint(st, e["c"][1], depth + 1)
            if op == ",":
                return b
            if op == "|":
                return a | b
            if op in ("<", ">", "<=", ">=", "==", "!=", "&&", "||"):
                return frozenset()          # a truth value carries no decode data
            if op == "*":
                # multiplication by a positive constant keeps the sign
                ca, cb = ex.const(f, e["c"][0]), ex.const(f, e["c"][1])
                if (cb is not None and cb > 0 and not b) or (ca is not None and ca > 0 and not a):
                    return a | b
            return frozenset((s, False) for s, _ in (a | b))
        if k == "un":
            op = e["op"]
            t = self.taint(st, e["c"][0], depth + 1)
            if op in ("+", "__extension__"):
                return t
            if op == "!":
                return frozenset()
            if op in ("++", "--"):
                return frozenset((s, False) for s, _ in t)
            if op in ("&", "*"):
                return frozenset()
            return frozenset((s, False) for s, _ in t)
        if k == "asg":
            if e["op"] == "=":
                return self.taint(st, e["c"][1], depth + 1)
            a = self.taint(st, e["c"][0], depth + 1)
            b = self.taint(st, e["c"][1], depth + 1)
            if e["op"] == "|=":
                return a | b
            return frozenset((s, False) for s, _ in (a | b))
        if k == "cond":
            return self.taint(st, e["c"][1], depth + 1) | self.taint(st, e["c"][2], depth + 1)
        if k in ("stmtexpr", "opaque"):
            if e.get("c"):
                return self.taint(st, e["c"][0], depth + 1)
        return frozenset()

    # ---- transfer --------------------------------------------------------------
    def xfer_elem(self, st, i):
        f = self.f
        e = f.exprs[i]
        k = e["k"]
        if k == "call":
            n = e.get("callee")
            if n in self.sources or n in self.extra:
                self._src_sites.add(i)
                cur, old = (i, CUR), (i, OLD)
                if cur in st["ok"]:
                    # every value of the previous execution was proven >= 0 (and
                    # removed from all taints); only this execution is unchecked
                    out = dict(st)
                    out["ok"] = st["ok"] - {cur}
                    return out
                out = {"ok": st["ok"] - {cur, old}}
                for key, t in st.items():
                    if key == "ok":
                        continue
                    out[key] = frozenset(((old, p) if s == cur else (s, p)) for s, p in t)
                return out
            # a call that may write through a pointer to a local array/variable
            # leaves untainted data there (it is not decode data any more)
            if e.get("noret"):
                return None
            return st
        if k == "asg" or (k == "un" and e["op"] in ("++", "--")) or k == "decl":
            for lhs, var, op, rhs in flow.stores(f, i):
                if var is not None:
                    key = ("t", var["name"])
                    t = self.taint(st, rhs) if rhs is not None else frozenset()
                    st = self._set(st, key, t, strong=True)
                    continue
                key = self.key_of(lhs)
                if key is None:
                    continue
                if op == "=":
                    t = self.taint(st, rhs)
                elif op in ("++", "--"):
                    t = frozenset((s, False) for s, _ in self.taint(st, lhs))
                else:
                    t = self.taint(st, i)
                st = self._set(st, key, t, strong=not self.is_weak(key))
            return st
        return st

    def _set(self, st, key, t, strong):
        self._all_keys.add(key)
        out = dict(st)
        if strong:
            if t:
                out[key] = t
            else:
                out.pop(key, None)
        else:
            u = st.get(key, frozenset()) | t
            if u:
                out[key] = u
        return out

    def xfer_edge(self, st, bid, lab, succ):
        f = self.f
        t = f.blocks[bid].term
        if lab not in ("T", "F") or not t or "cond" not in t:
            return st
        return self.assume(st, t["cond"], lab == "T")

    def assume(self, st, c, truth):
        f = self.f
        j = ex.skip(f, c)
        e = f.exprs[j]
        k = e["k"]
        if k == "un" and e["op"] == "!":
            return self.assume(st, e["c"][0], not truth)
        if k == "cast" and e["ck"] in ("IntegralToBoolean", "IntegralCast"):
            return self.assume(st, e["c"][0], truth)
        if k == "bin" and e["op"] == "&&" and truth:
            return self.assume(self.assume(st, e["c"][0], True), e["c"][1], True)
        if k == "bin" and e["op"] == "||" and not truth:
            return self.assume(self.assume(st, e["c"][0], False), e["c"][1], False)
        if k == "bin" and e["op"] in ("<", ">=", ">", "<="):
            op = e["op"]
            a, b = e["c"]
            ca, cb = ex.const(f, a), ex.const(f, b)
            nonneg = None      # expression proven >= 0 on this edge
            if cb is not None:
                # E < 0 (F), E >= 0 (T), E > -1 (T), E <= -1 (F), E >= c>0 (T), E > c>=0 (T)
                if op == "<" and cb <= 0 and not truth:
                    nonneg = a
                elif op == ">=" and cb >= 0 and truth:
                    nonneg = a
                elif op == ">" and cb >= -1 and truth:
                    nonneg = a
                elif op == "<=" and cb <= -1 and not truth:
                    nonneg = a
            elif ca is not None:
                # 0 > E (F), 0 <= E (T), -1 < E (T)
                if op == ">" and ca <= 0 and not truth:
                    nonneg = b
                elif op == "<=" and ca >= 0 and truth:
                    nonneg = b
                elif op == "<" and ca >= -1 and truth:
                    nonneg = b
                elif op == ">=" and ca <= -1 and not truth:
                    nonneg = b
            if nonneg is not None:
                # the comparison must be a signed one to mean anything
                ne = f.exprs[ex.skip(f, nonneg)]
                if ne.get("it") and ne["it"][1] == 0:
                    return st
                t = self.taint(st, nonneg)
                good = frozenset(s for s, p in t if p)
                if good:
                    out = dict(st)
                    out["ok"] = st["ok"] | good
                    for key, tt in st.items():
                        if key == "ok":
                            continue
                        nt = frozenset((s, p) for s, p in tt if s not in good)
                        if nt:
                            out[key] = nt
                        else:
                            del out[key]
                    return out
        return st

    # ---- sinks -------------------------------------------------------------------
    def persistent_stores(self):
        """Yield (eid, lhs, taint, what) for every store into memory that
        outlives the call whose stored value carries an unchecked source."""
        f = self.f
        for bid, i in flow.all_events(f):
            e = f.exprs[i]
            if e["k"] not in ("asg", "un"):
                continue
            for lhs, var, op, rhs in flow.stores(f, i):
                if lhs is None or not summaries.is_nonlocal_lvalue(f, lhs):
                    continue
                st = self.state_before(i)
                if st is None:
                    continue
                t = self.taint(st, rhs) if op == "=" else self.taint(st, i)
                yield i, lhs, t

    def describe(self, t):
        f = self.f
        parts = []
        for (sid, gen), p in sorted(t, key=lambda x: (x[0][0], x[0][1])):
            parts.append("%s at line %d%s%s" % (ex.pretty(f, sid)[:60], f.exprs[sid]["line"],
                                               "" if p else " (through arithmetic/mask: a later `< 0` test cannot vouch for it)",
                                               " [earlier loop iteration]" if gen == OLD else ""))
        return "; ".join(parts)


# --------------------------------------------------------------------------
# further sinks

def shift_sinks(a):
    """Yield (node, taint) for every left shift whose left operand may be a
    negative (unchecked, sign-preserving) decode result."""
    f = a.f
    pos = flow.elem_pos(f)
    reach = f.reachable_blocks()
    for i, e in enumerate(f.exprs):
        if not ((e["k"] == "bin" and e["op"] == "<<") or (e["k"] == "asg" and e["op"] == "<<=")):
            continue
        p = pos.get(i)
        if p is None or p[0] not in reach:
            continue
        st = _state_before_tree(a, i)
        if st is None:
            continue
        t = frozenset((s, pz) for s, pz in a.taint(st, e["c"][0]) if pz)
        if t:
            yield i, t


def _state_before_tree(a, eid):
    f = a.f
    pos = flow.elem_pos(f)
    p = pos.get(eid)
    if p is None:
        return None
    first, best = eid, p[1]
    for n in ex.walk(f, eid):
        q = pos.get(n)
        if q is not None and q[0] == p[0] and q[1] < best:
            best, first = q[1], n
    st = flow.replay_block(f, a.IN, p[0], a.xfer_elem, upto=first)
    # the operands' own side effects (t = call ()) must be visible: replay up to eid itself
    return flow.replay_block(f, a.IN, p[0], a.xfer_elem, upto=eid) if st is not None else None


def unexamined(a):
    """Yield (assign event, variable) for every local assigned the result of a
    decode call that, on some path, reaches the function exit or its next
    plain assignment without being read."""
    f = a.f
    for bid, i in flow.all_events(f):
        for lhs, var, op, rhs in flow.stores(f, i):
            if rhs is None or op != "=":
                continue
            r = f.exprs[ex.skip(f, rhs)]
            if not (r["k"] == "call" and (r.get("callee") in a.sources or r.get("callee") in a.extra)):
                continue
            if var is not None:
                name, did = var["name"], var.get("did")
            else:
                le = f.exprs[ex.skip(f, lhs)]
                if le["k"] != "ref" or le.get("dk") not in ("local", "param"):
                    continue
                name, did = le["name"], le.get("did")
            # `err |= t = call ()`: the value of the assignment itself is consumed
            if _value_used(f, i):
                continue
            if _dead_path(f, bid, i, name, did):
                yield i, name


def _value_used(f, asg):
    """The assignment expression is an operand of a larger expression (its
    value is used right away)."""
    for j, e in enumerate(f.exprs):
        if j == asg:
            continue
        if e["k"] in ("bin", "asg", "un", "call", "cond", "idx", "ret") or (e["k"] == "cast" and e["ck"] != "ToVoid"):
            for c in e.get("c", []):
                if ex.skip(f, c) == asg and not (e["k"] == "bin" and e["op"] == "," and e["c"][0] == c):
                    return True
    for b in f.blocks.values():
        if b.term and "cond" in b.term and ex.skip(f, b.term["cond"]) == asg:
            return True
    return False


def _is_read(f, n, name, did):
    e = f.exprs[n]
    if e["k"] == "cast" and e["ck"] == "LValueToRValue":
        c = f.exprs[e["c"][0]]
        if c["k"] == "ref" and c["name"] == name and c.get("did") == did:
            return True
    if (e["k"] == "asg" and e["op"] != "=") or (e["k"] == "un" and e["op"] in ("++", "--")):
        c = f.exprs[ex.skip(f, e["c"][0])]
        if c["k"] == "ref" and c["name"] == name and c.get("did") == did:
            return True
    if e["k"] == "un" and e["op"] == "&":
        c = f.exprs[ex.skip(f, e["c"][0])]
        if c["k"] == "ref" and c["name"] == name and c.get("did") == did:
            return True        # address escapes: assume it is read
    return False


def _is_redef(f, n, name, did):
    e = f.exprs[n]
    if e["k"] == "asg" and e["op"] == "=":
        c = f.exprs[ex.skip(f, e["c"][0])]
        return c["k"] == "ref" and c["name"] == name and c.get("did") == did
    return False


def _read_somewhere(f, name, did):
    c = f._cache.setdefault("neg_read_somewhere", {})
    if (name, did) not in c:
        c[(name, did)] = any(_is_read(f, n, name, did) for n in range(len(f.exprs)))
    return c[(name, did)]


def _dead_path(f, bid, eid, name, did):
    elems = f.blocks[bid].elems
    start = elems.index(eid) + 1
    work = [(bid, start)]
    seen = set()
    while work:
        b, k = work.pop()
        blk = f.blocks[b]
        res = None
        for n in blk.elems[k:]:
            if _is_read(f, n, name, did):
                res = "read"
                break
            if _is_redef(f, n, name, did):
                return True
        if res == "read":
            continue
        if blk.noret:
            continue
        if b == f.exit:
            return True
        for s, _ in f.edges(b):
            if s == f.exit:
                # giving up (return FALSE / 0) without looking is fine
                ret = [n for n in blk.elems if f.exprs[n]["k"] == "ret"]
                if ret and f.exprs[ret[-1]].get("c") and ex.const(f, f.exprs[ret[-1]]["c"][0]) == 0:
                    continue
                # a function without a result: leaving it is not a statement about the verdict, as long as the verdict
                # is looked at where the function goes on (a decode hoisted above an early exit)
                if not any(f.exprs[n].get("c") for n in ret) and _read_somewhere(f, name, did):
                    continue
                return True
            if s not in seen:
                seen.add(s)
                work.append((s, 0))
    return False



def helper_contract(ctx, run, rule="RF-NEG"):
    """vbi_unham16p combines two table values that are -1 on an uncorrectable byte.  Callers test the
    *sign of the result*; that is sound only if the two are combined with bitwise OR (optionally
    after multiplying one by a positive constant): a sum of -1 and 16 * n is non-negative."""
    from . import ex, flow
    from .prog import AnalysisBroken
    cands = [f for f in ctx.prog.funcs if f.name == "vbi_unham16p"]
    if not cands:
        raise AnalysisBroken("vbi_unham16p not found")
    f = cands[0]
    run.touch(f)
    ok = None
    for bid, i in flow.all_events(f):
        e = f.exprs[i]
        if e["k"] != "ret" or not e.get("c"):
            continue
        j = ex.skip(f, e["c"][0])
        r = f.exprs[j]
        while r["k"] == "cast":
            j = ex.skip(f, r["c"][0])
            r = f.exprs[j]
        loads = [n for n in ex.walk(f, j) if f.exprs[n]["k"] == "idx" and "_vbi_hamm8_inv" in ex.pretty(f, n)]
        if len(loads) < 2:
            continue
        ok = r["k"] == "bin" and r["op"] == "|"
        key = "%s:vbi_unham16p:sign-preserving-combination" % rule
        if ok:
            run.holds(rule, key, "the two nibbles are combined with `|`: the result is negative iff one of them is", ex.loc(f, i))
        else:
            run.violation(rule, key, "vbi_unham16p combines its two table values with `%s`, not `|`: an uncorrectable first byte (-1) "
                          "plus a non-zero second nibble gives a non-negative result, so every caller's `< 0` test accepts the "
                          "damaged byte pair" % (r.get("op") or r["k"]), ex.loc(f, i), witness={"operator": r.get("op")})
    if ok is None:
        raise AnalysisBroken("vbi_unham16p: the return of the two combined table values was not found")


def call_arg_sinks(a):
    """Yield (call node, arg index, taint) for every call of a function other than the decoders
    and the pure value helpers that is handed a sign-preserving, still unchecked decode result:
    the callee then works with -1 as if it were data."""
    f = a.f
    for bid, i in flow.all_events(f):
        e = f.exprs[i]
        if e["k"] != "call":
            continue
        n = e.get("callee")
        if n in a.sources or n in a.extra or n in PASS_THROUGH or n is None:
            continue
        st = a.state_before(i)
        if st is None:
            continue
        for k, arg in enumerate(e.get("c", [])):
            t = frozenset((s, pz) for s, pz in a.taint(st, arg) if pz)
            if t:
                yield i, k, t


def callee_tests_param(ctx, f, call, k):
    """The callee examines parameter k itself: every read of it other than the test lies behind
    the non-negative edge of a `param < 0` / `param >= 0` branch."""
    e = f.exprs[call]
    g = ctx.prog.func_for(f, e.get("callee")) if e.get("callee") else None
    if g is None or k >= len(g.params):
        return False
    pn = g.params[k]["name"]
    a = Neg(ctx, g)
    edges = set()       # (src block, label) proving pn >= 0
    conds = set()
    for bid, b in g.blocks.items():
        t = b.term
        if not t or "cond" not in t:
            continue
        for lab in ("T", "F"):
            st = {"ok": frozenset(), ("t", pn): frozenset([(("param", CUR), True)])}
            try:
                out = a.assume(st, t["cond"], lab == "T")
            except Exception:
                continue
            if ("param", CUR) in out["ok"]:
                edges.add((bid, lab))
                conds.add(ex.skip(g, t["cond"]))
    if not edges:
        return False
    pos = flow.elem_pos(g)
    for i, x in enumerate(g.exprs):
        if x["k"] != "ref" or x.get("name") != pn or x.get("dk") != "param":
            continue
        p = pos.get(i)
        if p is None:
            continue
        if any(i in set(ex.walk(g, c)) for c in conds):
            continue
        dom = {(s, l) for s, l, c in flow.dominating_edges(g, p[0])}
        if not (dom & edges):
            return False
    return True


def discarded_results(a):
    """Yield the call node of every decoder call whose result is thrown away (the call is a
    statement of its own): for the in-place decoders (vbi_unpar strips the parity bits of a
    buffer and reports a failure only through its result) the damaged bytes are then used as if
    they were good."""
    f = a.f
    for bid, i in flow.all_events(f):
        e = f.exprs[i]
        if e["k"] != "call" or e.get("callee") not in a.sources:
            continue
        if _value_used(f, i):
            continue
        # initialiser of a declaration?
        used = False
        for j, d in enumerate(f.exprs):
            if d["k"] == "decl":
                for v in d.get("vars", []):
                    if "init" in v and i in set(ex.walk(f, v["init"])):
                        used = True
        if not used:
            yield i
