"""RF-CMP — absorbing countdown guards.  Inside a loop, `if (n-- == 0) { ...; continue; }` stops
acting once n has passed 0 (it keeps being decremented on every iteration), unless the taken branch
re-arms n.  Such a guard must be written `<= 0`."""
from . import ex, flow, loops


def find(f):
    res = []
    L = loops.natural_loops(f)
    if not L:
        return res, 0
    n_sites = 0
    for bid, b in f.blocks.items():
        t = b.term
        if not t or "cond" not in t:
            continue
        c = f.exprs[ex.skip(f, t["cond"])]
        if not (c["k"] == "bin" and c["op"] in ("==", "<=", "<", ">", ">=", "!=")):
            continue
        l = f.exprs[ex.skip(f, c["c"][0])]
        while l["k"] == "cast":
            l = f.exprs[ex.skip(f, l["c"][0])]
        if not (l["k"] == "un" and l["op"] == "--"):
            continue
        v = f.exprs[ex.skip(f, l["c"][0])]
        k = ex.const(f, c["c"][1])
        if v["k"] != "ref" or k is None:
            continue
        head = loops.innermost(f, bid)
        if head is None or bid == head:
            continue            # the loop's own condition (`while (n-- > 0)`) ends the loop: fine
        n_sites += 1
        if c["op"] != "==":
            continue
        # the branch taken when n-- == k: does it re-arm n before the loop goes round?
        tsucc = [s for s, lab in f.edges(bid) if lab == "T"]
        if not tsucc:
            continue
        rearmed = True
        seen, stack = set(), [tsucc[0]]
        while stack:
            x = stack.pop()
            if x in seen:
                continue
            seen.add(x)
            stores = False
            for i in flow.events(f, x):
                for lhs, var, op, rhs in flow.stores(f, i):
                    if lhs is not None:
                        le = f.exprs[ex.skip(f, lhs)]
                        if le["k"] == "ref" and le.get("name") == v["name"] and op == "=":
                            stores = True
            if stores:
                continue
            if x == head or x not in L[head]:
                rearmed = False
                break
            stack.extend(s for s, _ in f.edges(x))
        if not rearmed:
            res.append((ex.skip(f, t["cond"]), v["name"], k))
    return res, n_sites
