"""RF-BITS — bit provenance (an abstract domain, no solver, no execution).

Every integer value is a vector of bits, each bit one of
    0, 1                      a known constant
    ("in", path, j)           bit j of an *input* of the function: a scalar
                              parameter, a field read through a pointer
                              parameter, or byte k of a buffer parameter
    None                      unknown
The transfer functions cover exactly the operators the VPS / DVB-PDC codecs
are written with: & | ^ ~ << >> (by constants), + of values whose possibly-set
bits do not overlap (then + is |), integral casts, ?:, and calls of codec
functions on the same buffers (evaluated in place with the arguments bound).

From the states at the `return TRUE` exits the module derives
  encoder:  buffer byte k, bit j  <-  old bit / field bit / constant
  decoder:  field bit i           <-  buffer bit / constant
and compares them (see check_vps).
"""
from . import ex, flow, summaries, absint
from .prog import AnalysisBroken

W = 64


def const_bits(v, w=W):
    v &= (1 << w) - 1
    return tuple((v >> j) & 1 for j in range(w))


def in_bits(path, width, w=W):
    return tuple(("in", path, j) if j < width else 0 for j in range(w))


UNK = tuple([None] * W)
ZERO = const_bits(0)


def resize(b, it_from, it_to):
    """Integral conversion."""
    if not it_to:
        return b
    wt = it_to[0]
    wf = it_from[0] if it_from else W
    signed_from = bool(it_from and it_from[1])
    out = list(b[:min(wf, wt)])
    if wt > wf:
        top = b[wf - 1] if wf >= 1 else 0
        ext = top if signed_from else 0
        if ext not in (0, 1):
            ext = None
        out += [ext] * (wt - wf)
    out = out[:wt]
    # canonical: bits above the type width are a sign/zero extension
    if len(out) < W:
        top = out[-1] if (it_to[1] and out) else 0
        if top not in (0, 1):
            top = None
        out += [top] * (W - len(out))
    return tuple(out)


def b_and(a, b):
    out = []
    for x, y in zip(a, b):
        if x == 0 or y == 0:
            out.append(0)
        elif x == 1:
            out.append(y)
        elif y == 1:
            out.append(x)
        elif x is not None and x == y:
            out.append(x)
        else:
            out.append(None)
    return tuple(out)


def b_or(a, b):
    out = []
    for x, y in zip(a, b):
        if x == 1 or y == 1:
            out.append(1)
        elif x == 0:
            out.append(y)
        elif y == 0:
            out.append(x)
        elif x is not None and x == y:
            out.append(x)
        else:
            out.append(None)
    return tuple(out)


def b_xor(a, b):
    out = []
    for x, y in zip(a, b):
        if x == 0:
            out.append(y)
        elif y == 0:
            out.append(x)
        elif x in (0, 1) and y in (0, 1):
            out.append(x ^ y)
        else:
            out.append(None)
    return tuple(out)


def b_not(a):
    return tuple((1 - x) if x in (0, 1) else None for x in a)


def b_shl(a, n):
    if n >= W:
        return ZERO
    return tuple([0] * n + list(a[:W - n]))


def b_shr(a, n, width, signed):
    # logical shift within `width`; an arithmetic shift only when the top bit is known 0
    body = list(a[:width])
    top = body[-1] if body else 0
    fill = 0
    if signed and top != 0:
        fill = None if top is None or isinstance(top, tuple) else top
    body = body[n:] + [fill] * min(n, width)
    body = body[:width]
    ext = fill if signed else 0
    return tuple(body + [ext] * (W - len(body)))


def disjoint(a, b):
    return all(x == 0 or y == 0 for x, y in zip(a, b))


def b_add(a, b):
    if disjoint(a, b):
        return b_or(a, b)
    if all(x in (0, 1) for x in a) and all(y in (0, 1) for y in b):
        va = sum(x << j for j, x in enumerate(a))
        vb = sum(x << j for j, x in enumerate(b))
        return const_bits(va + vb)
    # bits below the lowest possibly-overlapping position are still exact
    out = []
    carry_possible = False
    for x, y in zip(a, b):
        if carry_possible:
            out.append(None)
            continue
        if x == 0:
            out.append(y)
        elif y == 0:
            out.append(x)
        else:
            out.append(None)
            carry_possible = True
    return tuple(out)


def join_bits(a, b):
    return tuple(x if x == y else None for x, y in zip(a, b))


class Eval:
    """Forward evaluation of one function.  bind: parameter name ->
    ("ptr", caller_path) | ("addr", caller_path) | ("bits", bits)."""

    def __init__(self, ctx, f, bind=None, outer=None, prune=None, depth=0):
        self.ctx = ctx
        self.f = f
        self.bind = bind or {}
        self.outer = outer          # (Eval, state) of the caller, for loads of shared memory
        self.prune = prune or (lambda f, cond: None)
        self.depth = depth
        self.an = ctx.analysis(f, False)
        self.reads = {}             # input path -> set of bit positions read
        self.bounds = {}            # input path -> upper bound proven by a callee's guard
        self.IN = None

    # ---- paths -------------------------------------------------------------
    def cpath(self, i):
        """Canonical (caller-level) path of an lvalue, or None."""
        f = self.f
        p = ex.path(f, i)
        if p is None or "*]" in p:
            return None
        r = ex.root(f, i)
        if r is None:
            return None
        name = f.exprs[r]["name"]
        b = self.bind.get(name)
        if b is None:
            return p
        kind, base = b[0], b[1]
        if kind == "ptr":
            return _replace_root(p, name, base)
        if kind == "addr":
            # P == &base :  *P -> base, P->f -> base.f
            if p == "*" + name:
                return base
            if p.startswith(name + "->"):
                return base + "." + p[len(name) + 2:]
            if p.startswith("(*" + name + ")"):
                return base + p[len(name) + 3:]
            return None
        return p

    # ---- evaluation ---------------------------------------------------------
    def ev(self, st, i, depth=0):
        f = self.f
        if i is None or i < 0 or depth > 80:
            return UNK
        e = f.exprs[i]
        it = e.get("it")
        if "v" in e and e["k"] not in ("asg",):
            return const_bits(e["v"])
        k = e["k"]
        if k == "ref":
            dk = e.get("dk")
            if dk in ("local", "param"):
                b = self.bind.get(e["name"])
                if b is not None and b[0] == "bits":
                    if ("L", e["name"]) in st:
                        return st[("L", e["name"])]
                    return b[1]
                if ("L", e["name"]) in st:
                    return self._masked_by_range(st[("L", e["name"])], i)
                if dk == "param" and it:
                    return self._input(e["name"], it, i)
                return UNK
            return UNK
        if k in ("mem", "idx") or (k == "un" and e["op"] == "*"):
            if not it:
                return UNK
            p = self.cpath(i)
            if p is None:
                return UNK
            v = self.load(st, p, it, i)
            return v
        if k == "cast":
            ck = e["ck"]
            c = e["c"][0]
            if ck in ex.TRANSPARENT_CASTS:
                return self.ev(st, c, depth + 1)
            if ck in ("IntegralCast",):
                return resize(self.ev(st, c, depth + 1), f.exprs[c].get("it"), it)
            if ck == "IntegralToBoolean":
                return UNK
            return UNK
        if k == "bin":
            op = e["op"]
            if op == ",":
                return self.ev(st, e["c"][1], depth + 1)
            if op in ("<", ">", "<=", ">=", "==", "!=", "&&", "||"):
                return tuple([None] + [0] * (W - 1))
            a = self.ev(st, e["c"][0], depth + 1)
            b = self.ev(st, e["c"][1], depth + 1)
            r = self._binop(op, a, b, e, st)
            return self._norm(r, it)
        if k == "un":
            op = e["op"]
            if op in ("+", "__extension__"):
                return self.ev(st, e["c"][0], depth + 1)
            if op == "~":
                return self._norm(b_not(self.ev(st, e["c"][0], depth + 1)), it)
            return UNK
        if k == "asg":
            if e["op"] == "=":
                return resize(self.ev(st, e["c"][1], depth + 1), f.exprs[e["c"][1]].get("it"), it)
            a = self.ev(st, e["c"][0], depth + 1)
            b = self.ev(st, e["c"][1], depth + 1)
            cit = e.get("cit") or it
            a2 = resize(a, f.exprs[e["c"][0]].get("it"), cit)
            b2 = resize(b, f.exprs[e["c"][1]].get("it"), cit)
            r = self._binop(e["op"][:-1], a2, b2, {"it": cit, "c": e["c"]}, st)
            return resize(self._norm(r, cit), cit, it)
        if k == "cond":
            return join_bits(self.ev(st, e["c"][1], depth + 1), self.ev(st, e["c"][2], depth + 1))
        if k in ("stmtexpr", "opaque"):
            if e.get("c"):
                return self.ev(st, e["c"][0], depth + 1)
            return UNK
        if k == "call":
            n = e.get("callee")
            if n == "__builtin_expect":
                return self.ev(st, e["c"][0], depth + 1)
            return UNK
        return UNK

    def _norm(self, b, it):
        if not it:
            return b
        return resize(b, [W, it[1]], it)

    def _binop(self, op, a, b, e, st):
        f = self.f
        if op == "&":
            return b_and(a, b)
        if op == "|":
            return b_or(a, b)
        if op == "^":
            return b_xor(a, b)
        if op == "+":
            return b_add(a, b)
        if op in ("<<", ">>"):
            if not all(x in (0, 1) for x in b):
                return UNK
            n = sum(x << j for j, x in enumerate(b[:8]))
            if any(b[8:32]):
                return UNK
            if op == "<<":
                return b_shl(a, n)
            lt = f.exprs[e["c"][0]].get("it") if "c" in e else e.get("it")
            it = e.get("it") or lt or [32, 1]
            return b_shr(a, n, it[0], bool(it[1]))
        if op == "-":
            if all(x == 0 for x in b):
                return a
            return UNK
        if op == "*":
            # multiplication by a power of two constant
            if all(x in (0, 1) for x in b):
                vb = sum(x << j for j, x in enumerate(b))
                if vb and vb & (vb - 1) == 0:
                    return b_shl(a, vb.bit_length() - 1)
            return UNK
        return UNK

    def _masked_by_range(self, bits_, node):
        """The stored bits of a local with those the interval engine proves zero at this read replaced by 0 (a range
        guard on a local copy: `pil = pid->pil; if (pil >> 20) return FALSE; ... pil >> 14`)."""
        if self.an is None or node is None:
            return bits_
        st = self.an.state_before_expr(node) if hasattr(self.an, "state_before_expr") else None
        if st is None:
            return bits_
        iv = self.an.eval(st, node)
        if iv[0] is None or iv[0] < 0 or iv[1] is None:
            return bits_
        hi = iv[1]
        if all(not (hi < (1 << j)) or b == 0 for j, b in enumerate(bits_)):
            return bits_
        return tuple(0 if hi < (1 << j) else b for j, b in enumerate(bits_))

    def _input(self, path, it, node):
        """Bits of an input, with the bits the interval engine proves zero
        at this point replaced by 0."""
        width = it[0]
        hi = None
        if self.an is not None:
            st = self.an.state_before(node) if node is not None else None
            if st is not None:
                iv = self.an.eval(st, node)
                if iv[0] is not None and iv[0] >= 0 and iv[1] is not None:
                    hi = iv[1]
        out = []
        for j in range(W):
            if j >= width:
                out.append(0 if not it[1] else None)
            elif hi is not None and hi < (1 << j):
                out.append(0)
            else:
                out.append(("in", path, j))
        if it[1]:
            # signed input: the sign extension mirrors the top bit unless proven 0
            top = out[width - 1]
            for j in range(width, W):
                out[j] = 0 if top == 0 else None
        return tuple(out)

    def load(self, st, p, it, node):
        if ("M", p) in st:
            return resize(st[("M", p)], it, it)
        # a cleared aggregate (memset of the whole object) yields zeros
        for key, v in st.items():
            if key[0] == "Z" and (p.startswith(key[1] + "->") or p.startswith(key[1] + ".") or
                                  p.startswith("(*" + key[1] + ")") or p == "*" + key[1]):
                return ZERO
        if self.outer is not None:
            oe, ost = self.outer
            return oe.load(ost, p, it, None)
        return self._input(p, it, node)

    # ---- transfer -------------------------------------------------------------
    def xfer_elem(self, st, i):
        f = self.f
        e = f.exprs[i]
        k = e["k"]
        if k == "asg" or (k == "un" and e["op"] in ("++", "--")) or k == "decl":
            for lhs, var, op, rhs in flow.stores(f, i):
                if var is not None:
                    if var.get("it") and rhs is not None:
                        v = resize(self.ev(st, rhs), f.exprs[rhs].get("it"), var["it"])
                        st = dict(st)
                        st[("L", var["name"])] = v
                    continue
                l = ex.skip(f, lhs)
                le = f.exprs[l]
                if k == "asg":
                    v = self.ev(st, i)
                else:
                    v = UNK
                if le["k"] == "ref" and le.get("dk") in ("local", "param"):
                    st = dict(st)
                    st[("L", le["name"])] = v
                    continue
                p = self.cpath(l)
                st = dict(st)
                if p is None:
                    # store through an unknown index / pointer: forget the object
                    r = ex.root(f, l)
                    base = f.exprs[r]["name"] if r is not None else None
                    for key in list(st):
                        if key[0] == "M" and (base is None or key[1].startswith(base)):
                            st[key] = UNK
                    st[("K", base or "?")] = True
                else:
                    st[("M", p)] = v
            return st
        if k == "call":
            return self.call(st, i, e)
        return st

    def call(self, st, i, e):
        f = self.f
        n = e.get("callee")
        args = e.get("c", [])
        if e.get("noret"):
            return None
        if n in ("memset", "__builtin_memset", "__builtin___memset_chk"):
            # CLEAR (*obj): the whole object becomes zero
            a0 = ex.skip(f, args[0])
            a0e = f.exprs[a0]
            while a0e["k"] == "cast":
                a0 = ex.skip(f, a0e["c"][0])
                a0e = f.exprs[a0]
            tgt = None
            if a0e["k"] == "un" and a0e["op"] == "&":
                tgt = self.cpath(a0e["c"][0])
            elif a0e["k"] == "ref":
                tgt = self.cpath(a0)
                tgt = ("*" + tgt) if tgt else None
            val = ex.const(f, args[1])
            size = ex.const(f, args[2])
            psz = a0e.get("psz") or (f.exprs[ex.skip(f, a0e["c"][0])].get("esz") if a0e.get("c") else None)
            if tgt and val == 0 and size is not None:
                base = tgt[1:] if tgt.startswith("*") else tgt
                st = dict(st)
                for key in list(st):
                    if key[0] == "M" and (key[1].startswith(base + "->") or key[1].startswith(base + ".")):
                        del st[key]
                st[("Z", base)] = size
                return st
            return self._havoc(st, args)
        if not n:
            return self._havoc(st, args)
        t = self.ctx.prog.func_for(f, n)
        if t is None:
            if n in summaries.EXTERN_PURE:
                return st
            return self._havoc(st, args)
        # does the callee receive one of our tracked objects?
        ptr_args = [a for a in args if f.exprs[ex.skip(f, a)].get("t", "").endswith("*")]
        if not ptr_args:
            return st
        if self.depth >= 3:
            return self._havoc(st, args)
        bind = {}
        for k, a in enumerate(args):
            if k >= len(t.params):
                break
            pn = t.params[k]["name"]
            aj = ex.skip(f, a)
            ae = f.exprs[aj]
            while ae["k"] == "cast" and ae["ck"] in ("BitCast", "NoOp"):
                aj = ex.skip(f, ae["c"][0])
                ae = f.exprs[aj]
            if t.params[k].get("it"):
                bind[pn] = ("bits", resize(self.ev(st, a), f.exprs[a].get("it"), t.params[k]["it"]))
            elif ae["k"] == "un" and ae["op"] == "&":
                cp = self.cpath(ae["c"][0])
                if cp is None:
                    return self._havoc(st, args)
                bind[pn] = ("addr", cp)
            elif ae["k"] == "ref":
                cp = self.cpath(aj)
                if cp is None:
                    return self._havoc(st, args)
                bind[pn] = ("ptr", cp)
            else:
                return self._havoc(st, args)
        sub = Eval(self.ctx, t, bind, outer=(self, st), prune=self.prune, depth=self.depth + 1)
        res = sub.run_true()
        if res is None:
            return self._havoc(st, args)
        st = dict(st)
        for key, v in res.items():
            if key[0] in ("M", "Z", "K"):
                st[key] = v
        # bounds the callee's guards prove for its scalar parameters hold for the
        # caller's inputs they are exact copies of - provided the caller leaves
        # on the callee's failure
        from . import typestate
        if typestate.call_true_on_true_exits(self.ctx, f, i):
            cb = _true_intervals(self.ctx, t, sub, res)
            for pn, b in bind.items():
                if b[0] != "bits" or pn not in cb or cb[pn][1] is None:
                    continue
                src = _identity_of(b[1])
                if src is not None:
                    self.bounds[src] = min(self.bounds.get(src, cb[pn][1]), cb[pn][1])
            for src, hi in sub.bounds.items():
                self.bounds[src] = min(self.bounds.get(src, hi), hi)
        for p, js in sub.reads.items():
            self.reads.setdefault(p, set()).update(js)
        return st

    def _havoc(self, st, args):
        f = self.f
        st = dict(st)
        for a in args:
            aj = ex.skip(f, a)
            if f.exprs[aj].get("t", "").endswith("*"):
                r = ex.root(f, aj)
                base = f.exprs[r]["name"] if r is not None else None
                for key in list(st):
                    if key[0] == "M" and (base is None or base in key[1]):
                        st[key] = UNK
                st[("K", base or "?")] = True
        return st

    def xfer_edge(self, st, bid, lab, succ):
        t = self.f.blocks[bid].term
        if lab in ("T", "F") and t and "cond" in t:
            pr = self.prune(self.f, t["cond"])
            if pr is not None and pr == lab:
                return None
        return st

    @staticmethod
    def join(a, b):
        if a is b:
            return a
        out = {}
        for k in set(a) | set(b):
            x, y = a.get(k), b.get(k)
            if k[0] in ("Z", "K"):
                if x is not None and y is not None:
                    out[k] = x
                elif k[0] == "K":
                    out[k] = True
                continue
            if x is None or y is None:
                out[k] = UNK if k[0] == "M" else UNK
            else:
                out[k] = join_bits(x, y)
        return out

    def run(self):
        self.IN = flow.forward(self.f, {}, self.xfer_elem, self.xfer_edge, self.join, max_visits=100)
        return self

    def run_true(self):
        """Joined state over the exits returning a non-zero constant (or all
        exits of a void function)."""
        self.run()
        f = self.f
        res = None
        for bid in f.rpo():
            b = f.blocks[bid]
            if f.exit not in b.succs or b.noret:
                continue
            ret = [i for i in b.elems if f.exprs[i]["k"] == "ret"]
            if ret and f.exprs[ret[-1]].get("c"):
                v = ex.const(f, f.exprs[ret[-1]]["c"][0])
                if v == 0:
                    continue
            st = flow.replay_block(f, self.IN, bid, self.xfer_elem)
            if st is None:
                continue
            res = st if res is None else self.join(res, st)
        return res


def _identity_of(bits_):
    """Input path X when the value is an exact copy of input X, else None."""
    src = None
    for j, bb in enumerate(bits_):
        if isinstance(bb, tuple):
            if bb[2] != j or (src is not None and bb[1] != src):
                return None
            src = bb[1]
        elif bb != 0:
            return None
    return src


def _replace_root(p, name, base):
    import re
    return re.sub(r"(?<![A-Za-z0-9_>.])%s(?![A-Za-z0-9_])" % re.escape(name), base, p, count=1)


# --------------------------------------------------------------------------
# the VPS / DVB PDC comparison

def _prune_dc3(f, cond):
    """The TR 101 231 special case `0x0DC3 == cni_value` (documented
    exception): its TRUE edge is left out of the comparison."""
    def find(n, neg, depth=0):
        n = ex.skip(f, n)
        e = f.exprs[n]
        if depth > 12:
            return None
        if e["k"] == "bin" and e["op"] in ("==", "!=") and (ex.const(f, e["c"][0]) == 0x0DC3 or ex.const(f, e["c"][1]) == 0x0DC3):
            special_when_true = (e["op"] == "==") != neg
            return "T" if special_when_true else "F"
        if e["k"] == "un" and e["op"] == "!":
            return find(e["c"][0], not neg, depth + 1)
        if e["k"] == "bin" and e["op"] in ("==", "!=") and (ex.const(f, e["c"][0]) == 0 or ex.const(f, e["c"][1]) == 0):
            # `(x == 0xDC3) != 0`, what __builtin_expect (!!(c), 1) leaves behind
            other = e["c"][1] if ex.const(f, e["c"][0]) == 0 else e["c"][0]
            return find(other, neg != (e["op"] == "=="), depth + 1)
        if e["k"] in ("cast", "paren") and e.get("c"):
            return find(e["c"][0], neg, depth + 1)
        if e["k"] == "call" and e.get("callee") == "__builtin_expect" and e.get("c"):
            args = [c for c in e["c"] if c is not None and c >= 0]
            return find(args[-2] if len(args) >= 2 else args[0], neg, depth + 1)
        return None
    return find(cond, False)


def _fmt(b):
    if b in (0, 1):
        return str(b)
    if b is None:
        return "?"
    return "%s.%d" % (b[1], b[2])


def check_vps(ctx, run):
    P = ctx.prog
    unit = "src/vps.c"
    pairs = [
        # encoder, buffer length, {encoder field path: decoder output path}, decoder
        ("vbi_encode_vps_cni", 13, {"cni": "*cni"}, "vbi_decode_vps_cni"),
        ("vbi_encode_vps_pdc", 13, {"pid->cni": "pid->cni", "pid->pil": "pid->pil",
                                    "pid->pcs_audio": "pid->pcs_audio", "pid->pty": "pid->pty"}, "vbi_decode_vps_pdc"),
        ("vbi_encode_dvb_pdc_descriptor", 5, {"pid->pil": "pid->pil"}, "vbi_decode_dvb_pdc_descriptor"),
    ]
    n_bits = 0
    for enc_name, blen, fields, dec_name in pairs:
        enc = P.need(enc_name, unit)
        dec = P.need(dec_name, unit)
        run.touch(enc)
        run.touch(dec)
        ee = Eval(ctx, enc, prune=_prune_dc3)
        est = ee.run_true()
        de = Eval(ctx, dec, prune=_prune_dc3)
        dst = de.run_true()
        if est is None or dst is None:
            raise AnalysisBroken("RF-BITS: %s/%s has no TRUE exit" % (enc_name, dec_name))
        if any(k[0] == "K" for k in est):
            run.violation("RF-BITS", "RF-BITS:%s:opaque-store" % enc_name,
                          "%s stores through a non-constant index or passes the buffer to an unknown writer; the write "
                          "footprint cannot be bounded" % enc_name, "%s:%d" % (enc.file, enc.line))
            continue
        # ---- encoder footprint ----
        placed = {}          # (field, bit) -> [(byte, bit)]
        ok_enc = True
        # an encoder that keeps some old bit of a byte it stores updates in place
        inplace = any(isinstance(b, tuple) and b[1] == "buffer[%d]" % k
                      for k in range(blen) for b in est.get(("M", "buffer[%d]" % k), ())[:8])
        for k in range(blen):
            key = ("M", "buffer[%d]" % k)
            if key not in est:
                continue
            bits8 = est[key][:8]
            for j, b in enumerate(bits8):
                ikey = "RF-BITS:%s:buffer[%d].%d" % (enc_name, k, j)
                n_bits += 1
                if b is None:
                    ok_enc = False
                    run.violation("RF-BITS", ikey, "bit %d of buffer[%d] after %s is not a pure copy of an old buffer bit or "
                                  "a field bit (overlapping fields, arithmetic carry or an unmasked value)" % (j, k, enc_name),
                                  "%s:%d" % (enc.file, enc.line))
                elif b in (0, 1) and inplace:
                    ok_enc = False
                    run.violation("RF-BITS", ikey, "bit %d of buffer[%d] is overwritten with the constant %d by %s, which updates "
                                  "the buffer in place (other bits are preserved) and encodes no field there: encoding changes "
                                  "bits outside the fields it writes" % (j, k, b, enc_name), "%s:%d" % (enc.file, enc.line),
                                  witness={"byte": k, "bit": j, "constant": b})
                elif isinstance(b, tuple):
                    src, sj = b[1], b[2]
                    if src.startswith("buffer["):
                        if src != "buffer[%d]" % k or sj != j:
                            ok_enc = False
                            run.violation("RF-BITS", ikey, "bit %d of buffer[%d] is overwritten with %s (a different buffer "
                                          "bit): encoding changes bits outside the fields it writes" % (j, k, _fmt(b)),
                                          "%s:%d" % (enc.file, enc.line))
                    else:
                        placed.setdefault((src, sj), []).append((k, j))
        # every field bit not proven zero by the guards must be stored
        fst = _true_intervals(ctx, enc, ee, est)
        for fld in fields:
            width, hi = fst.get(fld, (32, None))
            for j in range(width):
                if hi is not None and hi < (1 << j):
                    continue
                ikey = "RF-BITS:%s:%s.%d:stored" % (enc_name, fld, j)
                n_bits += 1
                if (fld, j) in placed:
                    run.holds("RF-BITS", ikey, "bit %d of %s -> %s" % (j, fld, ", ".join("buffer[%d].%d" % p for p in placed[(fld, j)])),
                              "%s:%d" % (enc.file, enc.line))
                else:
                    ok_enc = False
                    run.violation("RF-BITS", ikey, "bit %d of %s may be set for an accepted value (the range guard allows up to %s) "
                                  "but is stored nowhere: the encoder truncates instead of refusing, decode(encode(x)) != x"
                                  % (j, fld, "0x%X" % hi if hi is not None else "the full type range"),
                                  "%s:%d" % (enc.file, enc.line),
                                  witness={"field": fld, "bit": j, "guard_upper_bound": hi})
        # ---- the range guard refuses nothing the stored bits can represent ----
        for fld in fields:
            width, hi = fst.get(fld, (32, None))
            stored = sorted(j for (f2, j) in placed if f2 == fld)
            if hi is None or not stored or stored != list(range(len(stored))):
                continue
            cap = (1 << len(stored)) - 1
            ikey = "RF-BITS:%s:%s:guard-admits-all-storable" % (enc_name, fld)
            n_bits += 1
            if hi >= cap:
                run.holds("RF-BITS", ikey, "%d bits of %s are stored and the range guard admits every value up to 0x%X"
                          % (len(stored), fld, cap), "%s:%d" % (enc.file, enc.line))
            else:
                ok_enc = False
                run.violation("RF-BITS", ikey, "%s stores %d bits of %s (values up to 0x%X) but its range guard admits only values up to "
                              "0x%X: an in-range value is refused, the codec is not an inverse over the whole field"
                              % (enc_name, len(stored), fld, cap, hi), "%s:%d" % (enc.file, enc.line),
                              witness={"field": fld, "stored_bits": len(stored), "guard_upper_bound": hi})
        # ---- decoder reads each bit back from where the encoder put it ----
        for (fld, j), places in sorted(placed.items()):
            if fld not in fields:
                continue
            dpath = fields[fld]
            dv = dst.get(("M", dpath))
            ikey = "RF-BITS:%s:%s.%d" % (dec_name, dpath, j)
            n_bits += 1
            if dv is None:
                run.violation("RF-BITS", ikey, "%s never stores %s" % (dec_name, dpath), "%s:%d" % (dec.file, dec.line))
                continue
            b = dv[j]
            want = [("in", "buffer[%d]" % k, jj) for k, jj in places]
            if b in want:
                run.holds("RF-BITS", ikey, "bit %d of %s <- buffer[%d].%d, where %s stores bit %d of %s"
                          % (j, dpath, b[1] and int(b[1][7:-1]), b[2], enc_name, j, fld), "%s:%d" % (dec.file, dec.line))
            elif b is None and getattr(dec, "inlined", None):
                # the value went through a helper that was split off after the tables were confirmed (several
                # returns merge in a result temporary): provenance lost, nothing contradicts the encoder
                run.undecided("RF-BITS", ikey, "bit %d of %s: provenance lost in code inlined from %s(); not decided"
                              % (j, dpath, ", ".join(dec.inlined)), "%s:%d" % (dec.file, dec.line))
            else:
                run.violation("RF-BITS", ikey, "%s takes bit %d of %s from %s but %s stores that field bit at %s: the codecs "
                              "are not inverses" % (dec_name, j, dpath, _fmt(b), enc_name,
                                                    ", ".join("buffer[%d].%d" % p for p in places)),
                              "%s:%d" % (dec.file, dec.line),
                              witness={"decoder_bit": _fmt(b), "encoder_places": places})
        # decoder field bits that the encoder never writes must be constant zero
        for fld, dpath in fields.items():
            dv = dst.get(("M", dpath))
            if dv is None:
                continue
            width = fst.get(fld, (32, None))[0]
            for j in range(width):
                if (fld, j) in placed:
                    continue
                b = dv[j]
                ikey = "RF-BITS:%s:%s.%d:zero" % (dec_name, dpath, j)
                n_bits += 1
                if b == 0:
                    run.holds("RF-BITS", ikey, "bit %d of %s is constant 0 (the encoder stores no such bit)" % (j, dpath),
                              "%s:%d" % (dec.file, dec.line), nontrivial=False)
                else:
                    run.violation("RF-BITS", ikey, "bit %d of %s is %s in %s although %s never encodes that bit: "
                                  "re-encoding a decoded packet cannot reproduce it" % (j, dpath, _fmt(b), dec_name, enc_name),
                                  "%s:%d" % (dec.file, dec.line))
        # constant bytes the encoder writes must be the ones the decoder insists on
        dan = ctx.analysis(dec, False)
        for k in range(blen):
            key = ("M", "buffer[%d]" % k)
            if key not in est:
                continue
            bits8 = est[key][:8]
            if all(b in (0, 1) for b in bits8):
                val = sum(b << j for j, b in enumerate(bits8))
                want = _decoder_requires(dec, dan, "buffer[%d]" % k)
                ikey = "RF-TAB:%s:buffer[%d]" % (dec_name, k)
                n_bits += 1
                if want is None:
                    run.note("%s does not test the constant byte buffer[%d] = 0x%02X written by %s" % (dec_name, k, val, enc_name))
                elif want == (val, val):
                    run.holds("RF-TAB", ikey, "%s accepts only buffer[%d] == 0x%02X, the constant %s writes" % (dec_name, k, val, enc_name),
                              "%s:%d" % (dec.file, dec.line))
                else:
                    run.violation("RF-TAB", ikey, "%s writes buffer[%d] = 0x%02X but %s accepts only %s" % (enc_name, k, val, dec_name, want),
                                  "%s:%d" % (dec.file, dec.line))
    run.floor("RF-BITS bit obligations over the three encoder/decoder pairs", n_bits, 100)


def _true_intervals(ctx, f, ev, est):
    """field path -> (width, proven upper bound or None) at the TRUE exits.
    A bound proven for a local copy (`pil = pid->pil; if (pil > 0xFFFFF) ...`)
    counts for the field it is an exact copy of."""
    an = ctx.analysis(f, False)
    res = {}
    for bid in f.rpo():
        b = f.blocks[bid]
        if f.exit not in b.succs or b.noret:
            continue
        ret = [i for i in b.elems if f.exprs[i]["k"] == "ret"]
        if not ret or not f.exprs[ret[-1]].get("c") or ex.const(f, f.exprs[ret[-1]]["c"][0]) == 0:
            continue
        ast = an.state_at_end(bid)
        if ast is None:
            continue
        bst = flow.replay_block(f, ev.IN, bid, ev.xfer_elem)
        cur = {}
        # direct bounds on parameters / fields
        for key, iv in ast.items():
            if key[0] == "iv" and iv[0] is not None and iv[0] >= 0 and iv[1] is not None:
                cur[key[1]] = iv[1]
        # bounds on exact local copies
        for key, bits_ in (bst or {}).items():
            if key[0] != "L":
                continue
            src = None
            okc = True
            for j, bb in enumerate(bits_[:32]):
                if isinstance(bb, tuple):
                    if bb[2] != j or (src is not None and bb[1] != src):
                        okc = False
                        break
                    src = bb[1]
                elif bb != 0:
                    okc = False
                    break
            if okc and src is not None and _identity_of(bits_) == src:
                iv = ast.get(("iv", key[1]))
                if iv and iv[0] is not None and iv[0] >= 0 and iv[1] is not None:
                    cur[src] = min(cur.get(src, iv[1]), iv[1])
        for p in set(cur) | set(res):
            if p in res and p not in cur:
                res[p] = None if res[p] is None else None
            elif p in res:
                res[p] = None if res[p] is None else max(res[p], cur[p])
            else:
                res[p] = cur[p]
    out = {}
    for p, hi in res.items():
        out[p] = (32, hi)
    for p, hi in ev.bounds.items():
        o = out.get(p, (32, None))
        out[p] = (o[0], hi if o[1] is None else min(o[1], hi))
    # widths from parameter / field types
    for prm in f.params:
        if prm.get("it") and prm["name"] in out:
            out[prm["name"]] = (prm["it"][0], out[prm["name"]][1])
    return out


def _decoder_requires(f, an, path):
    """Interval of `path` at the TRUE exits of the decoder (from its guards)."""
    res = None
    for bid in f.rpo():
        b = f.blocks[bid]
        if f.exit not in b.succs or b.noret:
            continue
        ret = [i for i in b.elems if f.exprs[i]["k"] == "ret"]
        if not ret or not f.exprs[ret[-1]].get("c") or ex.const(f, f.exprs[ret[-1]]["c"][0]) == 0:
            continue
        st = an.state_at_end(bid)
        if st is None:
            continue
        iv = st.get(("iv", path))
        if iv is None:
            return None
        res = iv if res is None else absint.hull(res, iv)
    return res
