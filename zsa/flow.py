"""CFG utilities: events, dominance over the edge-split graph, a generic
forward dataflow engine, reachability."""
from . import ex

EVENT_KINDS = ("call", "asg", "decl", "ret")


def is_event(f, i):
    e = f.exprs[i]
    k = e["k"]
    if k in EVENT_KINDS:
        return True
    if k == "un" and e["op"] in ("++", "--"):
        return True
    return False


def events(f, bid):
    """Ordered event node ids of a block (calls, stores, decls, returns)."""
    c = f._cache.setdefault("events", {})
    if bid not in c:
        c[bid] = [i for i in f.blocks[bid].elems if is_event(f, i)]
    return c[bid]


def all_events(f):
    for bid in f.rpo():
        for i in events(f, bid):
            yield bid, i


def stores(f, i):
    """For an event node return [(lhs_id or None, var_dict or None, op, rhs_id)]
    for each location it stores to directly."""
    e = f.exprs[i]
    k = e["k"]
    if k == "asg":
        return [(e["c"][0], None, e["op"], e["c"][1])]
    if k == "un" and e["op"] in ("++", "--"):
        return [(e["c"][0], None, e["op"], None)]
    if k == "decl":
        return [(None, v, "=", v.get("init")) for v in e.get("vars", []) if "init" in v]
    return []


def elem_pos(f):
    """Map expr id -> (block id, index in block.elems)."""
    c = f._cache.get("elem_pos")
    if c is None:
        c = {}
        for bid, b in f.blocks.items():
            for n, i in enumerate(b.elems):
                c.setdefault(i, (bid, n))
        f._cache["elem_pos"] = c
    return c


def block_of(f, i):
    """Block containing expression i as an element (searching up is not
    needed: with all sub-expressions added every evaluated node is an
    element)."""
    p = elem_pos(f).get(i)
    return p[0] if p else None


# --------------------------------------------------------------------------
# dominance on the edge-split graph

def _split_graph(f):
    c = f._cache.get("split")
    if c is not None:
        return c
    succ = {}
    for bid in f.blocks:
        es = f.edges(bid)
        n = ("b", bid)
        succ.setdefault(n, [])
        if len(es) > 1:
            for k, (s, lab) in enumerate(es):
                en = ("e", bid, k)
                succ[n].append(en)
                succ[en] = [("b", s)]
        else:
            for s, lab in es:
                succ[n].append(("b", s))
    f._cache["split"] = succ
    return succ


def _dominators(succ, entry):
    # Cooper, Harvey, Kennedy
    order = []
    seen = {entry}
    stack = [(entry, iter(succ.get(entry, [])))]
    while stack:
        n, it = stack[-1]
        adv = False
        for s in it:
            if s not in seen:
                seen.add(s)
                stack.append((s, iter(succ.get(s, []))))
                adv = True
                break
        if not adv:
            order.append(n)
            stack.pop()
    order.reverse()
    idx = {n: k for k, n in enumerate(order)}
    preds = {n: [] for n in order}
    for n in order:
        for s in succ.get(n, []):
            if s in preds:
                preds[s].append(n)
    idom = {entry: entry}
    changed = True
    while changed:
        changed = False
        for n in order[1:]:
            new = None
            for p in preds[n]:
                if p in idom:
                    if new is None:
                        new = p
                    else:
                        a, b = p, new
                        while a != b:
                            while idx[a] > idx[b]:
                                a = idom[a]
                            while idx[b] > idx[a]:
                                b = idom[b]
                        new = a
            if new is not None and idom.get(n) != new:
                idom[n] = new
                changed = True
    return idom


def idom(f):
    c = f._cache.get("idom")
    if c is None:
        c = _dominators(_split_graph(f), ("b", f.entry))
        f._cache["idom"] = c
    return c


def dominating_edges(f, bid):
    """[(src_block, label, cond_id)] for every CFG edge that dominates block
    bid (every path from entry to bid takes that edge), innermost first."""
    d = idom(f)
    n = ("b", bid)
    out = []
    if n not in d:
        return out
    while d[n] != n:
        n = d[n]
        if n[0] == "e":
            src, k = n[1], n[2]
            s, lab = f.edges(src)[k]
            t = f.blocks[src].term or {}
            out.append((src, lab, t.get("cond")))
    return out


def dominates(f, a, b):
    """Block a dominates block b."""
    d = idom(f)
    n = ("b", b)
    t = ("b", a)
    if n not in d:
        return False
    while True:
        if n == t:
            return True
        if d[n] == n:
            return False
        n = d[n]


# --------------------------------------------------------------------------
# reachability

def reach_from(f, bid, avoid=()):
    """Blocks reachable from bid (inclusive) without entering `avoid`."""
    seen = set()
    st = [bid]
    avoid = set(avoid)
    while st:
        n = st.pop()
        if n in seen or n in avoid:
            continue
        seen.add(n)
        for s, _ in f.edges(n):
            st.append(s)
    return seen


def return_blocks(f):
    """Blocks whose successor is the exit block (function returns there)."""
    return [b.id for b in f.blocks.values() if f.exit in b.succs and not b.noret]


# --------------------------------------------------------------------------
# generic forward dataflow

def forward(f, init, xfer_elem, xfer_edge, join, widen=None, widen_after=3, max_visits=60):
    """Run a forward analysis.  States are treated as immutable values;
    None means unreachable.  Returns dict block id -> state at block entry.

    xfer_elem(state, eid) -> state
    xfer_edge(state, bid, label, succ) -> state or None
    join(a, b) -> state ; widen(old, new) -> state (optional)
    """
    IN = {f.entry: init}
    order = f.rpo()
    pos = {b: k for k, b in enumerate(order)}
    visits = {}
    work = set([f.entry])
    while work:
        bid = min(work, key=lambda b: pos.get(b, 1 << 30))
        work.discard(bid)
        s = IN.get(bid)
        if s is None:
            continue
        visits[bid] = visits.get(bid, 0) + 1
        if visits[bid] > max_visits:
            raise RuntimeError("dataflow does not converge in %s block %d" % (f.name, bid))
        for eid in f.blocks[bid].elems:
            s = xfer_elem(s, eid)
            if s is None:
                break
        if s is None:
            continue
        for succ, lab in f.edges(bid):
            s2 = xfer_edge(s, bid, lab, succ)
            if s2 is None:
                continue
            old = IN.get(succ)
            if old is None:
                new = s2
            else:
                new = join(old, s2)
                if widen is not None and visits.get(succ, 0) >= widen_after and pos.get(succ, 0) <= pos.get(bid, 0):
                    new = widen(old, new, succ)
            if old is None or new != old:
                IN[succ] = new
                work.add(succ)
    return IN


def replay_block(f, IN, bid, xfer_elem, upto=None):
    """State just before element `upto` (an expr id) of block bid, or at the
    end of the block when upto is None."""
    s = IN.get(bid)
    if s is None:
        return None
    for eid in f.blocks[bid].elems:
        if eid == upto:
            return s
        s = xfer_elem(s, eid)
        if s is None:
            return None
    return s
