"""Positive examples: tiny C files compiled with the real flags on which a
rule MUST report.  A rule that stays silent on its positive example is a
broken analysis."""
import os

from . import context, prog

POS = os.path.join(prog.VERIF, "selftest", "pos")


def load_positive(name):
    src = os.path.join(POS, name)
    if not os.path.exists(src):
        raise prog.AnalysisBroken("positive example missing: " + src)
    d = prog._extract_one("src/" + name, prog._headers_digest(), (), src_override=src, root=POS)
    return prog.Program([d])


def Ctx(program):
    return context.Context(program)


# --------------------------------------------------------------------------
# mutation self-test (thorough tier): the confirmed seeded changes of a
# property are applied, one at a time, to a scratch copy of /repo's *current*
# sources and the property's quick check must report a violation there - and
# must stay silent on the unmodified copy.

import glob
import json
import shutil
import subprocess
import sys


def mutation(run, pid):
    from . import compdb
    verif = prog.VERIF
    seeds = sorted(glob.glob(os.path.join(verif, "seeded", pid + "_*", "patch.diff")))
    scratch = os.path.join(verif, ".scratch", "%s-%d" % (pid, os.getpid()))
    res = {"mutants": 0, "detected": 0, "not_applicable": 0, "missed": [], "baseline_exit": None, "details": []}
    if os.environ.get("ZSA_EVIDENCE_DIR"):
        return res              # we are a self-test child ourselves
    try:
        shutil.rmtree(scratch, ignore_errors=True)
        os.makedirs(scratch)
        ign = shutil.ignore_patterns("*.o", "*.lo", "*.la", "*.a", "*.so*", ".libs", ".deps", "*.Po", "*.Plo")
        for d in ("src", "daemon"):
            shutil.copytree(os.path.join(compdb.REPO, d), os.path.join(scratch, d), ignore=ign)
        for n in ("config.h", "config.status", "site_def.h"):
            if os.path.exists(os.path.join(compdb.REPO, n)):
                shutil.copy2(os.path.join(compdb.REPO, n), os.path.join(scratch, n))
        env = dict(os.environ, ZVBI_REPO=scratch, ZSA_EVIDENCE_DIR=os.path.join(scratch, "_evidence"), VERIF_TIER="quick")

        def check():
            r = subprocess.run([sys.executable, os.path.join(verif, "check"), pid, "--tier", "quick"], env=env,
                               stdout=subprocess.PIPE, stderr=subprocess.STDOUT, timeout=900)
            out = r.stdout.decode(errors="replace")
            first = ""
            lines = out.split("\n")
            for k, l in enumerate(lines):
                if l.startswith("VIOLATION") and k + 1 < len(lines):
                    first = lines[k + 1].strip()[:160]
                    break
            return r.returncode, first

        rc, _ = check()
        res["baseline_exit"] = rc
        for pd in seeds:
            sid = os.path.basename(os.path.dirname(pd))
            ap = subprocess.run(["patch", "-p1", "-s", "-f", "-d", scratch, "-i", pd], stdout=subprocess.PIPE, stderr=subprocess.STDOUT)
            if ap.returncode != 0:
                subprocess.run(["patch", "-p1", "-s", "-f", "-R", "-d", scratch, "-i", pd], stdout=subprocess.PIPE, stderr=subprocess.STDOUT)
                res["not_applicable"] += 1
                res["details"].append({"seed": sid, "result": "patch does not apply to the current tree"})
                # restore the files the failed patch may have touched
                for line in open(pd, errors="replace"):
                    if line.startswith("+++ b/"):
                        rel = line[6:].strip()
                        if os.path.exists(os.path.join(compdb.REPO, rel)):
                            shutil.copy2(os.path.join(compdb.REPO, rel), os.path.join(scratch, rel))
                continue
            res["mutants"] += 1
            rc2, first = check()
            if rc2 == 1:
                res["detected"] += 1
                res["details"].append({"seed": sid, "result": "detected", "first_report": first})
            else:
                res["missed"].append(sid)
                res["details"].append({"seed": sid, "result": "MISSED (exit %d)" % rc2})
            subprocess.run(["patch", "-p1", "-s", "-f", "-R", "-d", scratch, "-i", pd], stdout=subprocess.PIPE, stderr=subprocess.STDOUT)
    finally:
        shutil.rmtree(scratch, ignore_errors=True)
    return res
