"""Positive examples: tiny C files compiled with the real flags on which a
rule MUST report.  A rule that stays silent on its positive example is a
broken analysis."""
import os

from . import context, prog

POS = os.path.join(prog.VERIF, "selftest", "pos")


def load_positive(name):
    src = os.path.join(POS, name)
    if not os.path.exists(src):
        raise prog.AnalysisBroken("positive example missing: " + src)
    d = prog._extract_one("src/" + name, prog._headers_digest(), (), src_override=src, root=POS)
    return prog.Program([d])


def Ctx(program):
    return context.Context(program)
