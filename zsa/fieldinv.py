"""Declared field invariants, verified inductively.

An entry (record, field) -> [lo, hi] claims: every object of that record type
holds a value in [lo, hi] in that field (array fields: in every element)
whenever library code reads it.  The claim is *checked*, not assumed:

  * every direct store to the field anywhere in the program (=, op=, ++, --)
    stores a value whose interval - computed by the interval analysis of the
    storing function, in which loads of *declared* fields are themselves
    assumed to satisfy their entries (assume/guarantee, sound by induction
    over the execution) - lies inside [lo, hi];
  * every bulk writer (memset / memcpy / memmove / struct assignment) whose
    destination is, or contains, the record either fills it with a byte whose
    replication is inside [lo, hi] (memset), or copies from an object of the
    same type (which satisfies the invariant by induction);
  * the address of the field is not handed out (`&x->f`, or the array decaying
    into a call argument) except to the bulk writers above, so no writer is
    invisible.

Objects start out zero-filled (calloc / memset 0 / static storage) or are
filled by one of the checked writers before use; 0 must therefore lie in
[lo, hi] unless the entry says `init_written` (then RF-INIT-style reasoning
is the caller's business and is stated in the evidence).
"""
import re

from . import absint, ex, flow, summaries

BULK = ("memset", "memcpy", "memmove", "__builtin_memset", "__builtin_memcpy", "__builtin_memmove")


def _strip(f, i):
    j = ex.skip(f, i)
    e = f.exprs[j]
    while e["k"] == "cast":
        j = ex.skip(f, e["c"][0])
        e = f.exprs[j]
    return j


_REC_RE = re.compile(r"(?:struct|union|enum)?\s*([A-Za-z_][A-Za-z_0-9]*)")
_ANON_RE = re.compile(r"\((?:unnamed|anonymous)[^)]* at ([^:)]+):(\d+):\d+\)")


def rec_of_type(prog, t):
    """Record name denoted by a type string (value type, array of, or the
    pointee when `t` is a pointer / pointer-to-array), else None."""
    if not t:
        return None
    m = _ANON_RE.search(t)
    if m:
        path = m.group(1)
        if "/src/" in path:
            path = "src/" + path.split("/src/", 1)[1]
        elif "/daemon/" in path:
            path = "daemon/" + path.split("/daemon/", 1)[1]
        return "anon@%s:%s" % (path, m.group(2))
    t = t.replace("const ", "").replace("volatile ", "")
    t = re.sub(r"[\[\(\*].*$", "", t).strip()
    t = re.sub(r"^(struct|union)\s+", "", t)
    if t in prog.records:
        return t
    td = getattr(prog, "typedefs", {}).get(t)
    if td and td in prog.records:
        return td
    return None


def contains(prog, outer, inner, _seen=None):
    """Record `outer` holds (by value, transitively) an object of record `inner`."""
    if outer == inner:
        return True
    _seen = _seen or set()
    if outer in _seen:
        return False
    _seen.add(outer)
    r = prog.records.get(outer)
    if not r:
        return False
    for fld in r["fields"]:
        sub = fld.get("rec") or rec_of_type(prog, fld.get("t")) if not fld.get("t", "").rstrip().endswith("*") else None
        if fld.get("t", "").rstrip().endswith("*") or "(*" in fld.get("t", ""):
            continue
        if sub and contains(prog, sub, inner, _seen):
            return True
    return False


def resolve_rec(prog, spec):
    """'ttx_pop_link' or 'ttx_pop_link.default_obj' (the anonymous element
    record of that field) -> record name in the facts."""
    if spec.startswith("global:"):
        # the (possibly anonymous) record type of a global variable
        for g in prog.globals.get(spec[7:], []):
            r = rec_of_type(prog, g.get("t"))
            if r:
                return r
        return None
    if "." not in spec:
        return spec if spec in prog.records else None
    base, fld = spec.split(".", 1)
    r = prog.records.get(base)
    while r and fld:
        head, _, fld = fld.partition(".")
        nxt = None
        for x in r["fields"]:
            if x["name"] == head:
                nxt = x.get("rec") or rec_of_type(prog, x.get("t"))
        if nxt is None:
            return None
        base = nxt
        r = prog.records.get(base)
    return base if r else None


class Entry:
    def __init__(self, rec, field, lo, hi, why, spec=None, filler=None, init_written=False, table=None, also=()):
        self.also = tuple(also)         # sentinel values outside [lo, hi] a writer may store as a constant
        self.table = table              # objects of this record live only in this constant table
        self.rec, self.field, self.lo, self.hi, self.why = rec, field, lo, hi, why
        self.spec = spec or rec
        self.filler = filler            # byte value a memset may use although its replication is outside [lo,hi]
        self.init_written = init_written

    @property
    def key(self):
        return "%s.%s" % (self.spec, self.field)


class Invariants:
    def __init__(self, ctx, table, exceptions=None):
        self.exceptions = exceptions or {}      # instance key -> reason (one named writer each)
        self.exceptions_used = set()
        self.ctx = ctx
        self.prog = ctx.prog
        self.entries = []
        self.missing = []
        for t in table:
            rec = resolve_rec(self.prog, t["rec"])
            ok = False
            if rec:
                for x in self.prog.records[rec]["fields"]:
                    if x["name"] == t["field"]:
                        ok = True
            if not ok:
                self.missing.append("%s.%s" % (t["rec"], t["field"]))
                continue
            self.entries.append(Entry(rec, t["field"], t["lo"], t["hi"], t.get("why", ""), spec=t["rec"],
                                      filler=t.get("filler"), init_written=t.get("init_written", False),
                                      table=t.get("table"), also=t.get("also", ())))
        self.by_key = {(e.rec, e.field): e for e in self.entries}

    def install(self):
        for e in self.entries:
            self.ctx.field_inv[(e.rec, e.field)] = (e.lo, e.hi)
        self.ctx._an.clear()
        self.ctx._ret.clear()

    # ------------------------------------------------------------------
    def _field_of_lvalue(self, f, l):
        """(rec, field) when lvalue node l is `x.f`, `x->f`, `x.f[i]`, `x.f[i][j]`."""
        j = ex.skip(f, l)
        e = f.exprs[j]
        while e["k"] == "idx":
            j = _strip(f, e["c"][0])
            e = f.exprs[j]
        if e["k"] == "mem":
            return e.get("in"), e["member"]
        return None, None

    def verify(self, run, rule="RF-INV"):
        """Check every writer of every entry; report into `run`."""
        P = self.prog
        ctx = self.ctx
        n_w = {e.key: 0 for e in self.entries}
        for f in P.funcs:
            an = None
            for bid, i in flow.all_events(f):
                ev = f.exprs[i]
                # ---- direct stores
                for lhs, var, op, rhs in flow.stores(f, i):
                    if lhs is None:
                        continue
                    l = ex.skip(f, lhs)
                    le = f.exprs[l]
                    if "it" not in le:
                        # struct assignment: same type on both sides, preserves every entry
                        continue
                    rec, fld = self._field_of_lvalue(f, l)
                    ent = self.by_key.get((rec, fld))
                    if ent is None:
                        continue
                    an = an or ctx.analysis(f)
                    if an is None:
                        continue
                    st = an.state_before_expr(i)
                    if st is None:
                        continue          # unreachable
                    n_w[ent.key] += 1
                    if ev["k"] == "asg":
                        v = an.eval(st, i)
                    else:
                        a = an.eval(st, ev["c"][0])
                        v = absint.wrap(absint.add(a, (1, 1) if ev["op"] == "++" else (-1, -1)), le.get("it"), arith=True)
                    v = absint.meet(v, absint.node_range(le))
                    key = "%s:%s:%s:%s" % (rule, ent.key, f.name, _shape(f, i))
                    if key in self.exceptions and not absint.within(v, (ent.lo, ent.hi)):
                        self.exceptions_used.add(key)
                        run.holds(rule, key, "TRUSTED (not decided by the interval analysis): `%s` computes %s; %s"
                                  % (ex.pretty(f, i)[:60], v, self.exceptions[key]), ex.loc(f, i), nontrivial=False)
                        run.assumptions.append("%s: %s" % (key, self.exceptions[key]))
                    elif absint.within(v, (ent.lo, ent.hi)) or (v[0] is not None and v[0] == v[1] and v[0] in ent.also):
                        run.holds(rule, key, "`%s` stores %s, inside the declared range [%s, %s] of %s"
                                  % (ex.pretty(f, i)[:70], v, ent.lo, ent.hi, ent.key), ex.loc(f, i),
                                  nontrivial=v[0] != v[1])
                    else:
                        run.violation(rule, key, "`%s` can store %s into %s, outside the range [%s, %s] its readers rely on (%s)"
                                      % (ex.pretty(f, i)[:80], v, ent.key, ent.lo, ent.hi, ent.why), ex.loc(f, i),
                                      witness={"function": f.name, "store": ex.pretty(f, i), "value_interval": list(v),
                                               "declared": [ent.lo, ent.hi], "field": ent.key})
                # ---- bulk writers
                if ev["k"] == "call" and ev.get("callee") in BULK and len(ev.get("c", [])) >= 2:
                    self._bulk(run, rule, f, i, ev)
                # ---- escaping addresses
                if ev["k"] == "call" and ev.get("callee") not in BULK:
                    for a in ev.get("c", []):
                        self._escape(run, rule, f, i, a)
        for e in self.entries:
            if e.table:
                rng = self.ctx.global_column_range(e.table, e.field)
                key = "%s:%s:table:%s" % (rule, e.key, e.table)
                if rng is None:
                    run.violation(rule, key, "cannot read column %s of the constant table %s" % (e.field, e.table), None)
                elif e.lo <= rng[0] and rng[1] <= e.hi:
                    run.holds(rule, key, "column %s of the constant table %s[] has values %s, inside [%s, %s]"
                              % (e.field, e.table, rng, e.lo, e.hi), None)
                else:
                    run.violation(rule, key, "column %s of the table %s[] has values %s, outside the range [%s, %s] its readers "
                                  "rely on (%s)" % (e.field, e.table, rng, e.lo, e.hi, e.why), None,
                                  witness={"table": e.table, "column": e.field, "values": list(rng)})
        for e in self.entries:
            if not (e.lo <= 0 <= e.hi) and not e.init_written and not e.table:
                run.violation(rule, "%s:%s:zero-init" % (rule, e.key), "declared range [%s, %s] of %s excludes 0 but objects start "
                              "zero-filled" % (e.lo, e.hi, e.key), None)
        return n_w

    def _dest_cover(self, f, node):
        """What a bulk write through pointer expression `node` covers:
        ('field', rec, field) | ('rec', name) | None (plain bytes / scalars)."""
        j = _strip(f, node)
        e = f.exprs[j]
        if e["k"] == "un" and e["op"] == "&":
            j = _strip(f, e["c"][0])
            e = f.exprs[j]
            # &x->f  /  &x->f[i]  /  &x
            k = j
            ke = e
            while ke["k"] == "idx":
                k = _strip(f, ke["c"][0])
                ke = f.exprs[k]
            if ke["k"] == "mem" and (ke.get("in"), ke["member"]) in self.by_key and "it" in f.exprs[j]:
                return ("field", ke.get("in"), ke["member"])
            r = e.get("rec") or rec_of_type(self.prog, e.get("t"))
            if r:
                return ("rec", r)
            if ke["k"] == "mem" and (ke.get("in"), ke["member"]) in self.by_key:
                return ("field", ke.get("in"), ke["member"])
            return None
        # array decays / pointers
        k = j
        ke = e
        while ke["k"] == "idx":
            k = _strip(f, ke["c"][0])
            ke = f.exprs[k]
        if ke["k"] == "bin" and ke["op"] in ("+", "-"):
            return self._dest_cover(f, ke["c"][0])
        if ke["k"] == "mem" and (ke.get("in"), ke["member"]) in self.by_key and ("arr" in e or "arr" in ke):
            return ("field", ke.get("in"), ke["member"])
        t = e.get("t", "")
        r = e.get("prec") or (rec_of_type(self.prog, t) if ("*" in t or "[" in t) else None)
        if r:
            return ("rec", r)
        return None

    def _bulk(self, run, rule, f, i, ev):
        P = self.prog
        dst = self._dest_cover(f, ev["c"][0])
        if dst is None:
            return
        hit = []
        if dst[0] == "field":
            hit = [self.by_key[(dst[1], dst[2])]]
        else:
            hit = [e for e in self.entries if contains(P, dst[1], e.rec)]
        if not hit:
            return
        name = ev["callee"].replace("__builtin_", "")
        if name == "memset":
            c = ex.const(f, ev["c"][1])
            for e in hit:
                key = "%s:%s:%s:memset" % (rule, e.key, f.name)
                vals = _replicated(P, e, c)
                if c == 0 and e.init_written:
                    run.holds(rule, key, "memset (.., 0, ..) zero-fills %s; the field is assigned before its first read (%s)"
                              % (e.key, e.why), ex.loc(f, i), nontrivial=False)
                elif vals is not None and all(e.lo <= v <= e.hi for v in vals):
                    run.holds(rule, key, "memset (.., %s, ..) fills %s with %s, inside [%s, %s]" % (c, e.key, vals, e.lo, e.hi),
                              ex.loc(f, i), nontrivial=False)
                elif c is not None and e.filler is not None and (c & 0xFF) == (e.filler & 0xFF):
                    run.holds(rule, key, "memset (.., %s, ..) is the declared filler of %s (%s)" % (c, e.key, e.why), ex.loc(f, i),
                              nontrivial=False)
                else:
                    run.violation(rule, key, "`%s` fills %s with byte %s: element value %s outside [%s, %s] (%s)"
                                  % (ex.pretty(f, i)[:70], e.key, c, vals, e.lo, e.hi, e.why), ex.loc(f, i),
                                  witness={"function": f.name, "call": ex.pretty(f, i)})
        else:
            src = self._dest_cover(f, ev["c"][1])
            for e in hit:
                key = "%s:%s:%s:%s" % (rule, e.key, f.name, name)
                if src == dst or (src is not None and dst[0] == "rec" and src[0] == "rec" and src[1] == dst[1]) \
                        or (src is not None and src[0] == "field" and dst[0] == "field" and src[1:] == dst[1:]):
                    run.holds(rule, key, "%s copies %s from an object of the same type (invariant preserved)" % (name, e.key),
                              ex.loc(f, i), nontrivial=False)
                elif src is not None and src[0] == "rec" and dst[0] == "rec" and (contains(P, src[1], dst[1]) or contains(P, dst[1], src[1])):
                    run.holds(rule, key, "%s copies between %s and %s, one embedded in the other at the same layout "
                              "(invariant preserved)" % (name, src[1], dst[1]), ex.loc(f, i), nontrivial=False)
                else:
                    run.violation(rule, key, "`%s` overwrites %s with bytes that are not an object of the same type: the range "
                                  "[%s, %s] its readers rely on is not re-established" % (ex.pretty(f, i)[:80], e.key, e.lo, e.hi),
                                  ex.loc(f, i), witness={"function": f.name, "call": ex.pretty(f, i), "src": str(src), "dst": str(dst)})

    def _escape(self, run, rule, f, i, a):
        j = _strip(f, a)
        e = f.exprs[j]
        tgt = None
        if e["k"] == "un" and e["op"] == "&":
            tgt = _strip(f, e["c"][0])
        elif "arr" in e and e["k"] in ("mem", "idx"):
            tgt = j
        if tgt is None:
            return
        te = f.exprs[tgt]
        if "it" not in te and "arr" not in te:
            return                      # address of a whole record: handled by the callee's own stores
        rec, fld = self._field_of_lvalue(f, tgt)
        ent = self.by_key.get((rec, fld))
        if ent is None:
            return
        callee = f.exprs[i].get("callee")
        # the callee may write through the pointer: only acceptable when its
        # parameter is a pointer to const
        t = f.exprs[ex.skip(f, a)].get("t", "")
        if "const" in t:
            return
        tf = self.prog.func_for(f, callee) if callee else None
        if tf is not None:
            idx = f.exprs[i]["c"].index(a)
            if idx < len(tf.params) and "const" in tf.params[idx].get("t", ""):
                return
        run.violation(rule, "%s:%s:%s:escape" % (rule, ent.key, f.name), "the address of %s is passed to %s (`%s`): a writer the "
                      "invariant check cannot see" % (ent.key, callee or "an indirect callee", ex.pretty(f, i)[:70]), ex.loc(f, i))


def _replicated(prog, e, c):
    """Values an element of e's field takes when every byte is c."""
    if c is None:
        return None
    r = prog.records[e.rec]
    fld = [x for x in r["fields"] if x["name"] == e.field][0]
    it = fld.get("it") or fld.get("eit")
    size = fld.get("esz") if "arr" in fld else fld.get("size")
    b = c & 0xFF
    if not size:
        return None
    v = 0
    for _ in range(size):
        v = (v << 8) | b
    signed = it[1] if it else _guess_signed(fld.get("t", ""))
    if fld.get("bf"):
        bits = fld["bf"]
        v &= (1 << bits) - 1
        if signed and v >= 1 << (bits - 1):
            v -= 1 << bits
        return [v]
    if signed and v >= 1 << (8 * size - 1):
        v -= 1 << (8 * size)
    return [v]


def _guess_signed(t):
    t = t.split("[")[0].strip()
    if t.startswith("unsigned") or t in ("uint8_t", "uint16_t", "uint32_t", "_Bool"):
        return 0
    return 1


def _shape(f, i):
    """Name-independent tag of a store: operator and constant, if any."""
    e = f.exprs[i]
    if e["k"] == "asg":
        c = ex.const(f, e["c"][1])
        return "%s%s" % (e["op"], c if c is not None else "expr")
    return e["op"]
