"""Normalisation of the fact tables before the rules see them.

The instance tables in zsa/props/ were confirmed by reading the code as it was
when zsa/inventory.json was written (names of functions, their locals and
signatures, record fields - nothing else).  A later edit that only *reshapes*
the code - a block moved into a new static helper, a value parked in a new
temporary, a static function or a field renamed - must not change any verdict.
This module undoes exactly those reshapings on the fact level, so that the
rules analyse the same resolved program they were confirmed on:

  N1  a function that vanished from a file while a new one with the same
      signature appeared there is the same function under a new name;
  N2  the same for a field of a record (same offset, same type);
  N3  a static function the inventory does not know (a helper that was split
      off) is inlined into its callers: its blocks are spliced into the
      caller's CFG, parameters become initialised locals, `return e` becomes an
      assignment to a result temporary;
  N4  a local the inventory does not know (including the ones N3 creates) that
      has a single pure definition is replaced, at every use the definition
      dominates and no operand of which is overwritten in between, by the
      defining expression.

Every step is the identity on a tree whose names equal the inventory (the
unchanged tree).  None of them can create a violation: they only rewrite the
program into an equivalent one; what they did is listed in the evidence.
"""
import copy
import json
import os

HERE = os.path.dirname(os.path.abspath(__file__))
INVENTORY = os.path.join(HERE, "inventory.json")

MAX_INLINE_BLOCKS = 120
MAX_INLINE_ROUNDS = 6

PURE_EXTERNALS = {"strlen", "strcmp", "strncmp", "memcmp", "abs", "labs", "strchr", "strrchr", "isalnum", "isalpha", "isdigit",
                  "isspace", "tolower", "toupper", "__builtin_expect", "ntohl", "ntohs", "htonl", "htons", "__builtin_bswap32",
                  "__builtin_bswap16", "__builtin_constant_p", "__bswap_32", "__bswap_16",
                  "vbi_rev8", "vbi_rev16", "vbi_rev16p", "vbi_is_bcd", "vbi_bcd2dec", "vbi_dec2bcd",
                  "vbi_add_bcd", "vbi_neg_bcd"}
# not the Hamming / parity decoders: RF-NEG follows their results by the local that holds them; a temporary tested `< 0`
# must stay the thing that is stored afterwards


_INV = []


def known_subscript(f, key):
    """Was this subscript site (canonical key) part of function f when the tables were confirmed?"""
    if not _INV:
        _INV.append(load_inventory() or {})
    subs = _INV[0].get("subscripts")
    if subs is None:
        return True
    fn = getattr(f, "inv_name", None) or f.name
    return key in subs.get(f.file, {}).get(fn, ())


def load_inventory():
    try:
        with open(INVENTORY) as fh:
            return json.load(fh)
    except OSError:
        return None


# --------------------------------------------------------------------------
# inventory (written by tools/gen_inventory.py from the tree the tables were confirmed on)

def make_inventory(unit_facts):
    inv = {"functions": {}, "records": {}}
    for u in unit_facts:
        for fd in u["functions"]:
            d = inv["functions"].setdefault(fd["file"], {})
            if fd["name"] in d:
                continue
            d[fd["name"]] = {"static": fd["static"], "sig": _sig(fd), "locals": _locals(fd),
                             "switches": sum(1 for b in fd["blocks"] if (b.get("term") or {}).get("kind") == "SwitchStmt")}
        for r in u["records"]:
            if "fields" in r and r["name"]:
                inv["records"][r["name"]] = [[x["name"], x["t"], x["off"], x.get("size")] for x in r["fields"]]
    return inv


def _sig(fd):
    return [fd["ret"].get("t") if isinstance(fd["ret"], dict) else fd["ret"]] + [p["t"] for p in fd["params"]]


def _locals(fd):
    out = {}
    for e in fd["exprs"]:
        if e["k"] == "decl":
            for v in e.get("vars", []):
                out[v["name"]] = v["t"]
    return out


# --------------------------------------------------------------------------

class Log:
    def __init__(self):
        self.items = []

    def add(self, kind, text):
        self.items.append((kind, text))


def apply(unit_facts, log=None):
    """Normalise the fact dictionaries in place.  Returns the log."""
    log = log or Log()
    inv = load_inventory()
    if inv is None:
        return log
    _rename_fields(unit_facts, inv, log)
    seen = {}
    for u in unit_facts:
        # header functions appear in every unit that includes them; they are never new helpers of a unit
        fds = [fd for fd in u["functions"]]
        _rename_functions(u, fds, inv, log, unit_facts)
    for u in unit_facts:
        _inline_new_helpers(u, inv, log)
    for u in unit_facts:
        for fd in u["functions"]:
            k = (fd["file"], fd["name"], fd["line"])
            if k in seen:
                continue
            seen[k] = 1
            _strength_forms(fd, log)
            _compound_assignments(fd, log)
            known = inv["functions"].get(fd["file"], {}).get(fd.get("inv_name", fd["name"]))
            _propagate_new_locals(fd, known, log)
            _thread_result_tests(fd, log)
            _cancel_addr_deref(fd, log)
            _fold_offset_subscripts(fd, log)
            _expand_flag_branches(fd, log)
            if known is not None and known.get("switches", 0) > sum(1 for b in fd["blocks"]
                                                                     if (b.get("term") or {}).get("kind") == "SwitchStmt"):
                _chains_to_switches(fd, log)
            _compound_assignments(fd, log)
    return log


# --------------------------------------------------------------------------
# N2 renamed fields

def _rename_fields(unit_facts, inv, log):
    alias = {}          # (rec, newname) -> oldname
    done = set()
    for u in unit_facts:
        for r in u["records"]:
            if "fields" not in r or r["name"] not in inv["records"] or r["name"] in done:
                continue
            done.add(r["name"])
            old = inv["records"][r["name"]]
            cur = [[x["name"], x["t"], x["off"], x.get("size")] for x in r["fields"]]
            oldn = {x[0] for x in old}
            curn = {x[0] for x in cur}
            missing = [x for x in old if x[0] not in curn]
            new = [x for x in cur if x[0] not in oldn]
            if not missing or not new:
                continue
            for m in missing:
                # same type; same position in the declaration order among the candidates
                cands = [n for n in new if n[1] == m[1]]
                if len(cands) == 1 and len([x for x in missing if x[1] == m[1]]) == 1:
                    alias[(r["name"], cands[0][0])] = m[0]
                    log.add("N2", "field %s.%s is %s.%s under a new name" % (r["name"], cands[0][0], r["name"], m[0]))
    if not alias:
        return
    for u in unit_facts:
        for r in u["records"]:
            for x in r.get("fields", []):
                if (r["name"], x["name"]) in alias:
                    x["name"] = alias[(r["name"], x["name"])]
        for fd in u["functions"]:
            for e in fd["exprs"]:
                if e["k"] == "mem" and (e.get("in"), e["member"]) in alias:
                    e["member"] = alias[(e.get("in"), e["member"])]
        for g in u.get("globals", []):
            for e in g.get("exprs", []):
                if e["k"] == "mem" and (e.get("in"), e["member"]) in alias:
                    e["member"] = alias[(e.get("in"), e["member"])]


# --------------------------------------------------------------------------
# N1 renamed functions

def _rename_functions(u, fds, inv, log, unit_facts):
    by_file = {}
    for fd in fds:
        by_file.setdefault(fd["file"], []).append(fd)
    for file, lst in by_file.items():
        known = inv["functions"].get(file)
        if known is None:
            continue
        cur = {fd["name"] for fd in lst}
        missing = [n for n in known if n not in cur]
        new = [fd for fd in lst if fd["name"] not in known]
        if not missing or not new:
            continue
        for m in missing:
            sig = known[m]["sig"]
            cands = [fd for fd in new if _sig(fd) == sig and fd["static"] == known[m]["static"] and "inv_name" not in fd]
            others = [x for x in missing if known[x]["sig"] == sig and known[x]["static"] == known[m]["static"]]
            if len(cands) != 1 or len(others) != 1:
                continue
            fd = cands[0]
            # the body must still look like the old one: most of the old locals are there
            oldl = set(known[m]["locals"])
            curl = set(_locals(fd))
            if oldl and len(oldl & curl) * 2 < len(oldl):
                continue
            newname = fd["name"]
            log.add("N1", "%s: function %s is %s under a new name" % (file, newname, m))
            fd["inv_name"] = m
            fd["orig_name"] = newname
            scope = [u] if fd["static"] and not file.endswith(".h") else unit_facts
            for uu in scope:
                for g in uu["functions"]:
                    if g["name"] == newname and g["file"] == file:
                        g["name"] = m
                    for e in g["exprs"]:
                        if e["k"] == "call" and e.get("callee") == newname:
                            e["callee"] = m
                        elif e["k"] == "ref" and e.get("dk") == "func" and e.get("name") == newname:
                            e["name"] = m
                for gl in uu.get("globals", []):
                    for e in gl.get("exprs", []):
                        if e["k"] == "ref" and e.get("dk") == "func" and e.get("name") == newname:
                            e["name"] = m


# --------------------------------------------------------------------------
# N3 inlining of helpers the inventory does not know

def _inline_new_helpers(u, inv, log):
    unit = u["unit"]
    fds = {}
    for fd in u["functions"]:
        fds.setdefault(fd["name"], fd)
    new = {}
    for name, fd in fds.items():
        if not fd["static"] or fd["file"] != unit:
            continue
        if fd["name"] in inv["functions"].get(fd["file"], {}):
            continue
        if fd.get("cfg_failed") or fd.get("variadic") or len(fd["blocks"]) > MAX_INLINE_BLOCKS:
            continue
        new[name] = fd
    if not new:
        return
    # address-taken helpers stay functions (a direct call has one `ref` to the function and one `call`)
    nref, ncall = {}, {}
    for fd in u["functions"]:
        for e in fd["exprs"]:
            if e["k"] == "ref" and e.get("dk") == "func" and e["name"] in new:
                nref[e["name"]] = nref.get(e["name"], 0) + 1
            elif e["k"] == "call" and e.get("callee") in new:
                ncall[e["callee"]] = ncall.get(e["callee"], 0) + 1
    for gl in u.get("globals", []):
        for e in gl.get("exprs", []):
            if e["k"] == "ref" and e.get("dk") == "func":
                new.pop(e.get("name"), None)
    for n in list(new):
        if nref.get(n, 0) != ncall.get(n, 0):
            new.pop(n)
    # recursive helpers stay functions
    def calls(fd):
        return {e.get("callee") for e in fd["exprs"] if e["k"] == "call" and e.get("callee")}
    changed = True
    while changed:
        changed = False
        for name in list(new):
            seen, st = set(), [name]
            rec = False
            while st:
                n = st.pop()
                for c in calls(new[n]) if n in new else ():
                    if c == name:
                        rec = True
                    if c in new and c not in seen:
                        seen.add(c)
                        st.append(c)
            if rec:
                new.pop(name)
                changed = True
    if not new:
        return
    counter = [0]
    inlined_into = {}
    for rnd in range(MAX_INLINE_ROUNDS):
        any_ = False
        for fd in u["functions"]:
            if fd["file"] != unit and not fd["file"].endswith(".c"):
                continue
            if fd["name"] in new and fds.get(fd["name"]) is fd:
                continue           # helpers are expanded where they end up
            if fd.get("cfg_failed"):
                continue
            while True:
                site = _find_call(fd, new)
                if site is None:
                    break
                bid, pos, cid = site
                callee = new[fd["exprs"][cid]["callee"]]
                counter[0] += 1
                _inline_at(fd, bid, pos, cid, callee, counter[0])
                inlined_into.setdefault(callee["name"], set()).add(fd["name"])
                any_ = True
        if not any_:
            break
    # a helper with no remaining caller disappears
    still = set()
    for fd in u["functions"]:
        if fd["name"] in new and fds.get(fd["name"]) is fd:
            continue
        for e in fd["exprs"]:
            if e["k"] == "call" and e.get("callee") in new and _is_elem(fd, e):
                still.add(e["callee"])
    for name, into in sorted(inlined_into.items()):
        log.add("N3", "%s: new static helper %s() inlined into %s" % (unit, name, ", ".join(sorted(into))))
    u["functions"] = [fd for fd in u["functions"]
                      if not (fd["name"] in new and fds.get(fd["name"]) is fd and fd["name"] in inlined_into and fd["name"] not in still)]


def _skip_casts(fd, i):
    while i is not None and i >= 0 and fd["exprs"][i]["k"] in ("cast", "opaque") and fd["exprs"][i].get("c"):
        i = fd["exprs"][i]["c"][0]
    return i


def _is_elem(fd, e):
    return True


def _find_call(fd, new):
    for b in fd["blocks"]:
        for pos, i in enumerate(b["elems"]):
            e = fd["exprs"][i]
            if e["k"] == "call" and e.get("callee") in new and not e.get("_inl"):
                if len(e.get("c", [])) != len(new[e["callee"]]["params"]):
                    e["_inl"] = 1
                    continue
                return b["id"], pos, i
    return None


def _inline_at(fd, bid, pos, cid, callee, serial):
    exprs = fd["exprs"]
    call = exprs[cid]
    line = call.get("line", 0)
    off = len(exprs)
    boff = max(b["id"] for b in fd["blocks"]) + 1
    did_off = 1000000 * serial
    caller_names = set(_locals_fd(fd)) | {p["name"] for p in fd["params"]}
    callee_names = set(_locals(callee)) | {p["name"] for p in callee["params"]}
    ren = {}
    for n in callee_names:
        if n in caller_names:
            ren[n] = "%s__%s%d" % (n, callee["name"], serial)
    # ---- copy the callee's expressions
    for e in callee["exprs"]:
        e2 = copy.deepcopy(e)
        e2.pop("_inl", None)
        if "c" in e2:
            e2["c"] = [(c + off) if (c is not None and c >= 0) else c for c in e2["c"]]
        if "fn" in e2 and e2["fn"] is not None and e2["fn"] >= 0:
            e2["fn"] += off
        if e2["k"] == "ref" and e2.get("dk") in ("local", "param"):
            e2["did"] = e2.get("did", 0) + did_off
            e2["name"] = ren.get(e2["name"], e2["name"])
            e2["dk"] = "local"
        if e2["k"] == "decl":
            for v in e2.get("vars", []):
                v["did"] = v.get("did", 0) + did_off
                v["name"] = ren.get(v["name"], v["name"])
                if "init" in v and v["init"] is not None and v["init"] >= 0:
                    v["init"] += off
        e2["inl"] = callee["name"]
        exprs.append(e2)
    # ---- result temporary
    ret = callee["ret"] if isinstance(callee["ret"], dict) else {"t": callee["ret"]}
    void = ret.get("t") == "void"
    rname = "%s__ret%d" % (callee["name"], serial)
    rdid = did_off + 999999

    def rref(ln):
        d = {"k": "ref", "line": ln, "name": rname, "dk": "local", "did": rdid, "inl": callee["name"]}
        for k in ("t", "it", "psz", "prec", "parr"):
            if k in ret:
                d[k] = ret[k]
        return d
    # ---- split the block
    blk = [b for b in fd["blocks"] if b["id"] == bid][0]
    before, after = blk["elems"][:pos], blk["elems"][pos + 1:]
    cont = {"id": boff, "elems": after, "succs": blk["succs"]}
    for k in ("term", "noret"):
        if k in blk:
            cont[k] = blk.pop(k)
    boff += 1
    # parameter bindings
    args = call.get("c", [])
    for n, p in enumerate(callee["params"]):
        v = {"name": ren.get(p["name"], p["name"]), "did": p["did"] + did_off, "t": p["t"], "init": args[n]}
        for k in ("it", "psz", "prec", "parr"):
            if k in p:
                v[k] = p[k]
        exprs.append({"k": "decl", "line": line, "vars": [v], "inl": callee["name"], "inl_param": 1})
        before.append(len(exprs) - 1)
    blk["elems"] = before
    # ---- copy the callee's blocks
    bmap = {b["id"]: b["id"] + boff for b in callee["blocks"]}
    centry, cexit = callee["entry"], callee["exit"]
    for b in callee["blocks"]:
        nb = {"id": bmap[b["id"]], "elems": [], "succs": [(bmap[s] if s is not None else None) for s in b["succs"]]}
        if "label" in b:
            nb["label"] = copy.deepcopy(b["label"])
        if b.get("noret"):
            nb["noret"] = b["noret"]
        if b.get("term"):
            t = copy.deepcopy(b["term"])
            if "cond" in t and t["cond"] is not None and t["cond"] >= 0:
                t["cond"] += off
            nb["term"] = t
        for i in b["elems"]:
            e = exprs[i + off]
            if e["k"] == "ret":
                if e.get("c") and not void:
                    exprs.append(rref(e.get("line", line)))
                    lhs = len(exprs) - 1
                    val = e["c"][0]
                    e.clear()
                    e.update({"k": "asg", "line": exprs[lhs]["line"], "op": "=", "c": [lhs, val], "inl": callee["name"], "inl_ret": 1})
                    for k in ("t", "it", "psz", "prec"):
                        if k in ret:
                            e[k] = ret[k]
                    nb["elems"].append(i + off)
                else:
                    ln = e.get("line", line)
                    e.clear()
                    e.update({"k": "int", "line": ln, "v": 0, "t": "int", "it": [32, 1], "inl": callee["name"]})
                continue
            nb["elems"].append(i + off)
        if b["id"] == cexit:
            nb["succs"] = [cont["id"]]
            nb.pop("term", None)
        fd["blocks"].append(nb)
    blk["succs"] = [bmap[centry]]
    fd["blocks"].append(cont)
    # ---- the call expression becomes a read of the result temporary
    ln = call.get("line", line)
    keep = {k: call[k] for k in ("t", "it", "psz", "prec") if k in call}
    call.clear()
    if void:
        call.update({"k": "int", "line": ln, "v": 0, "t": "int", "it": [32, 1], "inl": callee["name"]})
    else:
        call.update(rref(ln))
        call.update(keep)
    fd.setdefault("inlined", []).append(callee["name"])


def _locals_fd(fd):
    return _locals(fd)


# --------------------------------------------------------------------------
# N9 `*&x` is `x`, `(&s)->m` is `s.m` (what N4 leaves behind when a helper took a pointer to a caller's local)

def _cancel_addr_deref(fd, log):
    exprs = fd["exprs"]
    n = 0

    def addr_child(i):
        """The operand of `&` when node i is (a cast of) `&operand` created by substitution, else None."""
        k = 0
        while i is not None and i >= 0 and k < 10:
            e = exprs[i]
            if e["k"] == "cast" and e.get("ck") in ("LValueToRValue", "NoOp") and e.get("c"):
                i = e["c"][0]
            elif e["k"] == "un" and e["op"] == "&" and e.get("c"):
                return e["c"][0] if (e.get("subst") or exprs[i].get("subst")) else None
            else:
                return None
            k += 1
        return None
    for e in exprs:
        if e["k"] == "un" and e["op"] == "*" and e.get("c"):
            c = _subst_addr(exprs, e["c"][0])
            if c is not None:
                src = exprs[c]
                ln = e.get("line")
                keep = {k: e[k] for k in ("t", "it", "psz", "prec", "arr", "esz") if k in e}
                e.clear()
                e.update(copy.deepcopy(src))
                e.update(keep)
                if ln is not None:
                    e["line"] = ln
                n += 1
        elif e["k"] == "mem" and e.get("arrow") and e.get("c"):
            c = _subst_addr(exprs, e["c"][0])
            if c is not None:
                e["c"] = [c]
                e.pop("arrow", None)
                n += 1
    if n:
        log.add("N9", "%s(): %d `*&x` / `(&s)->m` read as `x` / `s.m`" % (fd["name"], n))


# --------------------------------------------------------------------------
# N11 the test of an inlined helper's result right behind the helper: paths that stored a constant result go straight to
# the branch that constant selects (jump threading).  `if (!helper (...)) fail;` then looks like the guards it was made of.

def _thread_result_tests(fd, log):
    exprs = fd["exprs"]
    rets = set()
    for e in exprs:
        if e["k"] == "asg" and e.get("inl_ret") and e.get("c"):
            r = exprs[e["c"][0]]
            if r["k"] == "ref":
                rets.add(r.get("did"))
    if not rets:
        return
    blocks = {b["id"]: b for b in fd["blocks"]}
    preds = {}
    for b in fd["blocks"]:
        for s_ in b["succs"]:
            if s_ is not None:
                preds.setdefault(s_, []).append(b["id"])

    def polarity(i):
        """(did of the tested result temporary, True when the T edge is taken for a non-zero value)."""
        pos = True
        k = 0
        while i is not None and i >= 0 and k < 30:
            k += 1
            e = exprs[i]
            if e["k"] in ("cast", "paren", "opaque") and e.get("c"):
                i = e["c"][0]
            elif e["k"] == "call" and e.get("callee") == "__builtin_expect" and e.get("c"):
                i = e["c"][0]
            elif e["k"] == "un" and e["op"] == "!":
                pos = not pos
                i = e["c"][0]
            elif e["k"] == "bin" and e["op"] in ("==", "!="):
                a, b = e["c"]
                va, vb = _const_of(exprs, a), _const_of(exprs, b)
                if vb == 0 and va is None:
                    i = a
                elif va == 0 and vb is None:
                    i = b
                else:
                    return None
                if e["op"] == "==":
                    pos = not pos
            elif e["k"] == "ref" and e.get("dk") == "local" and e.get("did") in rets:
                return e["did"], pos
            else:
                return None
        return None

    def subtree(i, acc, depth=0):
        if i is None or i < 0 or depth > 40 or i in acc:
            return
        acc.add(i)
        for c in exprs[i].get("c") or []:
            subtree(c, acc, depth + 1)

    def last_store(b, did):
        """Constant the block's last store to the temporary assigns, 'other' for another store, None for none."""
        for i in reversed(b["elems"]):
            e = exprs[i]
            if e["k"] == "asg" and e.get("c") and exprs[e["c"][0]]["k"] == "ref" and exprs[e["c"][0]].get("did") == did:
                if e["op"] != "=":
                    return "other"
                v = _const_of(exprs, e["c"][1])
                if v is not None:
                    return v
                # `return (a == b);`: a side-effect free truth value - the path branches on it directly
                r = e["c"][1]
                k = 0
                while r is not None and r >= 0 and exprs[r]["k"] in ("cast", "paren") and exprs[r].get("c") and k < 6:
                    r = exprs[r]["c"][0]
                    k += 1
                re_ = exprs[r]
                if ((re_["k"] == "bin" and re_.get("op") in ("<", "<=", ">", ">=", "==", "!=", "&&", "||")) or
                        (re_["k"] == "un" and re_.get("op") == "!")) and _pure_info(fd, r) is not None:
                    return ("expr", r)
                return "other"
            if e["k"] == "decl" and any(v.get("did") == did for v in e.get("vars", [])):
                return "other"
        return None
    n = 0
    for J in list(fd["blocks"]):
        t = J.get("term")
        if not t or "cond" not in t or t.get("kind") not in ("IfStmt", "ConditionalOperator") or len(J["succs"]) != 2 or None in J["succs"]:
            continue
        cnode = t["cond"]
        # The statement's condition may wrap the tested result: `!(a || helper ())`.  On the path that evaluates the
        # helper the earlier operands did not decide, so the last operand decides - negated once per `!` around it.
        k = 0
        outer_neg = False
        wrappers = set()
        while cnode is not None and cnode >= 0 and k < 12:
            k += 1
            ce = exprs[cnode]
            if ce["k"] in ("cast", "paren") and ce.get("c"):
                wrappers.add(cnode)
                cnode = ce["c"][0]
            elif ce["k"] == "call" and ce.get("callee") == "__builtin_expect" and ce.get("c"):
                wrappers.add(cnode)
                cnode = ce["c"][0]
            elif ce["k"] == "un" and ce.get("op") == "!" and ce.get("c") and \
                    exprs[_strip(fd, ce["c"][0])]["k"] == "bin" and exprs[_strip(fd, ce["c"][0])].get("op") in ("||", "&&"):
                wrappers.add(cnode)
                outer_neg = not outer_neg
                cnode = ce["c"][0]
            elif ce["k"] == "bin" and ce.get("op") in ("||", "&&"):
                wrappers.add(cnode)
                cnode = ce["c"][1]
            else:
                break
        pl = polarity(cnode)
        if pl is None:
            continue
        did, pos = pl
        if outer_neg:
            pos = not pos
        own = set(wrappers)
        subtree(cnode, own)
        if any(i not in own for i in J["elems"]):
            continue
        T, F = J["succs"]
        # predecessors, looking through empty pass-through blocks
        work = [(p, J["id"]) for p in preds.get(J["id"], [])]
        seen = set()
        while work:
            pid, via = work.pop()
            if (pid, via) in seen or pid == J["id"]:
                continue
            seen.add((pid, via))
            P = blocks[pid]
            if len(P["succs"]) != 1 or P.get("term", {}).get("cond") is not None:
                continue
            v = last_store(P, did)
            if v is None:
                if not P["elems"] or all(exprs[i]["k"] not in ("asg", "call", "decl", "un", "ret") for i in P["elems"]):
                    for pp in preds.get(pid, []):
                        work.append((pp, pid))
                continue
            if v == "other":
                continue
            if isinstance(v, tuple):
                nid = max(blocks) + 1
                nb = {"id": nid, "elems": [v[1]], "succs": [T, F] if pos else [F, T],
                      "term": {"kind": "IfStmt", "cond": v[1], "line": exprs[v[1]].get("line", 0)}}
                fd["blocks"].append(nb)
                blocks[nid] = nb
                P["succs"] = [nid]
                n += 1
                continue
            target = T if ((v != 0) == pos) else F
            if via != J["id"]:
                # the path runs through empty blocks: they have a single successor chain to J, skip them
                pass
            P["succs"] = [target]
            n += 1
    if n:
        log.add("N11", "%s(): %d path(s) with a constant helper result go straight to the branch it selects" % (fd["name"], n))


def _const_of(exprs, i):
    k = 0
    while i is not None and i >= 0 and k < 10:
        e = exprs[i]
        if isinstance(e.get("v"), int):
            return e["v"]
        if e["k"] in ("cast", "paren") and e.get("c"):
            i = e["c"][0]
        else:
            return None
        k += 1
    return None


# --------------------------------------------------------------------------
# N10 `(q + c)[k]` is `q[c + k]` (what N4 leaves behind for a new cursor `p = q + c` used as `p[k]`)

def _fold_offset_subscripts(fd, log):
    exprs = fd["exprs"]
    n = 0

    def const_of(i):
        k = 0
        while i is not None and i >= 0 and k < 10:
            e = exprs[i]
            if isinstance(e.get("v"), int):
                return e["v"]
            if e["k"] in ("cast", "paren") and e.get("c"):
                i = e["c"][0]
            else:
                return None
            k += 1
        return None

    def set_const(i, v):
        k = 0
        while i is not None and i >= 0 and k < 10:
            e = exprs[i]
            if "v" in e:
                e["v"] = v
            if e["k"] in ("cast", "paren") and e.get("c"):
                i = e["c"][0]
            else:
                if e["k"] == "ref":          # an enumerator: becomes a plain literal
                    t = {k2: e[k2] for k2 in ("line", "t", "it") if k2 in e}
                    e.clear()
                    e.update(t)
                    e["k"] = "lit"
                    e["v"] = v
                return
            k += 1
    for e in exprs:
        if e["k"] != "idx" or not e.get("c") or len(e["c"]) != 2:
            continue
        k = const_of(e["c"][1])
        if k is None:
            continue
        b = e["c"][0]
        hops = 0
        subst = False
        while b is not None and b >= 0 and hops < 10:
            be = exprs[b]
            subst = subst or bool(be.get("subst"))
            if be["k"] in ("cast", "paren") and be.get("ck", "NoOp") in ("LValueToRValue", "NoOp", "BitCast") and be.get("c"):
                if be.get("ck") == "BitCast":
                    break
                b = be["c"][0]
            else:
                break
            hops += 1
        be = exprs[b]
        if not subst or be["k"] != "bin" or be.get("op") != "+":
            continue
        l, r = be["c"]
        cl, cr = const_of(l), const_of(r)
        lt, rt = exprs[l].get("t", ""), exprs[r].get("t", "")
        if cr is not None and lt.rstrip().endswith("*"):
            ptr, c = l, cr
        elif cl is not None and rt.rstrip().endswith("*"):
            ptr, c = r, cl
        else:
            continue
        if c < 0:
            continue
        e["c"] = [ptr, e["c"][1]]
        set_const(e["c"][1], c + k)
        n += 1
    if n:
        log.add("N10", "%s(): %d subscript(s) `(q + c)[k]` read as `q[c + k]`" % (fd["name"], n))


def _subst_addr(exprs, i):
    k = 0
    subst = False
    while i is not None and i >= 0 and k < 10:
        e = exprs[i]
        subst = subst or bool(e.get("subst"))
        if e["k"] == "cast" and e.get("ck") in ("LValueToRValue", "NoOp") and e.get("c"):
            i = e["c"][0]
        elif e["k"] == "un" and e["op"] == "&" and e.get("c"):
            return e["c"][0] if subst else None
        else:
            return None
        k += 1
    return None


# --------------------------------------------------------------------------
# N8 an if / else-if chain over one value is a switch

def _chains_to_switches(fd, log):
    """A function that had more switch statements when the tables were confirmed: chains of tests `S == c`, `S != c`,
    `lo <= S && S <= hi` on one side-effect free value S, each in a block of its own, are given back the shape of a
    switch (one labelled entry block per case, the last else as default)."""
    exprs = fd["exprs"]
    blocks = {b["id"]: b for b in fd["blocks"]}
    nxt = [max(blocks) + 1]
    preds = {}
    for b in fd["blocks"]:
        for s_ in b["succs"]:
            if s_ is not None:
                preds.setdefault(s_, []).append(b["id"])

    def evaluated(i):
        """The operand of a (nested) && / || chain that the block itself evaluates."""
        n = 0
        while i is not None and i >= 0 and n < 40:
            n += 1
            e = exprs[i]
            if e["k"] in ("cast", "opaque") and e.get("c"):
                i = e["c"][0]
            elif e["k"] == "call" and e.get("callee") == "__builtin_expect" and e.get("c"):
                i = e["c"][0]
            elif e["k"] == "bin" and e["op"] in ("&&", "||"):
                i = e["c"][1]
            else:
                return i
        return i

    def test(bid):
        """(scrutinee key, scrutinee node, op, constant, T succ, F succ) of a block that only tests `S op c`."""
        b = blocks[bid]
        t = b.get("term")
        if not t or "cond" not in t or t.get("kind") not in ("IfStmt", "BinaryOperator") or len(b["succs"]) != 2 or None in b["succs"]:
            return None
        j = evaluated(t["cond"])
        e = exprs[j]
        if e["k"] != "bin" or e["op"] not in ("==", "!=", "<=", ">=", "<", ">"):
            return None
        a, c = e["c"]
        va, vc = exprs[_strip(fd, a)].get("v"), exprs[_strip(fd, c)].get("v")
        op = e["op"]
        if isinstance(va, int) and not isinstance(vc, int):
            a, c, va, vc = c, a, vc, va
            op = {"<": ">", ">": "<", "<=": ">=", ">=": "<=", "==": "==", "!=": "!="}[op]
        if not isinstance(vc, int) or isinstance(va, int):
            return None
        k = _skey(fd, a)
        if k is None:
            return None
        return k, a, op, vc, b["succs"][0], b["succs"][1]

    def pure(bid, first):
        """Only the first block of a chain may do anything but evaluate its test."""
        if first:
            return True
        for i in blocks[bid]["elems"]:
            e = exprs[i]
            if e["k"] in ("asg", "call", "decl", "ret") or (e["k"] == "un" and e["op"] in ("++", "--")):
                return False
        return True
    done = set()
    n_sw = 0
    for b in list(fd["blocks"]):
        hid = b["id"]
        if hid in done:
            continue
        t0 = test(hid)
        if t0 is None:
            continue
        key = t0[0]
        # not a head: the only way in is the test of the same value just before
        ps = preds.get(hid, [])
        if ps and all((test(p) or (None,))[0] == key and p != hid for p in ps) and pure(hid, False):
            continue
        cases = []          # (lo, hi, target)
        cur, first = hid, True
        chain = []
        default = None
        while True:
            tt = test(cur)
            if tt is None or tt[0] != key or not pure(cur, first) or (not first and len(preds.get(cur, [])) != 1
                                                                      and not all(p in chain for p in preds.get(cur, []))):
                default = cur
                break
            k_, a, op, c, T, F = tt
            chain.append(cur)
            first = False
            if op == "==":
                cases.append((c, c, T))
                cur = F
            elif op == "!=":
                cases.append((c, c, F))
                cur = T
            elif op in (">=", ">") :
                # lo <= S && S <= hi : the T successor tests the upper bound and shares the F successor
                lo = c if op == ">=" else c + 1
                t2 = test(T)
                if t2 is not None and t2[0] == key and t2[2] in ("<=", "<") and t2[5] == F and pure(T, False):
                    hi = t2[3] if t2[2] == "<=" else t2[3] - 1
                    chain.append(T)
                    cases.append((lo, hi, t2[4]))
                    cur = F
                else:
                    # open-ended: S >= lo (up to the largest value of the type)
                    cases.append((lo, lo + 65535, T))       # a window, not the type range: rules enumerate case values
                    cur = F
            elif op in ("<=", "<"):
                hi = c if op == "<=" else c - 1
                cases.append((hi - 65535, hi, T))
                cur = F
            else:
                chain.pop()
                default = cur
                break
            if cur in chain:
                default = None
                break
        if len(cases) < 2 or default is None:
            continue
        # the first match wins in a chain: a later test only gets what the earlier ones left over
        # (`0 == c; else c <= 14` is case 0 and case 1 ... 14)
        disjoint = []
        for lo, hi, tgt in cases:
            parts = [(lo, hi)]
            for plo, phi, _t in disjoint:
                nparts = []
                for a_, b_ in parts:
                    if phi < a_ or b_ < plo:
                        nparts.append((a_, b_))
                        continue
                    if a_ < plo:
                        nparts.append((a_, plo - 1))
                    if phi < b_:
                        nparts.append((phi + 1, b_))
                parts = nparts
            for a_, b_ in parts:
                disjoint.append((a_, b_, tgt))
        cases = disjoint
        if len(cases) > 40:
            continue
        head = blocks[hid]
        line = (head.get("term") or {}).get("line", 0)
        succs = []
        for lo, hi, tgt in cases:
            nid = nxt[0]
            nxt[0] += 1
            nb = {"id": nid, "elems": [], "succs": [tgt], "label": {"case": [lo, hi]}}
            fd["blocks"].append(nb)
            blocks[nid] = nb
            succs.append(nid)
        nid = nxt[0]
        nxt[0] += 1
        nb = {"id": nid, "elems": [], "succs": [default], "label": {"default": 1}}
        fd["blocks"].append(nb)
        blocks[nid] = nb
        succs.append(nid)
        head["term"] = {"kind": "SwitchStmt", "cond": t0[1], "line": line, "n8": 1}
        head["succs"] = succs
        done.update(chain)
        n_sw += 1
    if n_sw:
        log.add("N8", "%s(): %d if / else-if chain(s) over one value read as switch statement(s)" % (fd["name"], n_sw))


# --------------------------------------------------------------------------
# N7 a branch on a substituted flag is a branch on the flag's condition

def _expand_flag_branches(fd, log):
    """`ok = !(a || b); ... if (!ok)` after N4 reads `if (!!(a || b))` in a single block.  The code the tables were
    confirmed on branches on a and on b in blocks of their own (short-circuit evaluation), and rules that look at the
    edges of one comparison need that shape: the block is split into one block per leaf condition."""
    exprs = fd["exprs"]
    n = 0
    nxt = [max(b["id"] for b in fd["blocks"]) + 1]
    new_blocks = []

    def has_subst(i, depth=0):
        if i is None or i < 0 or depth > 30:
            return False
        e = exprs[i]
        if e.get("subst"):
            return True
        return any(has_subst(c, depth + 1) for c in (e.get("c") or []))

    def strip(i):
        k = 0
        while i is not None and i >= 0 and k < 50:
            e = exprs[i]
            if e["k"] in ("cast", "opaque") and e.get("c"):
                i = e["c"][0]
            elif e["k"] == "call" and e.get("callee") == "__builtin_expect" and e.get("c"):
                i = e["c"][0]
            else:
                return i
            k += 1
        return i

    BOOLOPS = ("&&", "||", "<", ">", "<=", ">=", "==", "!=")

    def zero_test(e):
        """(operand, negated) for `x == 0` / `0 == x` / `x != 0` when x is itself a truth value."""
        if e["k"] == "bin" and e["op"] in ("==", "!="):
            for a, b in ((e["c"][0], e["c"][1]), (e["c"][1], e["c"][0])):
                be = exprs[strip(b)]
                if be.get("v") == 0 and be["k"] in ("int", "cast"):
                    ae = exprs[strip(a)]
                    if (ae["k"] == "un" and ae["op"] == "!") or (ae["k"] == "bin" and ae["op"] in BOOLOPS):
                        return a, e["op"] == "=="
        return None

    def composite(i):
        e = exprs[strip(i)]
        if zero_test(e):
            return True
        return (e["k"] == "un" and e["op"] == "!") or (e["k"] == "bin" and e["op"] in ("&&", "||"))

    def build(i, T, F, line):
        j = strip(i)
        e = exprs[j]
        if e["k"] == "un" and e["op"] == "!":
            return build(e["c"][0], F, T, line)
        zt = zero_test(e)
        if zt:
            return build(zt[0], F, T, line) if zt[1] else build(zt[0], T, F, line)
        if e["k"] == "bin" and e["op"] == "||":
            b = build(e["c"][1], T, F, line)
            return build(e["c"][0], T, b, line)
        if e["k"] == "bin" and e["op"] == "&&":
            b = build(e["c"][1], T, F, line)
            return build(e["c"][0], b, F, line)
        bid = nxt[0]
        nxt[0] += 1
        new_blocks.append({"id": bid, "elems": [j], "succs": [T, F],
                           "term": {"kind": "IfStmt", "cond": j, "line": e.get("line", line)}})
        return bid
    for blk in fd["blocks"]:
        t = blk.get("term")
        if not t or "cond" not in t or t.get("kind") != "IfStmt" or len(blk["succs"]) != 2 or None in blk["succs"]:
            continue
        c = t["cond"]
        if c is None or c < 0 or not composite(c) or not has_subst(c):
            continue
        T, F = blk["succs"]
        entry = build(c, T, F, t.get("line", 0))
        blk["succs"] = [entry]
        blk.pop("term")
        n += 1
    if n:
        fd["blocks"].extend(new_blocks)
        log.add("N7", "%s(): %d branch(es) on a substituted flag split into their leaf conditions" % (fd["name"], n))


# --------------------------------------------------------------------------
# N6 `x % 2^k`, `x / 2^k` of a value that cannot be negative are `x & (2^k - 1)`, `x >> k`

def _nonneg_operand(fd, i):
    """The operand's value cannot be negative by its type: unsigned, or a narrower unsigned type promoted to int."""
    exprs = fd["exprs"]
    e = exprs[i]
    it = e.get("it")
    if it and not it[1]:
        return True
    n = 0
    while e["k"] == "cast" and e.get("c") and n < 8:
        n += 1
        src = exprs[e["c"][0]]
        sit = src.get("it")
        if e.get("ck") == "IntegralCast" and sit and not sit[1] and it and sit[0] < it[0]:
            return True
        if e.get("ck") not in ("LValueToRValue", "NoOp", "IntegralCast"):
            return False
        if e.get("ck") == "IntegralCast" and not (sit and it and sit[0] <= it[0]):
            return False
        e = src
        it = e.get("it")
        if it and not it[1]:
            return True
    return False


def _strength_forms(fd, log):
    exprs = fd["exprs"]
    n = 0
    for e in exprs:
        if e["k"] != "bin" or e.get("op") not in ("%", "/") or "v" in e:
            continue
        r = exprs[_strip(fd, e["c"][1])] if e["c"][1] is not None and e["c"][1] >= 0 else None
        rc = exprs[e["c"][1]]
        v = rc.get("v", r.get("v") if r else None)
        if not isinstance(v, int) or v <= 1 or v & (v - 1):
            continue
        if not _nonneg_operand(fd, e["c"][0]):
            continue
        k = v.bit_length() - 1
        # the constant node is shared by nobody else: rewrite it in place
        tgt = rc
        while tgt["k"] == "cast" and tgt.get("c"):
            tgt["v"] = (v - 1) if e["op"] == "%" else k
            tgt = exprs[tgt["c"][0]]
        tgt["v"] = (v - 1) if e["op"] == "%" else k
        e["op"] = "&" if e["op"] == "%" else ">>"
        e["n6"] = 1
        n += 1
    if n:
        log.add("N6", "%s(): %d division(s)/remainder(s) by a power of two of a non-negative value read as shift/mask" % (fd["name"], n))


# --------------------------------------------------------------------------
# N5 `x = x op e` is `x op= e`

_COMPOUND = {"+": True, "-": False, "|": True, "&": True, "^": True, "*": True, "<<": False, ">>": False}


def _strip(fd, i):
    """Skip casts, parentheses and value-preserving wrappers."""
    exprs = fd["exprs"]
    n = 0
    while i is not None and i >= 0 and n < 50:
        e = exprs[i]
        if e["k"] in ("cast", "opaque") and e.get("c") and (e["k"] == "opaque" or e.get("impl")
                                                             or e.get("ck") in ("LValueToRValue", "NoOp", "IntegralCast")):
            i = e["c"][0]
        elif e["k"] == "un" and e["op"] in ("__extension__", "+") and e.get("c"):
            i = e["c"][0]
        else:
            return i
        n += 1
    return i


def _skey(fd, i, depth=0):
    """Structural key of a side-effect free lvalue/rvalue (None when it has side effects)."""
    i = _strip(fd, i)
    if i is None or i < 0 or depth > 12:
        return None
    e = fd["exprs"][i]
    k = e["k"]
    if k == "int":
        return ("int", e.get("v"))
    if k == "ref":
        return ("ref", e.get("dk"), e.get("did"), e["name"])
    if k == "mem":
        b = _skey(fd, e["c"][0], depth + 1)
        return None if b is None else ("mem", e["member"], bool(e.get("arrow")), b)
    if k == "idx":
        a, b = _skey(fd, e["c"][0], depth + 1), _skey(fd, e["c"][1], depth + 1)
        return None if a is None or b is None else ("idx", a, b)
    if k == "un" and e["op"] in ("*", "&", "-", "~", "!"):
        b = _skey(fd, e["c"][0], depth + 1)
        return None if b is None else ("un", e["op"], b)
    if k == "bin" and e["op"] not in ("=", ",", "&&", "||"):
        a, b = _skey(fd, e["c"][0], depth + 1), _skey(fd, e["c"][1], depth + 1)
        return None if a is None or b is None else ("bin", e["op"], a, b)
    if "v" in e and k in ("sizeof", "cast"):
        return ("int", e["v"])
    return None


def _compound_assignments(fd, log):
    exprs = fd["exprs"]
    n = 0
    for e in exprs:
        if e["k"] != "asg" or e.get("op") != "=":
            continue
        lk = _skey(fd, e["c"][0])
        if lk is None:
            continue
        r = _strip(fd, e["c"][1])
        if r is None or r < 0:
            continue
        b = exprs[r]
        if b["k"] != "bin" or b.get("op") not in _COMPOUND or "v" in b:
            continue
        if _skey(fd, b["c"][0]) == lk:
            other = b["c"][1]
        elif _COMPOUND[b["op"]] and _skey(fd, b["c"][1]) == lk:
            other = b["c"][0]
        else:
            continue
        e["op"] = b["op"] + "="
        e["c"] = [e["c"][0], other]
        e["n5"] = 1
        n += 1
    if n:
        log.add("N5", "%s(): %d assignment(s) `x = x op e` read as `x op= e`" % (fd["name"], n))


# --------------------------------------------------------------------------
# N4 copy propagation for locals the inventory does not know

def _propagate_new_locals(fd, known, log):
    if fd.get("cfg_failed"):
        return
    exprs = fd["exprs"]
    known_locals = set(known["locals"]) if known else None
    if known_locals is None and not fd.get("inlined"):
        # a function the inventory does not know at all and that was not inlined: leave it as it is
        return
    # N4c: a local that vanished while a new one of the same type appeared is the same local under a new name
    if known is not None:
        cur = {}
        for e in exprs:
            if e["k"] == "decl" and not e.get("inl"):
                for v in e.get("vars", []):
                    cur[v["name"]] = v
        gone = {n: t for n, t in known["locals"].items() if n not in cur}
        new = {n: v for n, v in cur.items() if n not in known["locals"]}
        ren = {}
        for n, v in new.items():
            same = [g for g, t in gone.items() if t == v.get("t")]
            rivals = [m for m, w in new.items() if w.get("t") == v.get("t")]
            if len(same) == 1 and len(rivals) == 1:
                ren[v["did"]] = (n, same[0])
        if ren:
            for e in exprs:
                if e["k"] == "ref" and e.get("did") in ren and e.get("dk") == "local":
                    e["name"] = ren[e["did"]][1]
                elif e["k"] == "decl":
                    for v in e.get("vars", []):
                        if v.get("did") in ren:
                            v["name"] = ren[v["did"]][1]
            log.add("N4c", "%s(): %s" % (fd["name"], ", ".join("local %s is %s under a new name" % x for x in sorted(ren.values()))))
            # the renamed local may just as well be a new temporary that happens to have the type of one that was
            # removed: it stays a candidate for N4 (a single pure definition is propagated, whatever it is called)
            known_locals = set(known["locals"]) - {old for _new, old in ren.values()}
    cands = {}
    for i, e in enumerate(exprs):
        if e["k"] == "decl":
            for v in e.get("vars", []):
                if (known_locals is None or v["name"] not in known_locals or e.get("inl")) and "[" not in v.get("t", ""):
                    cands[v["did"]] = v
    # result temporaries of inlined calls
    for i, e in enumerate(exprs):
        if e["k"] == "asg" and e.get("inl_ret"):
            r = exprs[e["c"][0]]
            cands.setdefault(r["did"], {"name": r["name"], "did": r["did"], "t": r.get("t", "")})
    if not cands:
        return
    blocks = {b["id"]: b for b in fd["blocks"]}
    pos = {}
    for b in fd["blocks"]:
        for n, i in enumerate(b["elems"]):
            pos.setdefault(i, (b["id"], n))
    parent = {}
    for i, e in enumerate(exprs):
        for c in e.get("c", []) or []:
            if c is not None and c >= 0:
                parent.setdefault(c, i)
        if e["k"] == "decl":
            for v in e.get("vars", []):
                if "init" in v and v["init"] is not None and v["init"] >= 0:
                    parent.setdefault(v["init"], i)
    # definitions and uses
    defs = {d: [] for d in cands}
    uses = {d: [] for d in cands}
    bad = set()
    for i, e in enumerate(exprs):
        k = e["k"]
        if k == "decl":
            for v in e.get("vars", []):
                if v["did"] in cands and "init" in v:
                    defs[v["did"]].append((i, v["init"]))
        elif k == "asg":
            l = exprs[e["c"][0]]
            if l["k"] == "ref" and l.get("did") in cands:
                if e["op"] == "=":
                    defs[l["did"]].append((i, e["c"][1]))
                else:
                    bad.add(l["did"])
        elif k == "un" and e["op"] in ("++", "--", "&"):
            l = exprs[_skip_casts(fd, e["c"][0])]
            if l["k"] == "ref" and l.get("did") in cands:
                bad.add(l["did"])
    for i, e in enumerate(exprs):
        if e["k"] == "ref" and e.get("did") in cands:
            p = parent.get(i)
            if p is not None and exprs[p]["k"] == "asg" and exprs[p]["c"][0] == i:
                continue
            uses[e["did"]].append(i)
    succ = {b["id"]: [s for s in b["succs"] if s is not None] for b in fd["blocks"]}
    if any(b.get("noret") for b in fd["blocks"]):
        for b in fd["blocks"]:
            if b.get("noret"):
                succ[b["id"]] = []
    dom = _dominators(fd, succ)
    n_sub = 0
    names = []
    # parameters of inlined helpers first, then in the order of the definitions
    rpo_ix = {}
    for n, b in enumerate(_rpo(fd, succ)):
        rpo_ix[b] = n

    def order(d):
        if len(defs[d]) != 1 or defs[d][0][0] not in pos:
            return (2, 0, 0)
        e = exprs[defs[d][0][0]]
        bid, n = pos[defs[d][0][0]]
        return (0 if e.get("inl_param") else 1, rpo_ix.get(bid, 1 << 20), n)
    for d in sorted(cands, key=order):
        v = cands[d]
        if d in bad or len(defs[d]) != 1:
            continue
        di, rhs = defs[d][0]
        if rhs is None or rhs < 0 or di not in pos:
            continue
        info = _pure_info(fd, rhs)
        if info is None:
            continue
        dbid, dn = pos[di]
        # N4b: the definition re-reads what a known local already holds -> the new local is that local
        al = _known_alias(fd, exprs, blocks, pos, succ, dom, cands, rhs, info, dbid, dn)
        if al is not None:
            kref = copy.deepcopy(al)
            kref["line"] = exprs[rhs].get("line", kref.get("line"))
            exprs.append(kref)
            rhs = len(exprs) - 1
            info = ({al.get("did")}, set(), False)
        def upos(ui):
            up = _elem_of(ui, pos, parent)
            return (rpo_ix.get(up[0], 1 << 20), up[1]) if up else (1 << 21, 0)
        for ui in sorted(uses[d], key=upos):
            up = _elem_of(ui, pos, parent)
            if up is None:
                continue
            ubid, un = up
            if ubid == dbid:
                if un <= dn:
                    continue
                span = [(dbid, dn + 1, un)]
            else:
                if not _dom(dom, dbid, ubid):
                    continue
                fwd = _reach(succ, succ.get(dbid, []), avoid={dbid})
                back = _reach_back(succ, ubid, avoid={dbid})
                mid = (fwd & back) - {ubid}
                span = [(dbid, dn + 1, None), (ubid, 0, un)] + [(m, 0, None) for m in mid]
                if ubid in _reach(succ, succ.get(ubid, []), avoid={dbid}):
                    span.append((ubid, 0, None))      # the use sits in a loop that does not pass the definition again
            if _killed(fd, blocks, span, info, _skey(fd, rhs)):
                continue
            u = exprs[ui]
            ln = u.get("line")
            src = exprs[rhs]
            u.clear()
            u.update(copy.deepcopy(src))
            u["subst"] = v["name"]
            if ln is not None:
                u["line"] = ln
            n_sub += 1
            names.append(v["name"])
    if n_sub:
        log.add("N4", "%s(): %d use(s) of new temporaries replaced by their definition (%s)"
                % (fd["name"], n_sub, ", ".join(sorted(set(names)))))


def _known_alias(fd, exprs, blocks, pos, succ, dom, cands, rhs, info, dbid, dn):
    key = _skey(fd, rhs)
    if key is None or key[0] in ("int", "ref"):
        return None
    for i, e in enumerate(exprs):
        if e["k"] != "asg" or e.get("op") != "=" or i not in pos:
            continue
        l = exprs[_strip(fd, e["c"][0])]
        if l["k"] != "ref" or l.get("dk") not in ("local", "param") or l.get("did") in cands:
            continue
        if _skey(fd, e["c"][1]) != key:
            continue
        kb, kn = pos[i]
        if kb == dbid:
            if kn >= dn:
                continue
            span = [(kb, kn + 1, dn)]
        else:
            if not _dom(dom, kb, dbid):
                continue
            fwd = _reach(succ, succ.get(kb, []), avoid={kb})
            back = _reach_back(succ, dbid, avoid={kb})
            mid = (fwd & back) - {dbid}
            span = [(kb, kn + 1, None), (dbid, 0, dn)] + [(m, 0, None) for m in mid]
            if dbid in _reach(succ, succ.get(dbid, []), avoid={kb}):
                span.append((dbid, 0, None))
        loc, mem, other = info
        if _killed(fd, blocks, span, (set(loc) | {l.get("did")}, mem, other)):
            continue
        return l
    return None


def _elem_of(i, pos, parent):
    seen = 0
    while i is not None and seen < 200:
        if i in pos:
            return pos[i]
        i = parent.get(i)
        seen += 1
    return None


def _pure_info(fd, rhs):
    """(locals read, member names read, reads other memory) of a side-effect free expression, else None."""
    exprs = fd["exprs"]
    loc, mem, other = set(), set(), False
    st = [rhs]
    n = 0
    while st:
        i = st.pop()
        if i is None or i < 0:
            continue
        n += 1
        if n > 60:
            return None
        e = exprs[i]
        k = e["k"]
        if k in ("asg", "stmtexpr", "decl", "ret", "initlist", "complit"):
            return None
        if k == "un" and e["op"] in ("++", "--"):
            return None
        if k == "call":
            if e.get("callee") not in PURE_EXTERNALS:
                return None
        if k == "ref":
            if e.get("dk") in ("local", "param"):
                loc.add(e.get("did"))
            elif e.get("dk") in ("global", "slocal"):
                mem.add("::" + e["name"])
        elif k == "mem":
            mem.add(e["member"])
        elif k == "idx" or (k == "un" and e["op"] == "*"):
            other = True
        st.extend(e.get("c", []) or [])
    return loc, mem, other


def _killed(fd, blocks, span, info, selfkey=None):
    loc, mem, other = info
    exprs = fd["exprs"]
    reads_memory = bool(mem) or other
    for bid, a, b in span:
        el = blocks[bid]["elems"]
        for i in el[a:(b if b is not None else len(el))]:
            e = exprs[i]
            k = e["k"]
            tgt = None
            if k == "asg":
                tgt = e["c"][0]
                if selfkey is not None and e.get("op") == "=" and _skey(fd, e["c"][1]) == selfkey:
                    # storing the expression's own current value somewhere cannot change it: either the target is another
                    # object, or it is the object read and receives the value it already has
                    t0 = fd["exprs"][_skip_casts(fd, tgt)]
                    if not (t0["k"] == "ref" and t0.get("did") in loc):
                        continue
            elif k == "un" and e["op"] in ("++", "--"):
                tgt = e["c"][0]
            elif k == "decl":
                for v in e.get("vars", []):
                    if v["did"] in loc and "init" in v:
                        return True
                continue
            elif k == "call":
                if e.get("callee") in PURE_EXTERNALS:
                    continue
                if reads_memory:
                    return True
                # a call can change a local only through its address
                for c in e.get("c", []) or []:
                    j = _skip_casts(fd, c)
                    if exprs[j]["k"] == "un" and exprs[j]["op"] == "&":
                        r = exprs[_skip_casts(fd, exprs[j]["c"][0])]
                        if r["k"] == "ref" and r.get("did") in loc:
                            return True
                continue
            else:
                continue
            t = exprs[_skip_casts(fd, tgt)]
            while t["k"] == "idx":
                # a store into an element of an array member is a store to that member
                t = exprs[_skip_casts(fd, t["c"][0])]
                if t["k"] != "mem" and not (t["k"] == "ref" and "[" in t.get("t", "")):
                    t = {"k": "?"}
                    break
            if t["k"] == "ref":
                if t.get("dk") in ("local", "param"):
                    if t.get("did") in loc:
                        return True
                elif ("::" + t["name"]) in mem or other:
                    return True
            elif t["k"] == "mem":
                if t["member"] in mem or (other and "arr" not in t):
                    return True
                if other:
                    return True
            else:
                if reads_memory:
                    return True
    return False


def _reach(succ, starts, avoid=()):
    seen = set()
    st = list(starts)
    while st:
        n = st.pop()
        if n in seen or n in avoid:
            continue
        seen.add(n)
        st.extend(succ.get(n, []))
    return seen


def _reach_back(succ, target, avoid=()):
    pred = {}
    for a, ss in succ.items():
        for s in ss:
            pred.setdefault(s, []).append(a)
    seen = set()
    st = [target]
    while st:
        n = st.pop()
        if n in seen or n in avoid:
            continue
        seen.add(n)
        st.extend(pred.get(n, []))
    return seen


def _rpo(fd, succ):
    entry = fd["entry"]
    order, seen = [], {entry}
    stack = [(entry, iter(succ.get(entry, [])))]
    while stack:
        n, it = stack[-1]
        adv = False
        for x in it:
            if x not in seen:
                seen.add(x)
                stack.append((x, iter(succ.get(x, []))))
                adv = True
                break
        if not adv:
            order.append(n)
            stack.pop()
    order.reverse()
    return order


def _dominators(fd, succ):
    entry = fd["entry"]
    order = []
    seen = {entry}
    stack = [(entry, iter(succ.get(entry, [])))]
    while stack:
        n, it = stack[-1]
        adv = False
        for s in it:
            if s not in seen:
                seen.add(s)
                stack.append((s, iter(succ.get(s, []))))
                adv = True
                break
        if not adv:
            order.append(n)
            stack.pop()
    order.reverse()
    idx = {n: k for k, n in enumerate(order)}
    preds = {n: [] for n in order}
    for n in order:
        for s in succ.get(n, []):
            if s in preds:
                preds[s].append(n)
    idom = {entry: entry}
    changed = True
    while changed:
        changed = False
        for n in order[1:]:
            new = None
            for p in preds[n]:
                if p in idom:
                    if new is None:
                        new = p
                    else:
                        a, b = p, new
                        while a != b:
                            while idx[a] > idx[b]:
                                a = idom[a]
                            while idx[b] > idx[a]:
                                b = idom[b]
                        new = a
            if new is not None and idom.get(n) != new:
                idom[n] = new
                changed = True
    return idom


def _dom(idom, a, b):
    n = b
    if n not in idom:
        return False
    while True:
        if n == a:
            return True
        if idom[n] == n:
            return False
        n = idom[n]
