"""Program-wide analysis context: memoised per-function interval analyses,
return-value ranges, constant-table ranges, parameter joins over call sites."""
from . import absint, ex, flow, prog as prog_mod, summaries


class Context:
    def __init__(self, program=None):
        self.prog = program or prog_mod.load()
        self.sums = summaries.Summaries(self.prog)
        self._an = {}
        self._ret = {}
        self._busy = set()
        self._gtab = {}
        self.field_inv = {}      # (rec, field) -> interval, filled by fieldinv
        self.arg_assume = {}     # (caller, callee, param) -> (frozenset of field names in the argument, interval, reason)
        self.arg_assume_used = set()
        self.stats = {"analyses": 0}

    # ---- analyses --------------------------------------------------------------
    def analysis(self, f, contextual=True):
        """Interval analysis of f.  With contextual=True parameters of static,
        non-address-taken functions start from the join of their call sites."""
        key = (f.key, contextual)
        if key in self._an:
            return self._an[key]
        if key in self._busy:
            return None
        self._busy.add(key)
        try:
            piv = self.param_intervals(f) if contextual else {}
            a = absint.Analysis(self, f, piv).run()
            self.stats["analyses"] += 1
            self._an[key] = a
            return a
        finally:
            self._busy.discard(key)

    def param_intervals(self, f):
        if not f.static or f.name in self.sums.addr_taken or f.file.endswith(".h"):
            return {}
        callers = self.sums.callers.get(f.key, [])
        if not callers:
            return {}
        res = {}
        for n, p in enumerate(f.params):
            if "it" not in p:
                continue
            iv = None
            for cf, ce in callers:
                if cf.key == f.key:
                    continue       # recursion: joined through the other callers
                a = self.analysis(cf, True)
                e = cf.exprs[ce]
                args = e.get("c", [])
                if a is None or n >= len(args):
                    iv = (None, None)
                    break
                st = a.state_before_expr(ce)
                if st is None:
                    continue       # unreachable call site
                v = absint.wrap(a.eval(st, args[n]), p.get("it"))
                asm = self.arg_assume.get((cf.name, f.name, p["name"]))
                if asm is not None:
                    from . import atoms
                    flds = frozenset(x.split(".")[-1] for x in atoms.Operand(cf, args[n]).fields)
                    if flds == asm[0]:
                        v = absint.meet(v, asm[1])
                        self.arg_assume_used.add((cf.name, f.name, p["name"]))
                iv = v if iv is None else absint.hull(iv, v)
            if iv is not None and iv != (None, None):
                res[p["name"]] = iv
        # self-recursive calls must stay within the join as well; if not, drop
        return res

    # ---- value sources ---------------------------------------------------------
    def global_table_range(self, name):
        if name in self._gtab:
            return self._gtab[name]
        r = None
        for g in self.prog.globals.get(name, []):
            if "init" not in g:
                continue
            if not g.get("const") and not (g.get("static") and self.never_written(name, g.get("unit"))):
                continue
            vals = []
            ok = self._flatten(g["exprs"], g["init"], vals)
            if ok and vals:
                r = (min(vals), max(vals))
                break
        self._gtab[name] = r
        return r

    def global_table_values(self, name):
        """Flattened initialiser values of the (defined) global table `name`, or None."""
        for g in self.prog.globals.get(name, []):
            if "init" not in g:
                continue
            vals = []
            if self._flatten(g["exprs"], g["init"], vals):
                return vals, g
        return None, None

    def global_column_range(self, name, field):
        """Range of member `field` over the elements of a constant table of records."""
        for g in self.prog.globals.get(name, []):
            if "init" not in g:
                continue
            exprs = g["exprs"]
            top = exprs[g["init"]]
            if top["k"] != "initlist":
                continue
            rec = None
            from . import fieldinv
            rec = fieldinv.rec_of_type(self.prog, g.get("t"))
            if rec is None:
                continue
            names = [x["name"] for x in self.prog.records[rec]["fields"]]
            if field not in names:
                continue
            k = names.index(field)
            vals = []
            for c in top.get("c", []):
                el = exprs[c]
                if el["k"] != "initlist" or k >= len(el.get("c", [])):
                    if el["k"] == "zeroinit" or (el["k"] == "initlist" and not el.get("c")):
                        vals.append(0)
                        continue
                    return None
                out = []
                if not self._flatten(exprs, el["c"][k], out):
                    return None
                vals.extend(out)
            if top.get("filler"):
                vals.append(0)
            if vals:
                return (min(vals), max(vals))
        return None

    def never_written(self, name, unit):
        """A `static` table that no code of its unit stores to or hands out by
        (non-const) address is as good as const."""
        c = self.__dict__.setdefault("_never_written", {})
        k = (name, unit)
        if k in c:
            return c[k]
        ok = True
        for f in self.prog.funcs:
            if f.unit != unit:
                continue
            for i, e in enumerate(f.exprs):
                if e["k"] == "ref" and e.get("name") == name and e.get("dk") in ("global", "slocal"):
                    if not self._read_only_use(f, i):
                        ok = False
                        break
            if not ok:
                break
        c[k] = ok
        return ok

    def _read_only_use(self, f, ref):
        """The ref node is only subscripted and read (a[i] as an rvalue)."""
        par = f._cache.get("parents")
        if par is None:
            par = {}
            for j, e in enumerate(f.exprs):
                for c in e.get("c", []) or []:
                    if isinstance(c, int) and c >= 0:
                        par.setdefault(c, j)
            f._cache["parents"] = par
        n = ref
        seen_idx = False
        for _ in range(12):
            p = par.get(n)
            if p is None:
                return False
            pe = f.exprs[p]
            if pe["k"] == "cast" and pe["ck"] in ("ArrayToPointerDecay", "NoOp"):
                n = p
                continue
            if pe["k"] == "idx" and ex.skip(f, pe["c"][0]) in (n, ex.skip(f, n)):
                seen_idx = True
                n = p
                if "it" in pe:
                    pp = par.get(n)
                    return pp is not None and f.exprs[pp]["k"] == "cast" and f.exprs[pp]["ck"] == "LValueToRValue"
                continue
            if pe["k"] == "sizeof" or (pe["k"] == "cast" and pe["ck"] == "LValueToRValue" and seen_idx):
                return True
            return False
        return False

    def _flatten(self, exprs, i, out, depth=0):
        e = exprs[i]
        if "values" in e:
            out.extend(e["values"])
            return True
        if e["k"] == "initlist":
            if e.get("elided"):
                return False
            for c in e.get("c", []):
                if not self._flatten(exprs, c, out, depth + 1):
                    return False
            if e.get("filler"):
                out.append(0)
            return True
        if e["k"] == "zeroinit":
            out.append(0)
            return True
        if "v" in e:
            out.append(e["v"])
            return True
        if e["k"] == "cast" and e.get("c"):
            return self._flatten(exprs, e["c"][0], out, depth + 1)
        if e["k"] == "str":
            # string literal initialising a char array: all byte values possible
            out.extend([0, 255] if "unsigned" in e.get("t", "") else [-128, 127])
            return True
        return False

    def load_range(self, an, f, i, st):
        """Range of an untracked load: constant global tables, field invariants."""
        e = f.exprs[i]
        if e["k"] == "idx":
            r = ex.root(f, i)
            if r is not None:
                re_ = f.exprs[r]
                if re_.get("dk") in ("global", "slocal") and e.get("it"):
                    # only an element of the table itself (not through a pointer field)
                    p = ex.path(f, i)
                    if p and "->" not in p and "." not in p:
                        return self.global_table_range(re_["name"])
        if e["k"] == "mem":
            inv = self.field_inv.get((e.get("in"), e["member"]))
            if inv is not None:
                return inv
        if e["k"] == "idx":
            # element of an array field with an invariant
            b = ex.skip(f, e["c"][0])
            be = f.exprs[b]
            if be["k"] == "mem":
                inv = self.field_inv.get((be.get("in"), be["member"]))
                if inv is not None:
                    return inv
        return None

    def call_range(self, an, f, i, st):
        e = f.exprs[i]
        n = e.get("callee")
        if not n:
            return None
        if n == "__builtin_expect":
            return an.eval(st, e["c"][0])
        if n in ("abs", "labs"):
            v = an.eval(st, e["c"][0])
            if None not in v:
                lo = 0 if v[0] <= 0 <= v[1] else min(abs(v[0]), abs(v[1]))
                return (lo, max(abs(v[0]), abs(v[1])))
            return (0, None)
        t = self.prog.func_for(f, n)
        if t is None:
            return None
        r = self.ret_range(t)
        # a small helper called with constant arguments (get_bits (&bs, 3)): its
        # return range for exactly these arguments
        if "it" in t.ret and len(t.blocks) <= 60 and e.get("c"):
            piv = {}
            for k, p in enumerate(t.params):
                if k < len(e["c"]) and "it" in p:
                    v = an.eval(st, e["c"][k])
                    if v[0] is not None and v[0] == v[1]:
                        piv[p["name"]] = v
            if piv:
                r2 = self.ret_range_for(t, piv)
                if r2 is not None:
                    r = r2 if r is None else absint.meet(r, r2)
        return r

    def ret_range_for(self, t, piv):
        key = (t.key, tuple(sorted(piv.items())))
        c = self.__dict__.setdefault("_ret_ctx", {})
        if key in c:
            return c[key]
        if ("retc", key) in self._busy:
            return None
        self._busy.add(("retc", key))
        try:
            c[key] = None
            a = absint.Analysis(self, t, piv).run()
            self.stats["analyses"] += 1
            r = None
            for bid, i in flow.all_events(t):
                e = t.exprs[i]
                if e["k"] == "ret" and e.get("c"):
                    st = a.state_before(i)
                    if st is None:
                        continue
                    v = absint.wrap(a.eval(st, e["c"][0]), t.ret.get("it"))
                    r = v if r is None else absint.hull(r, v)
            c[key] = r
            return r
        finally:
            self._busy.discard(("retc", key))

    def ret_range(self, t):
        if t.key in self._ret:
            return self._ret[t.key]
        if "it" not in t.ret:
            self._ret[t.key] = None
            return None
        if ("ret", t.key) in self._busy or len(t.blocks) > 400:
            return None
        self._busy.add(("ret", t.key))
        try:
            a = self.analysis(t, False)
            r = None
            if a is not None:
                for bid, i in flow.all_events(t):
                    e = t.exprs[i]
                    if e["k"] == "ret" and e.get("c"):
                        st = a.state_before(i)
                        if st is None:
                            continue
                        v = a.eval(st, e["c"][0])
                        v = absint.wrap(v, t.ret.get("it"))
                        r = v if r is None else absint.hull(r, v)
            self._ret[t.key] = r
            return r
        finally:
            self._busy.discard(("ret", t.key))

    def note_ptr_init(self, an, st, v):
        pass
