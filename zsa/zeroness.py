"""Path-sensitive zero-ness analysis (RF-DEP over counters and flags).

A reassembler keeps its progress in a handful of counters ("bytes still to do", "bytes of this
packet still to consume") and flags whose *zero-ness* steers it: `0 == todo` means the packet is
complete, `consume > 0` means the copy branch runs.  Which branch examines a completed packet is
decided by correlations between these - a relation an interval (non-relational) domain cannot
hold.  This engine keeps, per program point, a *set of valuations*; a valuation maps each tracked
variable to Z (zero) / N (non-zero) or leaves it open, plus the rule's own marks.  The set is
finite, union is the join, loops need no widening.

  tracked variables   fields named by the rule (by the text of their access path) and the locals
                      the function copies them to or computes from them with a boolean expression
  stores              `x = const`, `x = y` (copy, both sides split so that they stay correlated),
                      `x = <boolean expression over tracked variables>` (split by its truth);
                      every other store leaves x open
  calls               a callee that may write a tracked field (summaries.call_writes) opens it
  branches            conditions are refined recursively through !, &&, ||, comparisons of a
                      tracked variable with 0 and bare truth tests; an edge contradicting the
                      valuation is pruned

A rule provides:  spec.store (f, i, key, op, rhs, val) -> val      (marks only)
                  spec.call (f, i, e, val) -> val
                  spec.check (f, i, val) -> message or None          (at every event)
"""
from . import ex, flow

Z, N = "Z", "N"


def vget(val, key):
    for k, v in val:
        if k == key:
            return v
    return None


def vset(val, key, v):
    out = [(k, x) for k, x in val if k != key]
    if v is not None:
        out.append((key, v))
    return frozenset(out)


class Analysis:
    def __init__(self, ctx, f, fields, spec, unsigned_only=True):
        """fields: {suffix of the pretty access path: key}"""
        self.ctx, self.f, self.spec = ctx, f, spec
        self.fields = fields
        self.meta = {}           # key -> (record, member) for callee write tokens
        self.locals = self._discover_locals()
        self.violations = []
        self.IN = None

    # ---- keys -----------------------------------------------------------------
    def key_of(self, i):
        f = self.f
        j = ex.skip(f, i)
        if j is None or j < 0:
            return None
        e = f.exprs[j]
        if e["k"] == "cast" and e["ck"] in ("IntegralCast", "IntegralToBoolean"):
            return self.key_of(e["c"][0])
        if e["k"] == "mem":
            p = ex.pretty(f, j)
            for suf, key in self.fields.items():
                if p.endswith(suf):
                    self.meta[key] = (e.get("in"), e["member"])
                    return key
            return None
        if e["k"] == "ref" and e.get("dk") in ("local", "param") and e["name"] in getattr(self, "locals", ()):
            return ("l", e["name"])
        return None

    def _mentions_tracked(self, i):
        f = self.f
        for j in ex.walk(f, i):
            if self.key_of(j) is not None:
                return True
        return False

    def _discover_locals(self):
        f = self.f
        self.locals = set()
        changed = True
        while changed:
            changed = False
            for bid, i in flow.all_events(f):
                for lhs, var, op, rhs in flow.stores(f, i):
                    if op != "=" or rhs is None:
                        continue
                    if var is not None:
                        name = var["name"]
                    else:
                        l = f.exprs[ex.skip(f, lhs)]
                        if l["k"] != "ref" or l.get("dk") not in ("local", "param"):
                            continue
                        name = l["name"]
                    if name in self.locals:
                        continue
                    if self.key_of(rhs) is not None or (self._is_bool(rhs) and self._mentions_tracked(rhs)):
                        self.locals.add(name)
                        changed = True
        return self.locals

    def _is_bool(self, i):
        f = self.f
        j = ex.skip(f, i)
        e = f.exprs[j]
        while e["k"] == "cast" or e["k"] == "paren":
            j = ex.skip(f, e["c"][0])
            e = f.exprs[j]
        return (e["k"] == "bin" and e["op"] in ("&&", "||", "==", "!=", "<", ">", "<=", ">=")) or (e["k"] == "un" and e["op"] == "!")

    # ---- conditions -----------------------------------------------------------
    def _need(self, val, key, z):
        cur = vget(val, key)
        if cur is None:
            return [vset(val, key, z)]
        return [val] if cur == z else []

    def _unsigned(self, i):
        e = self.f.exprs[ex.skip(self.f, i)]
        it = e.get("it")
        return bool(it) and it[1] == 0

    def refine(self, val, cond, truth):
        """Valuations under which `cond` evaluates to `truth` (list, possibly empty)."""
        f = self.f
        j = ex.skip(f, cond)
        e = f.exprs[j]
        k = e["k"]
        if k == "cast" and e["ck"] in ("IntegralToBoolean", "IntegralCast"):
            return self.refine(val, e["c"][0], truth)
        if k == "paren":
            return self.refine(val, e["c"][0], truth)
        if k == "un" and e["op"] == "!":
            return self.refine(val, e["c"][0], not truth)
        if k == "bin" and e["op"] == ",":
            return self.refine(val, e["c"][1], truth)
        if k == "bin" and e["op"] in ("&&", "||"):
            a, b = e["c"]
            conj = (e["op"] == "&&") == truth
            if conj:
                # both operands have the value `truth`
                out = []
                for v1 in self.refine(val, a, truth):
                    out.extend(self.refine(v1, b, truth))
                return out
            out = list(self.refine(val, a, truth))
            for v1 in self.refine(val, a, not truth):
                out.extend(self.refine(v1, b, truth))
            return list(dict.fromkeys(out))
        if k == "bin" and e["op"] in ("==", "!=", ">", "<", ">=", "<="):
            a, b = e["c"]
            ca, cb = ex.const(f, a), ex.const(f, b)
            op = e["op"]
            if ca == 0 and cb != 0:
                a, b, ca, cb = b, a, cb, ca
                op = {">": "<", "<": ">", ">=": "<=", "<=": ">="}.get(op, op)
            if cb == 0:
                key = self.key_of(a)
                if key is not None:
                    if op == "==":
                        return self._need(val, key, Z if truth else N)
                    if op == "!=":
                        return self._need(val, key, N if truth else Z)
                    if self._unsigned(a):
                        if op == ">":
                            return self._need(val, key, N if truth else Z)
                        if op == "<=":
                            return self._need(val, key, Z if truth else N)
            if cb is not None and cb != 0 and op in ("==",) and truth:
                key = self.key_of(a)
                if key is not None:
                    return self._need(val, key, N)
            return [val]
        key = self.key_of(j)
        if key is not None:
            return self._need(val, key, N if truth else Z)
        return [val]

    # ---- transfer --------------------------------------------------------------
    def _assign(self, val, key, op, rhs):
        if op != "=" or rhs is None:
            return [vset(val, key, None)]
        c = ex.const(self.f, rhs)
        if c is not None:
            return [vset(val, key, Z if c == 0 else N)]
        rk = self.key_of(rhs)
        if rk is not None and rk != key:
            cur = vget(val, rk)
            if cur is not None:
                return [vset(val, key, cur)]
            return [vset(vset(val, rk, Z), key, Z), vset(vset(val, rk, N), key, N)]
        if self._is_bool(rhs) and self._mentions_tracked(rhs):
            base = vset(val, key, None)
            out = [vset(v, key, N) for v in self.refine(base, rhs, True)]
            out += [vset(v, key, Z) for v in self.refine(base, rhs, False)]
            return out
        return [vset(val, key, None)]

    def xfer_elem(self, S, i):
        f = self.f
        if not flow.is_event(f, i):
            return S
        e = f.exprs[i]
        out = set()
        for val in S:
            msg = self.spec.check(f, i, val)
            if msg:
                self.violations.append((i, msg, val))
            vals = [val]
            if e["k"] == "call":
                w = self.ctx.sums.call_writes(f, e)
                nv = []
                for v in vals:
                    for key, (rec, mem) in list(self.meta.items()):
                        if "ALL" in w or ("fld", rec, mem) in w:
                            v = vset(v, key, None)
                    nv.append(self.spec.call(f, i, e, v))
                vals = nv
            for lhs, var, op, rhs in flow.stores(f, i):
                if var is not None:
                    key = ("l", var["name"]) if var["name"] in self.locals else None
                else:
                    key = self.key_of(lhs)
                if key is None:
                    continue
                nv = []
                for v in vals:
                    for v2 in self._assign(v, key, op, rhs):
                        nv.append(self.spec.store(f, i, key, op, rhs, v2))
                vals = nv
            out.update(vals)
        return frozenset(out)

    def xfer_edge(self, S, bid, lab, succ):
        t = self.f.blocks[bid].term
        if not t or "cond" not in t or lab not in ("T", "F"):
            return S
        out = set()
        for val in S:
            out.update(self.refine(val, t["cond"], lab == "T"))
        return frozenset(out) if out else None

    def run(self, init=frozenset()):
        self.violations = []
        self.IN = flow.forward(self.f, frozenset([init]), self.xfer_elem, self.xfer_edge, lambda a, b: a | b, max_visits=400)
        # violations recorded during the fixpoint iteration may come from states that were later
        # subsumed - they are still reachable states (the sets only grow), so all are genuine
        seen, out = set(), []
        for i, msg, val in self.violations:
            if (i, msg) not in seen:
                seen.add((i, msg))
                out.append((i, msg, val))
        self.violations = out
        return self
