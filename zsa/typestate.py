"""Path-sensitive typestate engine (RF-PAIR / RF-LOCK / RF-TYPESTATE).

The dataflow value of a program point is a *set* of elements (S, K):
  S  the rule's own abstract state (hashable), e.g. "TZ changed" or
     {cp: held, dcp: null};
  K  knowledge: a frozenset of (key, value) recording what the path knows
     about call results and local variables that were tested or assigned
     literals, so that `if (!change_tz (...)) return FALSE` or
     `if (NULL != cp) cache_page_unref (cp)` split correctly.
Branch edges whose condition is decided by K are pruned.  The set is finite
(the rule's states are finite), so plain union is the join and loops need
no widening.

A rule provides a Spec:
  spec.call(eng, f, eid, e, S, K) -> list of (S', retval)      retval: 0, 1, 'nz', None
  spec.store(eng, f, eid, lhs, rhs, S, K) -> S' or None (default S)
  spec.branch(eng, f, cond, truth, S, K) -> S' or None (prune)   optional
"""
from . import ex, flow

NZ = "nz"


def k_get(K, key):
    for k, v in K:
        if k == key:
            return v
    return None


def k_set(K, key, val):
    out = [(k, v) for k, v in K if k != key]
    if val is not None:
        out.append((key, val))
    return frozenset(out)


def k_kill_var(K, name):
    return frozenset((k, v) for k, v in K if not (k[0] == "v" and k[1] == name))


def truthy(v):
    if v is None:
        return None
    return v == NZ or (v != 0)


class Engine:
    def __init__(self, ctx, spec, f, init_states):
        self.ctx = ctx
        self.spec = spec
        self.f = f
        self.init = frozenset((S, frozenset()) for S in init_states)
        self.IN = None
        # a rule may restrict the path knowledge to the keys it cares about
        # (spec.keep (f, key) -> bool); everything else is forgotten, which
        # keeps the element sets small in the big decoder functions
        self._keep = getattr(spec, "keep", None)

    def _kset(self, K, key, val):
        if self._keep is not None and val is not None and not self._keep(self.f, key):
            return K
        return k_set(K, key, val)

    def run(self):
        self.IN = flow.forward(self.f, self.init, self.xfer_elem, self.xfer_edge, self.join, max_visits=400)
        return self

    @staticmethod
    def join(a, b):
        return a | b

    # ---- evaluation under knowledge ------------------------------------------
    def value(self, i, K):
        """Literal value of expression under K: int, 'nz' or None."""
        f = self.f
        j = ex.skip(f, i)
        if j is None or j < 0:
            return None
        e = f.exprs[j]
        if "v" in e:
            return e["v"]
        k = e["k"]
        if k == "call":
            return k_get(K, ("c", j))
        if k == "ref":
            return k_get(K, ("v", e["name"]))
        if k in ("mem", "idx") or (k == "un" and e["op"] == "*"):
            p = ex.path(f, j)
            return k_get(K, ("p", p)) if p else None
        if k == "asg" and e["op"] == "=":
            return self.value(e["c"][1], K)
        if k == "cast":
            v = self.value(e["c"][0], K)
            if e["ck"] in ("IntegralToBoolean", "PointerToBoolean"):
                t = truthy(v)
                return None if t is None else int(t)
            return v
        if k == "un" and e["op"] == "!":
            t = truthy(self.value(e["c"][0], K))
            return None if t is None else int(not t)
        if k == "bin":
            op = e["op"]
            if op in ("==", "!="):
                a = self.value(e["c"][0], K)
                b = self.value(e["c"][1], K)
                if a is None or b is None:
                    return None
                if a == NZ or b == NZ:
                    other = b if a == NZ else a
                    if other == 0:
                        return int(op == "!=")
                    return None
                return int((a == b) == (op == "=="))
            if op == "&&":
                a = truthy(self.value(e["c"][0], K))
                b = truthy(self.value(e["c"][1], K))
                if a is False or b is False:
                    return 0
                if a and b:
                    return 1
                return None
            if op == "||":
                a = truthy(self.value(e["c"][0], K))
                b = truthy(self.value(e["c"][1], K))
                if a or b:
                    return 1
                if a is False and b is False:
                    return 0
                return None
            if op == ",":
                return self.value(e["c"][1], K)
        return None

    def learn(self, cond, truth, K):
        """Record what taking edge `truth` of cond teaches about variables
        and call results.  Returns new K, or None when contradictory."""
        f = self.f
        j = ex.skip(f, cond)
        e = f.exprs[j]
        v = self.value(j, K)
        t = truthy(v)
        if t is not None:
            return K if t == truth else None
        k = e["k"]
        if k == "un" and e["op"] == "!":
            return self.learn(e["c"][0], not truth, K)
        if k == "cast" and e["ck"] in ("IntegralToBoolean", "PointerToBoolean", "IntegralCast"):
            return self.learn(e["c"][0], truth, K)
        if k == "bin" and e["op"] == "&&" and truth:
            K = self.learn(e["c"][0], True, K)
            return None if K is None else self.learn(e["c"][1], True, K)
        if k == "bin" and e["op"] == "||" and not truth:
            K = self.learn(e["c"][0], False, K)
            return None if K is None else self.learn(e["c"][1], False, K)
        if k == "bin" and e["op"] in ("==", "!="):
            a, b = e["c"]
            va, vb = self.value(a, K), self.value(b, K)
            eq = (e["op"] == "==") == truth
            if va is not None and vb is None:
                a, b, va, vb = b, a, vb, va
            if vb is not None and va is None:
                key = self._key(a)
                if key is not None:
                    if eq:
                        return self._kset(K, key, vb)
                    if vb == 0:
                        return self._kset(K, key, NZ)
            return K
        key = self._key(j)
        if key is not None:
            return self._kset(K, key, NZ if truth else 0)
        return K

    def _key(self, i):
        f = self.f
        j = ex.skip(f, i)
        e = f.exprs[j]
        if e["k"] == "call":
            return ("c", j)
        if e["k"] == "ref" and e.get("dk") in ("local", "param"):
            return ("v", e["name"])
        if e["k"] == "asg" and e["op"] == "=":
            return self._key(e["c"][0])
        if e["k"] in ("mem", "idx") or (e["k"] == "un" and e["op"] == "*"):
            p = ex.path(f, j)
            if p:
                return ("p", p)
        return None

    # ---- transfer ----------------------------------------------------------------
    def xfer_elem(self, st, i):
        f = self.f
        e = f.exprs[i]
        k = e["k"]
        if k == "call":
            out = set()
            for S, K in st:
                K2 = self._kill_paths_on_call(K, e)
                for item in self.spec.call(self, f, i, e, S, K2):
                    S2, rv = item[0], item[1]
                    K3 = item[2] if len(item) > 2 else K2
                    out.add((S2, self._kset(K3, ("c", i), rv)))
            if e.get("noret"):
                return None
            return frozenset(out)
        if k == "asg" or k == "decl" or (k == "un" and e["op"] in ("++", "--")):
            out = set()
            for S, K in st:
                for lhs, var, op, rhs in flow.stores(f, i):
                    S2 = self.spec.store(self, f, i, lhs, var, op, rhs, S, K)
                    if S2 is None:
                        S2 = S
                    S = S2
                    name = None
                    if var is not None:
                        name = var["name"]
                    elif lhs is not None:
                        l = ex.skip(f, lhs)
                        le = f.exprs[l]
                        if le["k"] == "ref" and le.get("dk") in ("local", "param"):
                            name = le["name"]
                    val = self.value(rhs, K) if (rhs is not None and op == "=") else None
                    if name is not None:
                        K = k_kill_var(K, name)
                        K = frozenset((kk, v) for kk, v in K if not (kk[0] == "p" and _mentions(kk[1], name)))
                        if val is not None:
                            K = self._kset(K, ("v", name), val)
                    elif lhs is not None:
                        p = ex.path(f, lhs)
                        # field-based kill of path knowledge
                        last = _last_member(p) if p else None
                        K = frozenset((kk, v) for kk, v in K
                                      if not (kk[0] == "p" and (last is None or _last_member(kk[1]) == last)))
                        if p and val is not None and "*]" not in p:
                            K = self._kset(K, ("p", p), val)
                out.add((S, K))
            return frozenset(out)
        return st

    def _kill_paths_on_call(self, K, e):
        toks = self.ctx.sums.call_writes(self.f, e)
        if not toks:
            return K
        if "ALL" in toks:
            return frozenset((kk, v) for kk, v in K if kk[0] != "p")
        flds = {t[2] for t in toks if t != "ALL" and t[0] == "fld"}
        has_deref = any(t != "ALL" and t[0] in ("deref", "rec") for t in toks)
        return frozenset((kk, v) for kk, v in K
                         if not (kk[0] == "p" and (_last_member(kk[1]) in flds or
                                                   (has_deref and _last_member(kk[1]) is None))))

    def xfer_edge(self, st, bid, lab, succ):
        f = self.f
        t = f.blocks[bid].term
        if lab not in ("T", "F") or not t or "cond" not in t:
            if isinstance(lab, tuple) or lab == "default":
                return self._switch_edge(st, bid, lab)
            return st
        truth = lab == "T"
        out = set()
        for S, K in st:
            K2 = self.learn(t["cond"], truth, K)
            if K2 is None:
                continue
            if hasattr(self.spec, "branch"):
                S2 = self.spec.branch(self, f, t["cond"], truth, S, K2)
                if S2 is None:
                    continue
                S = S2
            out.add((S, K2))
        return frozenset(out) if out else None

    def _switch_edge(self, st, bid, lab):
        f = self.f
        t = f.blocks[bid].term
        out = set()
        for S, K in st:
            v = self.value(t["cond"], K)
            if isinstance(v, int):
                if isinstance(lab, tuple):
                    if not (lab[1] <= v <= lab[2]):
                        continue
                else:
                    if any(a <= v <= b for a, b in f.switch_cases(bid)):
                        continue
            elif isinstance(lab, tuple) and lab[1] == lab[2]:
                key = self._key(t["cond"])
                if key is not None:
                    K = self._kset(K, key, lab[1])
            out.add((S, K))
        return frozenset(out) if out else None

    # ---- interprocedural summaries ---------------------------------------------------
    def via_summary(self, callee, e, S, K):
        """Apply the summary of `callee` at call e.  The caller's knowledge of
        the arguments that the callee tests for NULL/zero is passed in; when
        the caller does not know such an argument, the element is split so
        that the correlation (e.g. "TZ changed iff tz != NULL") survives.
        Returns [(S', retval, K')]."""
        tested = tested_params(callee)
        args = e.get("c", [])
        splits = [K]
        for n in tested:
            if n >= len(args):
                continue
            nxt = []
            for Kx in splits:
                v = self.value(args[n], Kx)
                key = self._key(args[n])
                if v is None and key is not None and key[0] != "c":
                    nxt.append(k_set(Kx, key, 0))
                    nxt.append(k_set(Kx, key, NZ))
                else:
                    nxt.append(Kx)
            splits = nxt
        res = []
        for Kx in splits:
            kin = []
            for n in tested:
                if n < len(args):
                    v = self.value(args[n], Kx)
                    if v is not None:
                        kin.append((("v", callee.params[n]["name"]), v if v in (0, NZ) else (v if isinstance(v, int) else NZ)))
            kin = frozenset(kin)
            for rv, S2 in summarize(self.ctx, self.spec, callee, S, kin):
                res.append((S2, rv, Kx))
        return res

    # ---- results ---------------------------------------------------------------------
    def state_before(self, eid):
        pos = flow.elem_pos(self.f).get(eid)
        if pos is None:
            return None
        return flow.replay_block(self.f, self.IN, pos[0], self.xfer_elem, upto=eid)

    def _at_exit(self, bid):
        """State on the edge(s) from block bid into the exit block (the edge's own condition applied)."""
        f = self.f
        st = flow.replay_block(f, self.IN, bid, self.xfer_elem)
        if st is None:
            return None
        out = None
        for s2, lab in f.edges(bid):
            if s2 != f.exit:
                continue
            e = self.xfer_edge(st, bid, lab, s2)
            if e is None:
                continue
            out = e if out is None else (out | e)
        return out

    def exit_states(self):
        """Yield (block id, return node or None, S, K) for every function exit."""
        f = self.f
        for bid in f.rpo():
            b = f.blocks[bid]
            if f.exit not in b.succs or b.noret:
                continue
            st = self._at_exit(bid)
            if st is None:
                continue
            ret = None
            for i in b.elems:
                if f.exprs[i]["k"] == "ret":
                    ret = i
            for S, K in st:
                yield bid, ret, S, K

    def outcomes(self):
        """Set of (retval, S) over all returns of the function."""
        f = self.f
        res = set()
        for bid in f.rpo():
            b = f.blocks[bid]
            if f.exit not in b.succs or b.noret:
                continue
            st = self._at_exit(bid)
            if st is None:
                continue
            ret = None
            for i in b.elems:
                if f.exprs[i]["k"] == "ret":
                    ret = i
            for S, K in st:
                rv = None
                if ret is not None and f.exprs[ret].get("c"):
                    rv = self.value(f.exprs[ret]["c"][0], K)
                res.add((rv, S, ret if ret is not None else -bid))
        return res


def tested_params(f):
    """Indices of parameters that the function itself tests as a truth value
    (p, !p, NULL == p, p != NULL) in some branch condition."""
    c = f._cache.get("tested_params")
    if c is not None:
        return c
    names = {p["name"]: n for n, p in enumerate(f.params)}
    found = set()

    def look(i):
        j = ex.skip(f, i)
        e = f.exprs[j]
        k = e["k"]
        if k == "ref" and e.get("dk") == "param" and e["name"] in names:
            found.add(names[e["name"]])
        elif k == "un" and e["op"] == "!":
            look(e["c"][0])
        elif k == "cast":
            look(e["c"][0])
        elif k == "bin" and e["op"] in ("==", "!="):
            a, b = e["c"]
            if ex.is_null(f, a):
                look(b)
            elif ex.is_null(f, b):
                look(a)
        elif k == "bin" and e["op"] in ("&&", "||"):
            look(e["c"][0])
            look(e["c"][1])
    for b in f.blocks.values():
        if b.term and "cond" in b.term:
            look(b.term["cond"])
    c = sorted(found)
    f._cache["tested_params"] = c
    return c


def summarize(ctx, spec, f, S, kin=frozenset()):
    """Set of (retval, S_out) of f entered in state S with knowledge kin."""
    memo = spec.memo
    key = (f.key, S, kin)
    if key in memo:
        return memo[key]
    memo[key] = {(None, S)}        # recursion guard: identity
    eng = Engine(ctx, spec, f, [S])
    eng.init = frozenset([(S, kin)])
    eng.run()
    out = {(rv, S2) for rv, S2, _ in eng.outcomes()}
    memo[key] = out
    return out


def _last_member(p):
    if p is None:
        return None
    for sep in ("->", "."):
        pass
    a = p.rfind("->")
    b = p.rfind(".")
    m = max(a + 2 if a >= 0 else -1, b + 1 if b >= 0 else -1)
    if m < 0:
        return None
    s = p[m:]
    k = s.find("[")
    return s[:k] if k >= 0 else s


def _mentions(p, name):
    import re
    return re.search(r"(?<![A-Za-z0-9_])%s(?![A-Za-z0-9_])" % re.escape(name), p) is not None


class NullSpec:
    """A rule with no state of its own: the engine then only tracks what each
    path knows about call results and tested variables."""

    def __init__(self):
        self.memo = {}

    def call(self, eng, f, eid, e, S, K):
        return [(S, None)]

    def store(self, *a):
        return None


def call_true_on_true_exits(ctx, f, call_id):
    """True when on every path to an exit returning a non-zero constant the
    result of call `call_id` is known to be non-zero (the caller tested it and
    left on failure)."""
    eng = Engine(ctx, NullSpec(), f, ["-"]).run()
    seen = False
    for bid, ret, S, K in eng.exit_states():
        rv = None
        if ret is not None and f.exprs[ret].get("c"):
            rv = eng.value(f.exprs[ret]["c"][0], K)
        if rv == 0:
            continue
        v = k_get(K, ("c", call_id))
        if v is None:
            # the call may not be on this path at all
            pos = flow.elem_pos(f).get(call_id)
            if pos is not None and bid in flow.reach_from(f, pos[0]):
                return False
            continue
        seen = True
        if v == 0:
            return False
    return seen
