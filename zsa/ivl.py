"""RF-IVL — guarded subscripts, capacity obligations, assertion reachability,
field invariants (all on top of absint.Analysis)."""
from . import absint, ex, flow, summaries
from .prog import AnalysisBroken


# --------------------------------------------------------------------------
# subscripts

def array_bound(f, idx_node):
    """(N, base description) for `a[e]` when `a` is an object of constant
    array type (a field, local, global, or an element of such), else None."""
    e = f.exprs[idx_node]
    b = e["c"][0]
    be = f.exprs[b]
    # clang wraps the array in ArrayToPointerDecay
    while be["k"] == "cast" and be["ck"] in ("ArrayToPointerDecay", "NoOp", "LValueToRValue"):
        b = be["c"][0]
        be = f.exprs[b]
    if be["k"] == "opaque" and be.get("c"):
        b = be["c"][0]
        be = f.exprs[b]
    if "arr" in be and be["k"] in ("mem", "ref", "idx", "str", "complit"):
        n = be["arr"][0]
        if be["k"] == "idx":
            # `a[c][k]` with a constant row c of a two-dimensional array: the code
            # indexes the rows that follow through the first one (pop_link[0][8 ... 15],
            # ets_program_type[0][id]); the object is the whole array, so the bound
            # is what is left of it from row c on
            c = ex.const(f, be["c"][1])
            ob = f.exprs[_strip_decay(f, be["c"][0])]
            if c is not None and "arr" in ob and len(ob["arr"]) >= 2 and 0 <= c < ob["arr"][0] and ob["arr"][1] == n:
                return (ob["arr"][0] - c) * n, b
        return n, b
    if be["k"] == "str":
        return be.get("len", 0) + 1, b
    if be["k"] == "ref" and be.get("dk") == "param":
        # `const uint8_t buffer[42]`: the declared element count is the
        # contract, valid as long as the parameter itself is never reassigned
        for p in f.params:
            if p["name"] == be["name"] and "parr" in p and not _param_reassigned(f, be["name"]):
                return p["parr"], b
    return None


def _strip_decay(f, b):
    b = ex.skip(f, b)
    be = f.exprs[b]
    while be["k"] == "cast" and be["ck"] in ("ArrayToPointerDecay", "NoOp", "LValueToRValue"):
        b = ex.skip(f, be["c"][0])
        be = f.exprs[b]
    return b


def _param_reassigned(f, name):
    c = f._cache.setdefault("param_reassigned", {})
    if name not in c:
        r = False
        for bid, i in flow.all_events(f):
            for lhs, var, op, rhs in flow.stores(f, i):
                if lhs is not None:
                    l = ex.skip(f, lhs)
                    if f.exprs[l]["k"] == "ref" and f.exprs[l]["name"] == name:
                        r = True
        c[name] = r
    return c[name]


def subscripts(f):
    """All subscript nodes of f that index a sized array: [(node, N, base)]."""
    c = f._cache.get("subscripts")
    if c is None:
        c = []
        reach = f.reachable_blocks()
        pos = flow.elem_pos(f)
        for i, e in enumerate(f.exprs):
            if e["k"] != "idx":
                continue
            p = pos.get(i)
            if p is None or p[0] not in reach:
                continue
            ab = array_bound(f, i)
            if ab is None:
                continue
            c.append((i, ab[0], ab[1]))
        f._cache["subscripts"] = c
    return c


def is_addr_only(f, node):
    """`&a[e]` (address taken, element not accessed) - one-past is legal."""
    for j, e in enumerate(f.exprs):
        if e["k"] == "un" and e["op"] == "&" and ex.skip(f, e["c"][0]) == node:
            return True
    return False


class Verdict:
    __slots__ = ("node", "n", "iv", "free", "status", "why", "base")

    def __init__(self, node, n, iv, free, status, why, base):
        self.node, self.n, self.iv, self.free, self.status, self.why, self.base = node, n, iv, free, status, why, base


def check_subscript(ctx, f, node, n, base, an=None):
    """Decide one subscript.  status:
       'holds'     0 <= index < N proven
       'violated'  a bound stated by a guard/mask/constant in this function
                   admits an index outside [0, N)
       'unproven'  only the C type limits the index on that side
    """
    an = an or ctx.analysis(f)
    if an is None:
        raise AnalysisBroken("no analysis for %s" % f.name)
    st = an.state_before_expr(node)
    if st is None:
        return Verdict(node, n, None, None, "holds", "unreachable", base)
    ix = f.exprs[node]["c"][1]
    iv = eval_nowrap(an, st, ix)
    free = eval_nowrap(an, {}, ix)
    # `&a[N]` with a constant N is the end-pointer idiom; `&a[i]` with a variable
    # i yields a pointer that the code goes on to dereference
    lim = n + 1 if (is_addr_only(f, node) and ex.const(f, ix) is not None) else n
    lo_ok = iv[0] is not None and iv[0] >= 0
    hi_ok = iv[1] is not None and iv[1] < lim
    if lo_ok and hi_ok:
        return Verdict(node, n, iv, free, "holds", "", base)
    why = []
    status = "unproven"
    if not hi_ok:
        if iv[1] is not None and (free[1] is None or iv[1] < free[1]):
            status = "violated"
            why.append("upper bound %d admitted by the guards reaches past the last element %d" % (iv[1], n - 1))
        else:
            why.append("no upper bound is stated in this function (type range only)")
    if not lo_ok:
        if iv[0] is not None and (free[0] is None or iv[0] > free[0]):
            status = "violated"
            why.append("lower bound %d admitted by the guards is negative" % iv[0])
        else:
            why.append("no lower bound is stated in this function (type range only)")
    return Verdict(node, n, iv, free, status, "; ".join(why), base)


def eval_nowrap(an, st, i, depth=0):
    """Interval of an index expression in mathematical integers: a top-level
    chain of + and - is not reduced modulo 2^n, so that `count - 2` with an
    unsigned count of 0 is the (wrong) index -2 and not 'any value'."""
    f = an.f
    j = i
    e = f.exprs[j]
    while e["k"] == "cast" and e["ck"] in ("IntegralCast", "LValueToRValue", "NoOp") and depth < 20:
        inner = f.exprs[e["c"][0]]
        if e["ck"] == "IntegralCast" and not (inner["k"] == "bin" and inner["op"] in ("+", "-")):
            break
        j = e["c"][0]
        e = inner
        depth += 1
    if e["k"] == "bin" and e["op"] in ("+", "-") and "it" in e and depth < 20:
        a = eval_nowrap(an, st, e["c"][0], depth + 1)
        b = eval_nowrap(an, st, e["c"][1], depth + 1)
        return absint.add(a, b) if e["op"] == "+" else absint.sub(a, b)
    return an.eval(st, i)


def free_range(ctx, an, f, ix):
    """Interval of the index expression when nothing but the C types (and
    field invariants / table contents) is known: the reference against which
    'a guard in this function says so' is measured."""
    return an.eval({}, ix)


# --------------------------------------------------------------------------
# assertion reachability

def assert_sites(f):
    """[(block id, call node, message)] for every __assert_fail call."""
    res = []
    for bid in f.rpo():
        for i in f.blocks[bid].elems:
            e = f.exprs[i]
            if e["k"] == "call" and e.get("callee") == "__assert_fail":
                msg = None
                a = ex.skip(f, e["c"][0]) if e.get("c") else None
                while a is not None and f.exprs[a]["k"] == "cast":
                    a = ex.skip(f, f.exprs[a]["c"][0])
                if a is not None and f.exprs[a]["k"] == "str":
                    msg = f.exprs[a].get("s")
                res.append((bid, i, msg))
    return res


def assert_reachable(ctx, f, bid, an=None):
    """True when the abstract state admits reaching the __assert_fail block."""
    an = an or ctx.analysis(f)
    return an.IN.get(bid) is not None


def assert_condition(f, bid):
    """(cond node, label taken towards the failing block) of the assert."""
    for src, lab, cond in flow.dominating_edges(f, bid)[:1]:
        return cond, lab
    return None, None


def is_pointer_assert(f, bid):
    """assert (NULL != p) / assert (p): an API-contract assertion on a pointer."""
    cond, lab = assert_condition(f, bid)
    if cond is None:
        return False
    j = ex.skip(f, cond)
    for n in ex.walk(f, j):
        e = f.exprs[n]
        if e["k"] in ("ref", "mem", "call") and e.get("t", "").endswith("*"):
            return True
        if e["k"] == "cast" and e["ck"] in ("PointerToBoolean", "NullToPointer"):
            return True
    return False


# --------------------------------------------------------------------------
# field invariants

def field_writers(prog, rec, field):
    """[(f, event id, lhs, op, rhs)] for every store to rec.field in the program."""
    res = []
    for f in prog.funcs:
        for bid, i in flow.all_events(f):
            for lhs, var, op, rhs in flow.stores(f, i):
                if lhs is None:
                    continue
                l = ex.skip(f, lhs)
                e = f.exprs[l]
                if e["k"] == "mem" and e.get("in") == rec and e["member"] == field:
                    res.append((f, i, l, op, rhs))
    return res


def field_invariant(ctx, rec, field, extra_zero=True):
    """Hull of the values every writer of rec.field can store, each evaluated
    under the guards of its own function only (no circular assumption).
    Zero is included (objects come from calloc / memset / CLEAR)."""
    iv = (0, 0) if extra_zero else None
    ws = field_writers(ctx.prog, rec, field)
    detail = []
    for f, i, l, op, rhs in ws:
        an = ctx.analysis(f)
        st = an.state_before(i)
        if st is None:
            continue
        e = f.exprs[i]
        if e["k"] == "asg":
            v = an.eval(st, i)
        else:
            a = an.eval(st, e["c"][0])
            v = absint.add(a, (1, 1) if e["op"] == "++" else (-1, -1))
            v = absint.wrap(v, f.exprs[l].get("it"))
        v = absint.meet(v, absint.node_range(f.exprs[l]))
        detail.append((f.name, f.exprs[i]["line"], v))
        iv = v if iv is None else absint.hull(iv, v)
    return iv, detail


# --------------------------------------------------------------------------
# the `a + e` spelling of a subscript:  *(arr + e1 - e2),  (arr + e)->m

def _ptr_terms(f, node, sign=1, depth=0):
    """Decompose a pointer expression into (array base node, [(sign, offset node)])."""
    j = ex.skip(f, node)
    e = f.exprs[j]
    if depth > 12:
        return None, []
    if e["k"] == "cast" and e["ck"] in ("ArrayToPointerDecay", "NoOp", "BitCast"):
        inner = ex.skip(f, e["c"][0])
        ie = f.exprs[inner]
        if e["ck"] == "ArrayToPointerDecay" and "arr" in ie:
            return inner, []
        return _ptr_terms(f, inner, sign, depth + 1)
    if "arr" in e and e["k"] in ("mem", "ref", "idx"):
        return j, []
    if e["k"] == "bin" and e["op"] in ("+", "-"):
        a, b = e["c"]
        ta = f.exprs[ex.skip(f, a)].get("t", "")
        tb = f.exprs[ex.skip(f, b)].get("t", "")
        a_ptr = ta.endswith("*") or "arr" in f.exprs[ex.skip(f, a)] or "[" in ta
        b_ptr = tb.endswith("*") or "arr" in f.exprs[ex.skip(f, b)] or "[" in tb
        if a_ptr and not b_ptr:
            base, terms = _ptr_terms(f, a, sign, depth + 1)
            return base, terms + [(sign if e["op"] == "+" else -sign, b)]
        if b_ptr and not a_ptr and e["op"] == "+":
            base, terms = _ptr_terms(f, b, sign, depth + 1)
            return base, terms + [(sign, a)]
    return None, []


def pointer_subscripts(f):
    """[(deref node, N, base node, terms)] for dereferences of `array + offset`
    written with pointer arithmetic."""
    c = f._cache.get("ptr_subscripts")
    if c is not None:
        return c
    c = []
    pos = flow.elem_pos(f)
    reach = f.reachable_blocks()
    for i, e in enumerate(f.exprs):
        p = pos.get(i)
        if p is None or p[0] not in reach:
            continue
        ptr = None
        if e["k"] == "un" and e["op"] == "*":
            ptr = e["c"][0]
        elif e["k"] == "mem" and e.get("arrow"):
            ptr = e["c"][0]
        if ptr is None:
            continue
        pj = ex.skip(f, ptr)
        if f.exprs[pj]["k"] != "bin":
            continue
        base, terms = _ptr_terms(f, pj)
        if base is None or not terms:
            continue
        be = f.exprs[base]
        c.append((i, be["arr"][0], base, terms))
    f._cache["ptr_subscripts"] = c
    return c


def check_ptr_subscript(ctx, f, node, n, base, terms, an=None):
    an = an or ctx.analysis(f)
    st = an.state_before_expr(node)
    if st is None:
        return Verdict(node, n, None, None, "holds", "unreachable", base)

    def total(state):
        iv = (0, 0)
        for sign, t in terms:
            v = eval_nowrap(an, state, t)
            iv = absint.add(iv, v) if sign > 0 else absint.sub(iv, v)
        return iv
    iv = total(st)
    free = total({})
    if iv[0] is not None and iv[0] >= 0 and iv[1] is not None and iv[1] < n:
        return Verdict(node, n, iv, free, "holds", "", base)
    why, status = [], "unproven"
    if not (iv[1] is not None and iv[1] < n):
        if iv[1] is not None and (free[1] is None or iv[1] < free[1]):
            status = "violated"
            why.append("upper bound %d admitted by the guards reaches past the last element %d" % (iv[1], n - 1))
        else:
            why.append("no upper bound is stated in this function (type range only)")
    if not (iv[0] is not None and iv[0] >= 0):
        if iv[0] is not None and (free[0] is None or iv[0] > free[0]):
            status = "violated"
            why.append("lower bound %d admitted by the guards is negative" % iv[0])
        else:
            why.append("no lower bound is stated in this function (type range only)")
    return Verdict(node, n, iv, free, status, "; ".join(why), base)


# --------------------------------------------------------------------------
# cursor idiom:  p = array + e;  ... *p, p->m, p[k] ... p++

def cursor_derefs(f):
    """[(node, pointer local name, index node or None)] for dereferences of a
    local pointer variable (which absint may be tracking as a cursor)."""
    c = f._cache.get("cursor_derefs")
    if c is not None:
        return c
    c = []
    pos = flow.elem_pos(f)
    reach = f.reachable_blocks()
    for i, e in enumerate(f.exprs):
        p = pos.get(i)
        if p is None or p[0] not in reach:
            continue
        ptr, ix = None, None
        if e["k"] == "un" and e["op"] == "*":
            ptr = e["c"][0]
        elif e["k"] == "mem" and e.get("arrow"):
            ptr = e["c"][0]
        elif e["k"] == "idx":
            ptr, ix = e["c"][0], e["c"][1]
        if ptr is None:
            continue
        j = ex.skip(f, ptr)
        je = f.exprs[j]
        while je["k"] == "cast" and je["ck"] in ("LValueToRValue", "NoOp"):
            j = ex.skip(f, je["c"][0])
            je = f.exprs[j]
        post = None
        if je["k"] == "un" and je["op"] in ("++", "--"):
            # *p++ : the dereferenced value is the old (post) or new (pre) pointer
            post = je
            j = ex.skip(f, je["c"][0])
            je = f.exprs[j]
        if je["k"] == "ref" and je.get("dk") in ("local", "param") and "it" not in je and je.get("t", "").rstrip().endswith("*"):
            c.append((i, je["name"], ix, post))
    f._cache["cursor_derefs"] = c
    return c


def check_cursor(ctx, f, node, name, ix, post, an=None):
    """Verdict for a dereference through a tracked cursor, or None when the
    pointer is not a cursor into a sized array at that point."""
    an = an or ctx.analysis(f)
    st = an.state_before_expr(node)
    if st is None:
        return None
    pb = st.get(("pb", name))
    if pb is None or pb[0] is None:
        return None
    n = pb[0]
    off = st.get(("iv", "@" + name), (None, None))
    if post is not None and not post.get("post"):
        off = absint.add(off, (1, 1) if post["op"] == "++" else (-1, -1))
    if ix is not None:
        off = absint.add(off, eval_nowrap(an, st, ix))
    lim = n + 1 if (ix is not None and is_addr_only(f, node)) else n
    if off[0] is not None and off[0] >= 0 and off[1] is not None and off[1] < lim:
        return Verdict(node, n, off, None, "holds", "", pb[1])
    why = []
    if not (off[1] is not None and off[1] < lim):
        why.append("the cursor can stand at element %s of %s[%d]" % (off[1] if off[1] is not None else "(unbounded)", pb[1], n))
    if not (off[0] is not None and off[0] >= 0):
        why.append("the cursor can stand before the array (offset %s)" % (off[0] if off[0] is not None else "unbounded"))
    return Verdict(node, n, off, None, "violated", "; ".join(why), pb[1])


# --------------------------------------------------------------------------
# abstract input regions: "for every input in region R the function does not return TRUE"

def returns_reachable(ctx, f, region, want_true=True, persistent=False):
    """Abstractly execute f from the entry state `region` ({access path: interval} on fields
    reached through its pointer parameters).  Returns (list of reachable return nodes whose
    value may be non-zero (want_true) / zero, paths of the region that matched no expression)."""
    an = absint.Analysis(ctx, f, {}, extra_init=region)
    an.persistent = persistent      # region facts about memory the function only reads (a const buffer) survive calls
    an = an.run()
    hits = []
    for bid, i in flow.all_events(f):
        e = f.exprs[i]
        if e["k"] == "ret" and e.get("c"):
            st = an.state_before(i)
            if st is None:
                continue
            v = an.eval(st, e["c"][0])
            may_nz = not (v == (0, 0))
            may_z = v[0] is None or v[1] is None or v[0] <= 0 <= v[1]
            if (want_true and may_nz) or (not want_true and may_z):
                hits.append(i)
    return hits, getattr(an, "extra_missing", [])
