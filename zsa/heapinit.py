"""RF-INIT (heap nodes) — a record obtained from malloc() is completely written
before it becomes reachable from anywhere else.

For every `p = malloc (...)` into a local pointer to a record type, walk the
CFG forward from the allocation and collect, per path, the fields of *p that
have been written (p->f = ..., memset/memcpy/CLEAR on p, *p = ...).  At the
first *escape* of p - a store of p into a non-local lvalue, a return of p, or
passing p to a function that is not an initialiser (one whose summary writes
fields of that record) - every field of the record must have been written on
every path.  calloc() counts as writing everything.
"""
from . import ex, flow, summaries, fieldinv

ALLOC = ("malloc", "vbi_malloc", "vbi_cache_malloc")
ALLOC0 = ("calloc", "vbi_calloc")
FREE = ("free", "vbi_free", "vbi_cache_free")
BULK = ("memset", "memcpy", "memmove", "__builtin_memset", "__builtin_memcpy")


def _local_name(f, node):
    j = ex.skip(f, node)
    e = f.exprs[j]
    while e["k"] == "cast":
        j = ex.skip(f, e["c"][0])
        e = f.exprs[j]
    if e["k"] == "un" and e["op"] == "&":
        # &*p
        k = ex.skip(f, e["c"][0])
        ke = f.exprs[k]
        if ke["k"] == "un" and ke["op"] == "*":
            return _local_name(f, ke["c"][0])
    if e["k"] == "ref" and e.get("dk") == "local":
        return e["name"], e
    return None, None


def self_linked(prog, rec):
    """The record has a pointer field to its own type (a list node)."""
    r = prog.records.get(rec)
    if not r:
        return None
    for x in r["fields"]:
        if x.get("prec") == rec:
            return x["name"]
    return None


def alloc_sites(f, prog):
    """[(event id, local name, record name)]"""
    res = []
    for bid, i in flow.all_events(f):
        for lhs, var, op, rhs in flow.stores(f, i):
            if rhs is None or op != "=":
                continue
            r = ex.skip(f, rhs)
            re_ = f.exprs[r]
            while re_["k"] == "cast":
                r = ex.skip(f, re_["c"][0])
                re_ = f.exprs[r]
            if not (re_["k"] == "call" and re_.get("callee") in ALLOC):
                continue
            if var is not None:
                name, t, prec = var["name"], var.get("t", ""), var.get("prec")
            else:
                name, le = _local_name(f, lhs)
                if name is None:
                    continue
                t, prec = le.get("t", ""), le.get("prec")
            rec = prec or fieldinv.rec_of_type(prog, t)
            if rec and rec in prog.records and not prog.records[rec].get("union"):
                res.append((i, name, rec))
    return res


def check(ctx, f, site):
    """-> (status, detail, escape node).  status: 'holds' | 'violated' | 'noescape'"""
    P = ctx.prog
    aid, name, rec = site
    fields = [x["name"] for x in P.records[rec]["fields"]]
    ALLF = frozenset(fields)
    results = []

    def is_p(node):
        n, _ = _local_name(f, node)
        return n == name

    def xfer(st, i):
        # st: "na" (not allocated on this path) | frozenset of written fields | "done"
        e = f.exprs[i]
        if i == aid:
            return frozenset()
        if st == "na" or st == "done":
            return st
        k = e["k"]
        if k == "call":
            cal = e.get("callee")
            args = e.get("c", [])
            if cal in BULK and args and is_p(args[0]):
                return ALLF
            if cal in FREE and args and is_p(args[0]):
                return "done"
            for a in args:
                if is_p(a):
                    t = P.func_for(f, cal) if cal else None
                    if t is not None:
                        w = ctx.sums.writes.get(t.key, set())
                        wf = {tk[2] for tk in w if tk != "ALL" and tk[0] == "fld" and tk[1] == rec}
                        if wf:
                            st = st | wf            # an initialiser of that record
                            continue
                    results.append((i, st))
                    return "done"
            return st
        if k == "ret" and e.get("c") and is_p(e["c"][0]):
            results.append((i, st))
            return "done"
        for lhs, var, op, rhs in flow.stores(f, i) if flow.is_event(f, i) else []:
            if lhs is not None:
                l = ex.skip(f, lhs)
                le = f.exprs[l]
                # p->f = ...   /  p->f[i] = ... / p->f.g = ...
                base = l
                be = le
                top = None
                while be["k"] in ("mem", "idx"):
                    if be["k"] == "mem":
                        top = be
                        if be.get("arrow"):
                            break
                    base = ex.skip(f, be["c"][0])
                    be = f.exprs[base]
                if top is not None and top.get("arrow") and is_p(top["c"][0]) and top.get("in") == rec:
                    whole = (le is top) or le["k"] == "mem"
                    st = st | {top["member"]} if (le is top or "arr" not in top) else st | {top["member"]}
                    continue
                if le["k"] == "un" and le["op"] == "*" and is_p(le["c"][0]):
                    st = ALLF
                    continue
                if le["k"] == "ref" and le.get("name") == name:
                    return "na"          # p reassigned
            # escape: p stored somewhere non-local
            if rhs is not None and is_p(rhs):
                if var is not None:
                    continue            # copied into another local: not tracked further
                if lhs is not None and summaries.is_nonlocal_lvalue(f, lhs):
                    results.append((i, st))
                    return "done"
        return st

    def join(a, b):
        if a == "na":
            return b
        if b == "na":
            return a
        if a == "done":
            return b
        if b == "done":
            return a
        return a & b

    flow.forward(f, "na", xfer, lambda st, b, l, s: st, join, max_visits=200)
    if not results:
        return "noescape", "", None
    bad = [(i, sorted(ALLF - st)) for i, st in results if ALLF - st]
    if bad:
        i, miss = bad[0]
        return "violated", miss, i
    return "holds", "", results[0][0]


