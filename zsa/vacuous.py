"""RF-VAC — vacuous updates: `x op= e` (or `x = x op e`) where the interval analysis proves e to be
the identity element of op at that point although e is not a literal - the operand it reads was
overwritten with that constant on every path just before (the classic result of two swapped
statements: `w->leftover = 0; w->skip -= w->leftover;`)."""
from . import ex, flow

IDENT = {"+=": 0, "-=": 0, "|=": 0, "^=": 0, "<<=": 0, ">>=": 0, "*=": 1, "/=": 1}


def _has_load(f, node):
    for n in ex.walk(f, node):
        e = f.exprs[n]
        # a field, array element or pointee - not a plain local (locals preset to 0 by the build
        # configuration, e.g. `padding = 0`, are an ordinary idiom)
        if e["k"] in ("mem", "idx") and "v" not in e:
            return True
        if e["k"] == "un" and e["op"] == "*":
            return True
    return False


def find(ctx, f):
    """[(event node, operator, value)]"""
    res = []
    if not any(e["k"] == "asg" and e.get("op") in IDENT for e in f.exprs):
        return res
    an = ctx.analysis(f)
    if an is None:
        return res
    for bid, i in flow.all_events(f):
        e = f.exprs[i]
        if e["k"] != "asg" or e["op"] not in IDENT:
            continue
        rhs = e["c"][1]
        if ex.const(f, rhs) is not None or not _has_load(f, rhs):
            continue            # a literal (`+= 0` written on purpose) or no memory operand
        st = an.state_before_expr(i)
        if st is None:
            continue
        v = an.eval(st, rhs)
        if v[0] is not None and v[0] == v[1] == IDENT[e["op"]]:
            res.append((i, e["op"], v[0]))
    return res


def _same(f, a, b):
    a = ex.skip(f, a)
    b = ex.skip(f, b)
    ea, eb = f.exprs[a], f.exprs[b]
    if ea["k"] != eb["k"]:
        return False
    for k in ("op", "name", "member", "callee", "v", "ck", "s"):
        if ea.get(k) != eb.get(k):
            return False
    ca, cb = ea.get("c", []) or [], eb.get("c", []) or []
    if len(ca) != len(cb):
        return False
    return all(_same(f, x, y) for x, y in zip(ca, cb))


def find_dup(f):
    """Binary operators whose two operands are the same non-constant, side-effect free expression
    (`unpar (*ref) | unpar (*ref)`, `a->n == a->n`): one of them was meant to be something else."""
    res = []
    pos = flow.elem_pos(f)
    for i, e in enumerate(f.exprs):
        if e["k"] != "bin" or e["op"] not in ("|", "&", "^", "-", "==", "!=", "<", ">", "<=", ">=", "&&", "||", "/", "%"):
            continue
        if pos.get(i) is None or e.get("mac") or "it" not in e and e["op"] not in ("==", "!=", "<", ">", "<=", ">=", "&&", "||"):
            continue
        a, b = e["c"]
        ea = f.exprs[ex.skip(f, a)]
        if "v" in ea or ea["k"] in ("float", "flt", "str") or "float" in ea.get("t", "") or "double" in ea.get("t", ""):
            continue
        if not any(f.exprs[n]["k"] in ("ref", "mem", "idx", "call") for n in ex.walk(f, a)):
            continue
        if any(f.exprs[n]["k"] == "asg" or (f.exprs[n]["k"] == "un" and f.exprs[n]["op"] in ("++", "--")) for n in ex.walk(f, a)):
            continue
        if _same(f, a, b):
            res.append(i)
    return res


def find_stale_copy(f):
    """`x->a = CONST; y = x->a;` as consecutive statements: the copy takes the constant, not the value
    the field held (two statements in the wrong order)."""
    res = []
    for bid in f.rpo():
        evs = flow.events(f, bid)
        for k in range(1, len(evs)):
            p, c = f.exprs[evs[k - 1]], f.exprs[evs[k]]
            if not (p["k"] == "asg" and p["op"] == "=" and c["k"] == "asg" and c["op"] == "="):
                continue
            pl = ex.skip(f, p["c"][0])
            if f.exprs[pl]["k"] != "mem" or ex.const(f, p["c"][1]) is None:
                continue
            cr = ex.skip(f, c["c"][1])
            e = f.exprs[cr]
            while e["k"] == "cast":
                cr = ex.skip(f, e["c"][0])
                e = f.exprs[cr]
            pth = ex.path(f, pl)
            if e["k"] == "mem" and pth and ex.path(f, cr) == pth:
                res.append((evs[k], evs[k - 1]))
    return res


def units_of(pid):
    """The built units a property is anchored in (anchors.files of properties.jsonl)."""
    import json
    import os
    from . import compdb, prog
    built = set(compdb.units())
    for line in open(os.path.join(prog.VERIF, "properties.jsonl")):
        d = json.loads(line)
        if d["id"] == pid:
            return [u for u in d.get("anchors", {}).get("files", []) if u in built]
    return []


def sweep(ctx, run, units):
    """Report vacuous updates in `units`; the positive example must be reported on every run."""
    from . import selftest
    from .prog import AnalysisBroken
    P2 = selftest.load_positive("vacuous_pos.c")
    c2 = selftest.Ctx(P2)
    hit = {f.name for f in P2.funcs if find(c2, f)}
    if hit != {"swapped_update"}:
        raise AnalysisBroken("RF-VAC positive example: expected a report in swapped_update only, got %s" % sorted(hit))
    hit = {f.name for f in P2.funcs if find_dup(f)}
    if hit != {"dup_operand"}:
        raise AnalysisBroken("RF-DUP positive example: expected a report in dup_operand only, got %s" % sorted(hit))
    hit = {f.name for f in P2.funcs if find_stale_copy(f)}
    if hit != {"copy_after_reset"}:
        raise AnalysisBroken("RF-VAC positive example: expected a stale copy in copy_after_reset only, got %s" % sorted(hit))
    n_f = 0
    n = 0
    for f in ctx.prog.funcs:
        if f.unit not in units or f.file.endswith(".h"):
            continue
        if not any(e["k"] == "asg" and e.get("op") in IDENT for e in f.exprs):
            continue
        n_f += 1
        bad = find(ctx, f)
        for i, op, v in bad:
            n += 1
            run.touch(f)
            run.violation("RF-VAC", "RF-VAC:%s:%s" % (f.name, ex.pretty(f, f.exprs[i]["c"][0])[:40]),
                          "`%s` has no effect: its right-hand side is %d at this point on every path - the operand was overwritten "
                          "just before it is used (two statements in the wrong order?), so the update it was meant to apply is lost"
                          % (ex.pretty(f, i)[:80], v), ex.loc(f, i), witness={"function": f.name, "statement": ex.pretty(f, i)})
    n_dup = 0
    for f in ctx.prog.funcs:
        if f.unit not in units or f.file.endswith(".h"):
            continue
        for i in find_dup(f):
            n += 1
            n_dup += 1
            run.touch(f)
            run.violation("RF-DUP", "RF-DUP:%s:%s" % (f.name, f.exprs[i]["op"]), "`%s` has the same expression on both sides of `%s`: one "
                          "operand was meant to be something else (the other value is never looked at)"
                          % (ex.pretty(f, i)[:90], f.exprs[i]["op"]), ex.loc(f, i), witness={"function": f.name, "expr": ex.pretty(f, i)})
        for i, j in find_stale_copy(f):
            n += 1
            run.touch(f)
            run.violation("RF-VAC", "RF-VAC:%s:stale-copy" % f.name, "`%s` copies a field that the statement before it (`%s`) has just set "
                          "to a constant: the value the field held is lost (two statements in the wrong order?)"
                          % (ex.pretty(f, i)[:70], ex.pretty(f, j)[:50]), ex.loc(f, i), witness={"function": f.name})
    if not n:
        run.holds("RF-VAC", "RF-VAC:%s" % ",".join(u.split("/")[-1] for u in units)[:80],
                  "%d functions with compound assignments: none updates with an operand the function has just overwritten by the "
                  "operator's identity element (positive example selftest/pos/vacuous_pos.c reported)" % n_f, None, nontrivial=True)
