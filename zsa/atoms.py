"""Branch atoms (RF-DOM).

A branch edge (condition, label) is normalised into atoms
    Atom(rel, L, R)      rel in == != < <= > >=
whose operands are described structurally and independently of local
variable names: the constant value, the set of struct fields read
("record.member"), the functions called, and whether the operand contains a
pre-increment.  Property modules state their required guards as predicates
over these descriptions, so renaming a local, swapping the operands or
writing `!(a != b)` for `a == b` changes nothing.
"""
from . import ex, flow

FLIP = {"<": ">", ">": "<", "<=": ">=", ">=": "<=", "==": "==", "!=": "!="}
NEG = {"<": ">=", ">": "<=", "<=": ">", ">=": "<", "==": "!=", "!=": "=="}


class Operand:
    __slots__ = ("const", "fields", "calls", "incr", "text", "locals", "node", "strs", "held")

    def __init__(self, f, i):
        j = ex.skip(f, i)
        self.node = j
        self.const = ex.const(f, j)
        if self.const is None:
            try:
                if ex.is_null(f, j):
                    self.const = 0          # NULL
            except Exception:
                pass
        self.fields = set()
        self.calls = set()
        self.locals = set()
        self.strs = set()
        self.incr = None
        self.held = _held_call(f, j)
        for n in ex.walk(f, j):
            e = f.exprs[n]
            k = e["k"]
            if k == "mem":
                self.fields.add("%s.%s" % (e.get("in"), e["member"]))
            elif k == "call" and e.get("callee"):
                if e["callee"] != "__builtin_expect":
                    self.calls.add(e["callee"])
            elif k == "un" and e["op"] in ("++", "--"):
                self.incr = e["op"]
            elif k == "ref" and e.get("dk") in ("local", "param"):
                self.locals.add(e["name"])
            elif k == "str" and "s" in e:
                self.strs.add(e["s"])
        self.text = ex.pretty(f, j)

    def has(self, field):
        return field in self.fields

    def __repr__(self):
        return self.text


class Atom:
    __slots__ = ("rel", "L", "R", "src", "lab", "cond")

    def __init__(self, rel, L, R, src, lab, cond):
        # canonical orientation: a constant operand goes to the right
        if R is not None and L.const is not None and R.const is None:
            L, R, rel = R, L, FLIP[rel]
        self.rel, self.L, self.R, self.src, self.lab, self.cond = rel, L, R, src, lab, cond

    def __repr__(self):
        return "%s %s %s" % (self.L.text, self.rel, self.R.text if self.R is not None else "0")

    # ---- predicates --------------------------------------------------------
    def cmp_const(self, rel, field, value):
        """`field rel value` in either spelling."""
        if self.R is None:
            return False
        if self.L.has(field) and self.R.const == value and self.L.const is None:
            return self.rel == rel
        if self.R.has(field) and self.L.const == value and self.R.const is None:
            return FLIP[self.rel] == rel
        return False

    def eq_field(self, field, rel="=="):
        """An (in)equality between something non-constant and `field`."""
        if self.R is None or self.rel != rel:
            return False
        if self.L.has(field) and self.R.const is None:
            return True
        if self.R.has(field) and self.L.const is None:
            return True
        return False

    def call_cmp(self, callee, rel, value):
        if self.R is None:
            return False
        if (callee in self.L.calls or callee == getattr(self.L, "held", None)) and self.R.const == value:
            return self.rel == rel
        if (callee in self.R.calls or callee == getattr(self.R, "held", None)) and self.L.const == value:
            return FLIP[self.rel] == rel
        return False


def _held_call(f, j):
    """Callee when node j is a local whose only definition is the result of a call, else None."""
    e = f.exprs[j]
    k = 0
    while e["k"] == "cast" and e.get("c") and k < 6:
        e = f.exprs[ex.skip(f, e["c"][0])]
        k += 1
    if e["k"] != "ref" or e.get("dk") != "local":
        return None
    nm = e["name"]
    c = f._cache.setdefault("holds_call", None)
    if c is None:
        from . import flow
        defs = {}
        for bid, i in flow.all_events(f):
            for lhs, var, op, rhs in flow.stores(f, i):
                who = var["name"] if var is not None else None
                if who is None and lhs is not None:
                    le = f.exprs[ex.skip(f, lhs)]
                    who = le.get("name") if le["k"] == "ref" and le.get("dk") == "local" else None
                if who is not None and (rhs is not None or var is None):
                    defs.setdefault(who, []).append((op, rhs))
        c = {}
        for who, ds in defs.items():
            if len(ds) == 1 and ds[0][0] == "=" and ds[0][1] is not None:
                r = f.exprs[ex.skip(f, ds[0][1])]
                k = 0
                while r["k"] == "cast" and r.get("c") and k < 6:
                    r = f.exprs[ex.skip(f, r["c"][0])]
                    k += 1
                if r["k"] == "call" and r.get("callee"):
                    c[who] = r["callee"]
        f._cache["holds_call"] = c
    return c.get(nm)


class _Zero:
    const = 0
    held = None
    fields = frozenset()
    calls = frozenset()
    locals = frozenset()
    strs = frozenset()
    incr = None
    text = "0"
    node = None

    def has(self, f):
        return False


ZERO = _Zero()


def atoms_of(f, cond, truth, src=None, lab=None):
    """Atoms implied by `cond` evaluating to `truth`."""
    j = ex.skip(f, cond)
    e = f.exprs[j]
    k = e["k"]
    if k == "un" and e["op"] == "!":
        return atoms_of(f, e["c"][0], not truth, src, lab)
    if k == "cast" and e["ck"] in ("IntegralToBoolean", "PointerToBoolean", "IntegralCast"):
        return atoms_of(f, e["c"][0], truth, src, lab)
    if k == "bin" and e["op"] == "&&":
        if truth:
            return atoms_of(f, e["c"][0], True, src, lab) + atoms_of(f, e["c"][1], True, src, lab)
        return []
    if k == "bin" and e["op"] == "||":
        if not truth:
            return atoms_of(f, e["c"][0], False, src, lab) + atoms_of(f, e["c"][1], False, src, lab)
        return []
    if k == "bin" and e["op"] in ("==", "!="):
        # `flag == FALSE`, `0 != flag` with a flag that holds the outcome of a condition
        for a, b in ((e["c"][0], e["c"][1]), (e["c"][1], e["c"][0])):
            if ex.const(f, b) == 0:
                d = _flag_definition(f, a, src)
                if d is not None:
                    return atoms_of(f, d, truth if e["op"] == "!=" else not truth, src, lab)
    if k == "bin" and e["op"] in NEG:
        rel = e["op"] if truth else NEG[e["op"]]
        return [Atom(rel, Operand(f, e["c"][0]), Operand(f, e["c"][1]), src, lab, j)]
    if k == "bin" and e["op"] == ",":
        return atoms_of(f, e["c"][1], truth, src, lab)
    d = _flag_definition(f, j, src)
    if d is not None:
        return atoms_of(f, d, truth, src, lab)
    if truth:
        ld = _flag_last_def(f, j, src)
        if ld is not None:
            return atoms_of(f, ld[0], True, src, lab) + [Atom("!=", Operand(f, j), ZERO, src, lab, j)]
    return [Atom("!=" if truth else "==", Operand(f, j), ZERO, src, lab, j)]


_BOOLISH = ("<", ">", "<=", ">=", "==", "!=", "&&", "||")


def _flag_test(f, cond, name):
    """Does `cond` test local `name` as a truth value?  Returns True (cond is true iff name != 0), False (iff name == 0)
    or None."""
    j = ex.skip(f, cond)
    e = f.exprs[j]
    pol = True
    for _ in range(6):
        if e["k"] == "cast":
            j = ex.skip(f, e["c"][0])
            e = f.exprs[j]
        elif e["k"] == "un" and e["op"] == "!":
            pol = not pol
            j = ex.skip(f, e["c"][0])
            e = f.exprs[j]
        elif e["k"] == "bin" and e["op"] in ("==", "!=") and (ex.const(f, e["c"][1]) == 0 or ex.const(f, e["c"][0]) == 0):
            if e["op"] == "==":
                pol = not pol
            j = ex.skip(f, e["c"][0] if ex.const(f, e["c"][1]) == 0 else e["c"][1])
            e = f.exprs[j]
        else:
            break
    if e["k"] == "ref" and e.get("dk") == "local" and e.get("name") == name:
        return pol
    return None


def _flag_last_def(f, node, src):
    """A local flag with several definitions is found set at the branch block `src`.  The definitions that can be the
    last one executed on a path to `src` on which no test of the flag itself said "unset" are collected; when exactly one
    remains and it assigns the outcome of a condition, that condition held: (condition node, block of the definition)."""
    j = ex.skip(f, node)
    e = f.exprs[j]
    while e["k"] == "cast":
        j = ex.skip(f, e["c"][0])
        e = f.exprs[j]
    if e["k"] != "ref" or e.get("dk") != "local" or src is None:
        return None
    name = e["name"]
    defs = []
    for bid, i in flow.all_events(f):
        for lhs, var, op, rhs in flow.stores(f, i):
            nm = var["name"] if var is not None else None
            if nm is None and lhs is not None:
                le = f.exprs[ex.skip(f, lhs)]
                if le["k"] == "ref" and le.get("dk") == "local":
                    nm = le["name"]
            if nm == name:
                if op != "=" or rhs is None:
                    return None
                defs.append((bid, i, rhs))
    if len(defs) < 2 or len(defs) > 6:
        return None
    if any(x["k"] == "un" and x["op"] == "&" and f.exprs[ex.skip(f, x["c"][0])]["k"] == "ref"
           and f.exprs[ex.skip(f, x["c"][0])].get("name") == name for x in f.exprs):
        return None
    def_blocks = {}
    for bid, i, rhs in defs:
        def_blocks.setdefault(bid, []).append((flow.elem_pos(f)[i][1], i, rhs))
    cands = []
    for bid, i, rhs in defs:
        # the last definition inside its own block?
        if max(def_blocks[bid])[1] != i:
            continue
        # reach `src` from the end of bid without another definition and without an edge that says the flag is unset
        seen, st, hit = set(), [bid], False
        first = True
        while st:
            b = st.pop()
            if b in seen:
                continue
            seen.add(b)
            if not first and b in def_blocks:
                continue
            if b == src and (not first or bid == src):
                hit = True
                break
            first = False
            t = f.blocks[b].term
            for s2, lab in f.edges(b):
                if t and "cond" in t and lab in ("T", "F"):
                    ft = _flag_test(f, t["cond"], name)
                    if ft is not None and (ft != (lab == "T")):
                        continue            # this edge is taken with the flag unset
                st.append(s2)
        if hit or bid == src:
            cands.append((bid, i, rhs))
    if len(cands) != 1:
        return None
    bid, i, rhs = cands[0]
    r = ex.skip(f, rhs)
    re_ = f.exprs[r]
    while re_["k"] == "cast":
        r = ex.skip(f, re_["c"][0])
        re_ = f.exprs[r]
    if not ((re_["k"] == "bin" and re_["op"] in _BOOLISH) or (re_["k"] == "un" and re_["op"] == "!")):
        return None
    return r, bid


def _flag_definition(f, node, src, depth=0):
    """`node` reads a local that was assigned the outcome of a condition exactly once, in a block that dominates
    the branch block `src`, and nothing the condition reads is stored to in between: the condition node, else None.
    (A branch on such a flag is a branch on the condition as it stood when the flag was set.)"""
    j = ex.skip(f, node)
    e = f.exprs[j]
    while e["k"] == "cast":
        j = ex.skip(f, e["c"][0])
        e = f.exprs[j]
    if e["k"] != "ref" or e.get("dk") != "local" or src is None:
        return None
    name = e["name"]
    c = f._cache.setdefault("flag_defs", {})
    if name not in c:
        defs = []
        for bid, i in flow.all_events(f):
            for lhs, var, op, rhs in flow.stores(f, i):
                nm = var["name"] if var is not None else None
                if nm is None and lhs is not None:
                    le = f.exprs[ex.skip(f, lhs)]
                    if le["k"] == "ref" and le.get("dk") == "local":
                        nm = le["name"]
                if nm == name:
                    defs.append((bid, i, op, rhs))
        taken = any(x["k"] == "un" and x["op"] == "&" and f.exprs[ex.skip(f, x["c"][0])].get("name") == name
                    and f.exprs[ex.skip(f, x["c"][0])]["k"] == "ref" for x in f.exprs)
        c[name] = None
        if len(defs) == 1 and not taken and defs[0][2] == "=" and defs[0][3] is not None:
            r = ex.skip(f, defs[0][3])
            re_ = f.exprs[r]
            while re_["k"] == "cast":
                r = ex.skip(f, re_["c"][0])
                re_ = f.exprs[r]
            if (re_["k"] == "bin" and re_["op"] in _BOOLISH) or (re_["k"] == "un" and re_["op"] == "!"):
                c[name] = (defs[0][0], defs[0][1], r)
    d = c[name]
    if d is None:
        return None
    dbid, di, r = d
    if dbid != src and not flow.dominates(f, dbid, src):
        return None
    # nothing the condition reads is stored to between the definition and the branch
    o = Operand(f, r)
    pos = flow.elem_pos(f)
    if di not in pos:
        return None
    if dbid == src:
        span = [(dbid, pos[di][1] + 1, None)]
    else:
        fwd = flow.reach_from(f, dbid)
        back = set()
        st = [src]
        while st:
            n = st.pop()
            if n in back:
                continue
            back.add(n)
            st.extend(f.blocks[n].preds)
        span = [(dbid, pos[di][1] + 1, None)] + [(m, 0, None) for m in (fwd & back) - {dbid}]
    for bid, a, b in span:
        for i in f.blocks[bid].elems[a:b]:
            if not flow.is_event(f, i):
                continue
            for lhs, var, op, rhs in flow.stores(f, i):
                if var is not None and var["name"] in o.locals:
                    return None
                if lhs is None:
                    continue
                le = f.exprs[ex.skip(f, lhs)]
                while le["k"] == "idx":
                    le = f.exprs[ex.skip(f, le["c"][0])]
                if le["k"] == "ref" and le.get("name") in o.locals:
                    return None
                if le["k"] == "mem" and "%s.%s" % (le.get("in"), le["member"]) in o.fields:
                    return None
    return r


def dominating_atoms(f, bid):
    """Atoms of every branch edge that dominates block bid (every path from
    the entry to bid takes that edge)."""
    c = f._cache.setdefault("dom_atoms", {})
    if bid in c:
        return c[bid]
    out = []
    for src, lab, cond in flow.dominating_edges(f, bid):
        if cond is None:
            continue
        if lab in ("T", "F"):
            out.extend(atoms_of(f, cond, lab == "T", src, lab))
            # a flag that is only ever assigned constants, with a single non-zero one: finding it set means that
            # store was executed, so whatever dominates that store held on the way here
            if lab in ("T", "F"):
                ft_name = None
                jc = ex.skip(f, cond)
                ec = f.exprs[jc]
                for _ in range(6):
                    if ec["k"] in ("cast",) or (ec["k"] == "un" and ec["op"] == "!"):
                        jc = ex.skip(f, ec["c"][0])
                        ec = f.exprs[jc]
                    elif ec["k"] == "bin" and ec["op"] in ("==", "!=") and (ex.const(f, ec["c"][1]) == 0 or ex.const(f, ec["c"][0]) == 0):
                        jc = ex.skip(f, ec["c"][0] if ex.const(f, ec["c"][1]) == 0 else ec["c"][1])
                        ec = f.exprs[jc]
                    else:
                        break
                if ec["k"] == "ref" and ec.get("dk") == "local":
                    pol = _flag_test(f, cond, ec["name"])
                    if pol is not None and pol == (lab == "T"):
                        ld = _flag_last_def(f, jc, src)
                        if ld is not None and ld[1] != bid and ld[1] not in c.get("_busy", ()):
                            c.setdefault("_busy", set()).add(ld[1])
                            try:
                                out.extend(dominating_atoms(f, ld[1]))
                            finally:
                                c["_busy"].discard(ld[1])
            tbi = _const_flag_info(f, cond, lab == "T", src)
            tb = tbi[0] if tbi is not None else None
            if tb is not None and tb != bid and tb not in c.get("_busy", ()):
                c.setdefault("_busy", set()).add(tb)
                try:
                    out.extend(dominating_atoms(f, tb))
                finally:
                    c["_busy"].discard(tb)
                # `flag = (0 == x)`: the flag is set only if the comparison held where it was stored;
                # `flag2 = flag`: a copy of another such flag (the result of an inlined helper)
                cur_tb, cur_rhs = tb, tbi[1]
                for _hop in range(4):
                    rj = ex.skip(f, cur_rhs)
                    re_ = f.exprs[rj]
                    while re_["k"] == "cast" and re_.get("c"):
                        rj = ex.skip(f, re_["c"][0])
                        re_ = f.exprs[rj]
                    if (re_["k"] == "bin" and re_["op"] in ("<", "<=", ">", ">=", "==", "!=", "&&")) or (re_["k"] == "un" and re_["op"] == "!"):
                        out.extend(atoms_of(f, rj, True, cur_tb, None))
                        break
                    if re_["k"] == "ref" and re_.get("dk") == "local":
                        nxt = _const_flag_info(f, rj, True, cur_tb)
                        if nxt is None or nxt[0] in c.get("_busy", ()):
                            break
                        c.setdefault("_busy", set()).add(nxt[0])
                        try:
                            out.extend(dominating_atoms(f, nxt[0]))
                        finally:
                            c["_busy"].discard(nxt[0])
                        cur_tb, cur_rhs = nxt
                        continue
                    break
        elif isinstance(lab, tuple):
            L = Operand(f, cond)
            if lab[1] == lab[2]:
                out.append(Atom("==", L, _Const(lab[1]), src, lab, cond))
            else:
                out.append(Atom(">=", L, _Const(lab[1]), src, lab, cond))
                out.append(Atom("<=", L, _Const(lab[2]), src, lab, cond))
    c[bid] = out
    return out


def _const_flag_set_block(f, cond, truth, src):
    r = _const_flag_info(f, cond, truth, src)
    return r[0] if r is not None else None


def _const_flag_info(f, cond, truth, src):
    """(block, rhs node) of the single `flag = <non-zero constant or value>` store when the edge (cond, truth) says the
    flag is set."""
    j = ex.skip(f, cond)
    e = f.exprs[j]
    n = 0
    while n < 6:
        n += 1
        if e["k"] == "cast":
            j = ex.skip(f, e["c"][0])
            e = f.exprs[j]
        elif e["k"] == "un" and e["op"] == "!":
            truth = not truth
            j = ex.skip(f, e["c"][0])
            e = f.exprs[j]
        elif e["k"] == "bin" and e["op"] in ("==", "!=") and (ex.const(f, e["c"][1]) == 0 or ex.const(f, e["c"][0]) == 0):
            if e["op"] == "==":
                truth = not truth
            j = ex.skip(f, e["c"][0] if ex.const(f, e["c"][1]) == 0 else e["c"][1])
            e = f.exprs[j]
        else:
            break
    if not truth or e["k"] != "ref" or e.get("dk") != "local":
        return None
    name = e["name"]
    cc = f._cache.setdefault("const_flags", {})
    if name not in cc:
        sets, ok = [], True
        for bid, i in flow.all_events(f):
            for lhs, var, op, rhs in flow.stores(f, i):
                nm = var["name"] if var is not None else None
                if nm is None and lhs is not None:
                    le = f.exprs[ex.skip(f, lhs)]
                    if le["k"] == "ref" and le.get("dk") == "local":
                        nm = le["name"]
                if nm != name:
                    continue
                v = ex.const(f, rhs) if (rhs is not None and op == "=") else None
                if v is None and rhs is not None and op == "=" and ex.is_null(f, rhs):
                    v = 0
                if v is None:
                    # `victim = cn`: a value that may or may not be zero; with every other store a zero, finding the
                    # variable non-zero still means this store was executed
                    if op == "=" and rhs is not None:
                        sets.append((bid, rhs))
                    else:
                        ok = False
                elif v != 0:
                    sets.append((bid, rhs))
        taken = any(x["k"] == "un" and x["op"] == "&" and f.exprs[ex.skip(f, x["c"][0])]["k"] == "ref"
                    and f.exprs[ex.skip(f, x["c"][0])].get("name") == name for x in f.exprs)
        cc[name] = sets[0] if (ok and not taken and len(sets) == 1) else None
    return cc[name]


class _Const(_Zero):
    def __init__(self, v):
        self.const = v
        self.text = str(v)


def atoms_at(f, eid):
    bid = flow.block_of(f, eid)
    if bid is None:
        return []
    return dominating_atoms(f, bid)


def edge_atoms(f, src, lab):
    t = f.blocks[src].term
    if not t or "cond" not in t or lab not in ("T", "F"):
        return []
    return atoms_of(f, t["cond"], lab == "T", src, lab)


# --------------------------------------------------------------------------
# must-pass-through

def must_pass(f, from_eid, pred):
    """Every path from just after event `from_eid` to a function exit executes
    an event satisfying pred(f, eid).  Returns (ok, witness_exit_block)."""
    pos = flow.elem_pos(f)[from_eid]
    bid0, n0 = pos
    b0 = f.blocks[bid0]
    for i in b0.elems[n0 + 1:]:
        if flow.is_event(f, i) and pred(f, i):
            return True, None
    hit = set()
    for bid in f.blocks:
        for i in flow.events(f, bid):
            if pred(f, i):
                hit.add(bid)
                break
    # Paths are followed with the values of constant-only flags (locals that are only ever assigned integer constants):
    # `discard = TRUE; ... if (discard) { cleanup }` - the edge the known value contradicts is not taken.
    flags = _constant_only_flags(f)
    val0 = _flag_updates(f, b0.elems[n0 + 1:], {}, flags)
    seen = set()
    st = [(s, lab, bid0, val0) for s, lab in f.edges(bid0)]
    while st:
        n, lab, src, val = st.pop()
        if lab in ("T", "F") and val and not _edge_agrees(f, src, lab, val):
            continue
        key = (n, tuple(sorted(val.items())))
        if key in seen or n in hit:
            continue
        seen.add(key)
        if len(seen) > 20000:
            return False, n
        if n == f.exit:
            return False, n
        val2 = _flag_updates(f, f.blocks[n].elems, val, flags) if flags else val
        for s, l2 in f.edges(n):
            st.append((s, l2, n, val2))
    return True, None


def exit_reachable_avoiding(f, start_bid, hit):
    """Block through which the exit is reached from the start of block start_bid without entering a block of `hit`, or
    None.  Like must_pass the search carries the values of constant-only flags and does not take contradicted edges."""
    flags = _constant_only_flags(f)
    seen = set()
    st = [(start_bid, None, None, {})]
    while st:
        n, lab, src, val = st.pop()
        if lab in ("T", "F") and val and not _edge_agrees(f, src, lab, val):
            continue
        key = (n, tuple(sorted(val.items())))
        if key in seen or n in hit:
            continue
        seen.add(key)
        if n == f.exit or len(seen) > 20000:
            return n
        val2 = _flag_updates(f, f.blocks[n].elems, val, flags) if flags else val
        for s, l2 in f.edges(n):
            st.append((s, l2, n, val2))
    return None


def _constant_only_flags(f):
    c = f._cache.get("const_only_flags")
    if c is None:
        vals, bad = {}, set()
        for bid, i in flow.all_events(f):
            for lhs, var, op, rhs in flow.stores(f, i):
                nm = var["name"] if var is not None else None
                if nm is None and lhs is not None:
                    le = f.exprs[ex.skip(f, lhs)]
                    if le["k"] == "ref" and le.get("dk") == "local":
                        nm = le["name"]
                if nm is None:
                    continue
                if rhs is None:
                    if var is None:
                        bad.add(nm)
                    continue
                v = ex.const(f, rhs) if op == "=" else None
                if v is None:
                    bad.add(nm)
                else:
                    vals.setdefault(nm, set()).add(v)
        taken = {f.exprs[ex.skip(f, x["c"][0])].get("name") for x in f.exprs
                 if x["k"] == "un" and x["op"] == "&" and x.get("c") and f.exprs[ex.skip(f, x["c"][0])]["k"] == "ref"}
        c = {n for n in vals if n not in bad and n not in taken and len(vals[n]) >= 2}
        f._cache["const_only_flags"] = c
    return c


def _flag_updates(f, elems, val, flags):
    if not flags:
        return val
    out = val
    for i in elems:
        if not flow.is_event(f, i):
            continue
        for lhs, var, op, rhs in flow.stores(f, i):
            nm = var["name"] if var is not None else None
            if nm is None and lhs is not None:
                le = f.exprs[ex.skip(f, lhs)]
                if le["k"] == "ref" and le.get("dk") == "local":
                    nm = le["name"]
            if nm in flags and rhs is not None and op == "=":
                v = ex.const(f, rhs)
                if v is not None:
                    if out is val:
                        out = dict(val)
                    out[nm] = v
    return out


_REL = {"<": lambda a, b: a < b, "<=": lambda a, b: a <= b, ">": lambda a, b: a > b, ">=": lambda a, b: a >= b,
        "==": lambda a, b: a == b, "!=": lambda a, b: a != b}


def _edge_agrees(f, src, lab, val):
    for a in edge_atoms(f, src, lab):
        if a.R is None or a.R.const is None or a.L.fields or a.L.calls or len(a.L.locals) != 1 or a.L.incr is not None or a.L.node is None:
            continue
        e = f.exprs[ex.skip(f, a.L.node)]
        k = 0
        while e["k"] == "cast" and e.get("c") and k < 6:
            e = f.exprs[ex.skip(f, e["c"][0])]
            k += 1
        if e["k"] != "ref":
            continue
        nm = e.get("name")
        if nm in val and a.rel in _REL and not _REL[a.rel](val[nm], a.R.const):
            return False
    return True


def reaches(f, from_bid, pred, avoid=()):
    """Some path from the start of block from_bid executes an event
    satisfying pred.  Returns the event id or None."""
    seen = set()
    st = [from_bid]
    avoid = set(avoid)
    while st:
        n = st.pop()
        if n in seen or n in avoid:
            continue
        seen.add(n)
        for i in flow.events(f, n):
            if pred(f, i):
                return i
        for s, _ in f.edges(n):
            st.append(s)
    return None


def store_to_field(field, value=None):
    """Predicate: event stores to `record.member` (optionally the constant value)."""
    def pred(f, i):
        for lhs, var, op, rhs in flow.stores(f, i):
            if lhs is None:
                continue
            l = ex.skip(f, lhs)
            e = f.exprs[l]
            # element of an array field counts as the field
            while e["k"] == "idx":
                l = ex.skip(f, e["c"][0])
                e = f.exprs[l]
            if e["k"] == "mem" and "%s.%s" % (e.get("in"), e["member"]) == field:
                if value is None:
                    return True
                if op == "=" and ex.const(f, rhs) == value:
                    return True
        return False
    return pred


def call_to(*names):
    def pred(f, i):
        e = f.exprs[i]
        return e["k"] == "call" and e.get("callee") in names
    return pred
