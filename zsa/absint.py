"""Interval abstract interpretation + must-facts over a function's CFG.

State: dict key -> value
  ("iv", path)            -> (lo, hi)   integer interval of the lvalue `path`
  ("fact", cond_id, lab)  -> True       branch fact: cond_id took edge `lab`
                                        and nothing it mentions changed since
Missing key = no information (type range / unknown).  Join = intersection of
keys with interval hull.  Stores and calls kill the keys that mention what
they may modify (field-based aliasing by (record, field), type-based for
pointer dereferences).

Intervals use None for -inf / +inf.  Every bound carries no provenance here;
provenance ("guard" vs "type") is recovered by the caller by comparing with
the declared type range.
"""
from . import ex, flow, summaries

INF = None


def type_range(it, bf=None):
    if not it:
        return (None, None)
    bits, signed = it
    if bf:
        bits = bf
    if bits == 1 and not signed:
        return (0, 1)
    if signed:
        return (-(1 << (bits - 1)), (1 << (bits - 1)) - 1)
    return (0, (1 << bits) - 1)


def node_range(e):
    return type_range(e.get("it"), e.get("bf"))


def hull(a, b):
    lo = None if a[0] is None or b[0] is None else min(a[0], b[0])
    hi = None if a[1] is None or b[1] is None else max(a[1], b[1])
    return (lo, hi)


def meet(a, b):
    lo = a[0] if b[0] is None else (b[0] if a[0] is None else max(a[0], b[0]))
    hi = a[1] if b[1] is None else (b[1] if a[1] is None else min(a[1], b[1]))
    return (lo, hi)


def is_empty(a):
    return a[0] is not None and a[1] is not None and a[0] > a[1]


def within(a, b):
    """a subset of b"""
    if b[0] is not None and (a[0] is None or a[0] < b[0]):
        return False
    if b[1] is not None and (a[1] is None or a[1] > b[1]):
        return False
    return True


def add(a, b):
    return (None if a[0] is None or b[0] is None else a[0] + b[0],
            None if a[1] is None or b[1] is None else a[1] + b[1])


def neg(a):
    return (None if a[1] is None else -a[1], None if a[0] is None else -a[0])


def sub(a, b):
    return add(a, neg(b))


def mul(a, b):
    if None in a or None in b:
        # handle the common non-negative case
        if a[0] is not None and b[0] is not None and a[0] >= 0 and b[0] >= 0:
            return (a[0] * b[0], None if a[1] is None or b[1] is None else a[1] * b[1])
        return (None, None)
    c = [a[0] * b[0], a[0] * b[1], a[1] * b[0], a[1] * b[1]]
    return (min(c), max(c))


def _tdiv(x, y):
    q = abs(x) // abs(y)
    return q if (x >= 0) == (y >= 0) else -q


def div(a, b):
    if b[0] is not None and b[1] is not None and (b[0] > 0 or b[1] < 0) and None not in a:
        c = [_tdiv(a[0], b[0]), _tdiv(a[0], b[1]), _tdiv(a[1], b[0]), _tdiv(a[1], b[1])]
        return (min(c), max(c))
    if b[0] is not None and b[0] > 0 and a[0] is not None and a[0] >= 0:
        return (0 if a[0] is None else _tdiv(a[0], b[1]) if b[1] is not None else 0,
                None if a[1] is None else _tdiv(a[1], b[0]))
    return (None, None)


def rem(a, b):
    if b[0] is not None and b[1] is not None and b[0] > 0:
        m = b[1] - 1
        if a[0] is not None and a[0] >= 0:
            hi = m if a[1] is None else min(m, a[1])
            return (0, hi)
        return (-m, m)
    return (None, None)


def _bits_for(n):
    return n.bit_length()


def _single(a):
    return a[0] is not None and a[0] == a[1]


def band(a, b):
    if _single(a) and _single(b):
        return (a[0] & b[0], a[0] & b[0])
    # x & m with m = 1..10..0 covering every bit x can have above the cleared low
    # bits rounds x down to a multiple of 2^k: monotone in x
    for x, m in ((a, b), (b, a)):
        if m[0] is not None and m[0] == m[1] and m[0] > 0 and x[0] is not None and x[0] >= 0 and x[1] is not None:
            k = (m[0] & -m[0]).bit_length() - 1
            top = m[0].bit_length()
            if m[0] == ((1 << top) - 1) ^ ((1 << k) - 1) and x[1] < (1 << top):
                return (x[0] & m[0], x[1] & m[0])
    # non-negative operand bounds the result
    cands = []
    if a[0] is not None and a[0] >= 0 and a[1] is not None:
        cands.append(a[1])
    if b[0] is not None and b[0] >= 0 and b[1] is not None:
        cands.append(b[1])
    if cands:
        return (0, min(cands))
    return (None, None)


def bor(a, b):
    if _single(a) and _single(b):
        return (a[0] | b[0], a[0] | b[0])
    if a[0] is not None and b[0] is not None and a[0] >= 0 and b[0] >= 0:
        if a[1] is None or b[1] is None:
            return (max(a[0], b[0]), None)
        n = max(_bits_for(a[1]), _bits_for(b[1]))
        # x | y = x + y - (x & y) <= x + y for non-negative operands
        return (max(a[0], b[0]), min((1 << n) - 1, a[1] + b[1]))
    # a negative operand makes the result negative or keeps sign unknown
    lo = None
    if a[0] is not None and b[0] is not None:
        lo = min(a[0], b[0], -1) if (a[0] < 0 or b[0] < 0) else 0
        # two's complement OR is >= min of negatives
    hi = None
    if a[1] is not None and b[1] is not None:
        if a[1] < 0 or b[1] < 0:
            hi = -1
        else:
            n = max(_bits_for(a[1]), _bits_for(b[1]))
            hi = (1 << n) - 1
    return (lo, hi)


def bxor(a, b):
    if _single(a) and _single(b):
        return (a[0] ^ b[0], a[0] ^ b[0])
    if a[0] is not None and b[0] is not None and a[0] >= 0 and b[0] >= 0 and a[1] is not None and b[1] is not None:
        n = max(_bits_for(a[1]), _bits_for(b[1]))
        return (0, (1 << n) - 1)
    return (None, None)


def shl(a, b):
    if None in b or b[0] < 0 or b[1] > 64:
        return (None, None)
    if None in a:
        if a[0] is not None and a[0] >= 0:
            return (a[0] << b[0], None)
        return (None, None)
    c = [a[0] << b[0], a[0] << b[1], a[1] << b[0], a[1] << b[1]]
    return (min(c), max(c))


def shr(a, b):
    if None in b or b[0] < 0:
        if a[0] is not None and a[0] >= 0:
            return (0, a[1])
        return (None, None)
    if None in a:
        if a[0] is not None and a[0] >= 0:
            return (a[0] >> min(b[1], 200), None)
        return (None, None)
    c = [a[0] >> b[0], a[0] >> b[1], a[1] >> b[0], a[1] >> b[1]]
    return (min(c), max(c))


def wrap(iv, it, arith=False):
    """Convert interval to integer type `it` ([bits, signed]).  With
    arith=True the interval is the result of signed arithmetic, whose overflow
    is undefined: the analysis assumes it does not happen and clamps (signed
    overflow of counters is not decided by this engine)."""
    if not it:
        return iv
    tr = type_range(it)
    if within(iv, tr):
        return iv
    if arith and it[1]:
        return meet(iv, tr)
    if None not in iv and iv[1] - iv[0] < (1 << it[0]):
        # both ends wrap to the same "lap"?
        m = 1 << it[0]
        lo, hi = iv[0] % m, iv[1] % m
        if it[1]:
            if lo >= m // 2:
                lo -= m
            if hi >= m // 2:
                hi -= m
        if lo <= hi:
            return (lo, hi)
    return tr


class Mentions:
    __slots__ = ("refs", "fields", "derefs", "nonlocal_", "recs", "trange")

    def __init__(self):
        self.trange = None
        self.refs = set()
        self.fields = set()
        self.derefs = set()
        self.recs = set()
        self.nonlocal_ = False


def mentions(f, i):
    """What memory an expression reads (for kill decisions)."""
    c = f._cache.setdefault("mentions", {})
    if i in c:
        return c[i]
    m = Mentions()
    for n in ex.walk(f, i):
        e = f.exprs[n]
        k = e["k"]
        if k == "ref":
            dk = e.get("dk")
            if dk in ("local", "param"):
                m.refs.add(e["name"])
            elif dk in ("global", "slocal"):
                m.refs.add("g:" + e["name"])
                if not e.get("t", "").startswith("const "):
                    m.nonlocal_ = True
        elif k == "mem":
            m.fields.add((e.get("in"), e["member"]))
            if e.get("in"):
                m.recs.add(e["in"])
            if e.get("arrow") or summaries.is_nonlocal_lvalue(f, n):
                m.nonlocal_ = True
        elif k == "idx":
            if summaries.is_nonlocal_lvalue(f, n):
                m.nonlocal_ = True
                m.derefs.add(e.get("t"))
        elif k == "un" and e["op"] == "*":
            m.nonlocal_ = True
            m.derefs.add(e.get("t"))
    c[i] = m
    return m


def addr_taken_locals(f):
    c = f._cache.get("addr_taken")
    if c is None:
        c = set()
        for i, e in enumerate(f.exprs):
            if e["k"] == "un" and e["op"] == "&":
                r = ex.root(f, e["c"][0])
                if r is not None and f.exprs[r].get("dk") in ("local", "param"):
                    # &local, &local.field, &local[i]: the local's storage escapes
                    if not summaries.is_nonlocal_lvalue(f, e["c"][0]):
                        # only count when used as a call argument or stored
                        c.add(f.exprs[r]["name"])
        # (void)(&_x == &_y) in MIN/MAX does not let the address escape
        c = {n for n in c if not n.startswith("_")} | {n for n in c if n.startswith("_") and not _only_compared(f, n)}
        f._cache["addr_taken"] = c
    return c


def _only_compared(f, name):
    for i, e in enumerate(f.exprs):
        if e["k"] == "un" and e["op"] == "&":
            r = ex.root(f, e["c"][0])
            if r is not None and f.exprs[r].get("name") == name:
                ok = False
                for j, p in enumerate(f.exprs):
                    if p["k"] == "bin" and p["op"] in ("==", "!=") and i in [ex.skip(f, x) for x in p.get("c", [])]:
                        ok = True
                if not ok:
                    return False
    return True


class Analysis:
    """Interval + fact analysis of one function."""

    def __init__(self, ctx, f, param_iv=None, extra_init=None):
        self.extra_init = extra_init or {}     # access path ("sp->count[0]") -> interval at function entry
        self.ctx = ctx            # Context (program-wide helpers)
        self.prog = ctx.prog
        self.sums = ctx.sums
        self.f = f
        self.keyinfo = {}         # key -> Mentions
        self.param_iv = param_iv or {}
        self.IN = None
        self.taken = addr_taken_locals(f)

    # ---- running -----------------------------------------------------------
    def run(self):
        f = self.f
        init = {}
        for p in f.params:
            iv = self.param_iv.get(p["name"])
            if iv is not None and iv != (None, None):
                k = ("iv", p["name"])
                init[k] = iv
                self._keyinfo_path(k, None, p["name"])
        if self.extra_init:
            want = dict(self.extra_init)
            for n, e in enumerate(f.exprs):
                if not want:
                    break
                if e["k"] in ("mem", "idx") and "it" in e:
                    pth = ex.path(f, n)
                    if pth in want:
                        k = self.track_key(n)
                        if k is not None:
                            init[k] = want.pop(pth)
                            if getattr(self, "persistent", False):
                                if not hasattr(self, "pinned"):
                                    self.pinned = {}
                                self.pinned[k] = init[k]
            self.extra_missing = sorted(want)
        # pointer parameters are cursors of an array of unknown size (offset 0 at entry) in functions that compare
        # pointer locals with each other: `end = p + 40; for (p += 1; p < end; p += 3)` is then a counted loop
        if self._compares_pointers():
            for p in f.params:
                if p.get("t", "").rstrip().endswith("*") and "it" not in p and p["name"] not in self.taken:
                    ok, pk = self._ptr_keys(p["name"])
                    init[pk] = (None, "*" + p["name"])
                    init[ok] = (0, 0)
        self.caps = {}
        self.IN = self._forward(init)
        # second phase: counters of loops with a bounded trip count are capped
        # (loops.caps) instead of being widened to their type maximum
        from . import loops
        if loops.natural_loops(f):
            try:
                caps = loops.caps(self)
            except RecursionError:
                caps = {}
            # later loops depend on the counters of earlier ones: iterate
            for _ in range(4):
                if not caps or caps == self.caps:
                    break
                self.caps = caps
                self.IN = self._forward(init)
                try:
                    caps = loops.caps(self)
                except RecursionError:
                    break
        return self

    # ---- forward engine with iteration-partitioned loops -------------------
    # A loop whose abstract execution from its entry state leaves the loop by
    # itself within MAX_TRIPS iterations (for (i = 0; i < 20; i++) with a
    # constant start: i is a singleton in every iteration) is executed
    # iteration by iteration without joining at the head (trace partitioning
    # by iteration count).  This is exact where widening + caps is not: e.g.
    # `index` in  for (i = 0; i < 20; index++, i++) { if (i == 10) index += 6; ... }
    # Any other loop is handled by join/widen at its head as before.
    MAX_TRIPS = int(__import__("os").environ.get("ZSA_TRIPS", "64"))
    UNROLL_BUDGET = 8000        # block visits spent in unrolled iterations per run

    def _forward(self, init):
        from . import loops
        self._loops = loops.natural_loops(self.f)
        self._no_unroll = getattr(self, "_no_unroll", set())     # failures persist over the passes of run()
        self._budget = self.UNROLL_BUDGET
        self._wcount = {}
        IN = {}
        self._fw(self.f.entry, init, None, IN, None, None)
        return IN

    def _fw(self, entry, init, region, IN, exits, back):
        """Worklist over `region` (None = whole function) starting at `entry`
        with state `init`.  IN accumulates (joins) block entry states.  Edges
        leaving the region are joined into exits[succ]; edges back to `entry`
        (when region is a loop body) into back[0]."""
        f = self.f
        pos = f._cache.get("rpo_pos")
        if pos is None:
            pos = f._cache["rpo_pos"] = {b: k for k, b in enumerate(f.rpo())}
        local = {entry: init}          # states of this run (not mixed with earlier iterations)
        visits = {}
        work = {entry}
        while work:
            bid = min(work, key=lambda b: pos.get(b, 1 << 30))
            work.discard(bid)
            s = local.get(bid)
            if s is None:
                continue
            visits[bid] = visits.get(bid, 0) + 1
            if visits[bid] > 60:
                raise RuntimeError("dataflow does not converge in %s block %d" % (f.name, bid))
            old_in = IN.get(bid)
            IN[bid] = s if old_in is None else self.join(old_in, s)
            if region is not None:
                self._budget -= 1
            # an inner (or, at top level, any) loop head: try to run it unrolled
            if bid in self._loops and bid != entry and (bid, ) not in self._no_unroll:
                r = self._unroll(bid, s, IN)
                if r is not None:
                    for succ, s2 in r.items():
                        self._flow_to(succ, s2, bid, entry, region, local, work, exits, back, visits, pos, widen=False)
                    continue
                self._no_unroll.add((bid, ))
            for eid in f.blocks[bid].elems:
                s = self.xfer_elem(s, eid)
                if s is None:
                    break
            if s is None:
                continue
            for succ, lab in f.edges(bid):
                s2 = self.xfer_edge(s, bid, lab, succ)
                if s2 is None:
                    continue
                if isinstance(lab, tuple) and 2 <= lab[2] - lab[1] + 1 <= self.MAX_CASE_SPLIT and succ != entry \
                        and (region is None or succ in region):
                    r = self._split_case(bid, succ, s2, IN)
                    if r is not None:
                        for s3, st3 in r.items():
                            self._flow_to(s3, st3, bid, entry, region, local, work, exits, back, visits, pos, widen=False)
                        continue
                self._flow_to(succ, s2, bid, entry, region, local, work, exits, back, visits, pos, widen=True)

    # `case 9 ... 14:` - the switch value is a small range: the code under the
    # label is analysed once per value (value partitioning), so that quantities
    # computed from it (index = (packet - 9) * 0x30 + 10) stay correlated with it
    MAX_CASE_SPLIT = 8

    def _split_case(self, sw, succ, st, IN):
        f = self.f
        t = f.blocks[sw].term
        key = self._refinable(t["cond"]) if t and "cond" in t else None
        if key is None or key not in st or self._budget <= 0:
            return None
        iv = st[key]
        if iv[0] is None or iv[1] is None or iv[0] == iv[1] or iv[1] - iv[0] + 1 > self.MAX_CASE_SPLIT:
            return None
        c = f._cache.setdefault("dom_region", {})
        if succ not in c:
            c[succ] = {b for b in flow.reach_from(f, succ) if flow.dominates(f, succ, b)}
        region = c[succ]
        scratch, exits = {}, {}
        for v in range(iv[0], iv[1] + 1):
            s1 = dict(st)
            s1[key] = (v, v)
            back = [None]
            try:
                self._fw(succ, s1, region, scratch, exits, back)
            except RuntimeError:
                return None
            if back[0] is not None:
                return None        # the label is itself a loop head: not handled
        for b, s in scratch.items():
            o = IN.get(b)
            IN[b] = s if o is None else self.join(o, s)
        return exits

    def _flow_to(self, succ, s2, bid, entry, region, local, work, exits, back, visits, pos, widen):
        if region is not None:
            if succ == entry:
                back[0] = s2 if back[0] is None else self.join(back[0], s2)
                return
            if succ not in region:
                exits[succ] = s2 if succ not in exits else self.join(exits[succ], s2)
                return
        old = local.get(succ)
        if old is None:
            new = s2
        else:
            new = self.join(old, s2)
            if widen and visits.get(succ, 0) >= 3 and pos.get(succ, 0) <= pos.get(bid, 0):
                new = self.widen(old, new, succ)
        if old is None or new != old:
            local[succ] = new
            work.add(succ)

    def _unroll(self, head, entry_state, IN):
        """Execute the loop at `head` iteration by iteration from entry_state.
        Returns {exit successor: state} or None when the loop does not leave
        by itself within MAX_TRIPS iterations (then nothing was recorded)."""
        body = self._loops[head]
        if self._budget <= 0 or not self._unroll_candidate(head, body, entry_state):
            return None
        scratch = {}
        exits = {}
        st = entry_state
        prev = None
        for k in range(self.MAX_TRIPS + 1):
            if st is None:
                break
            if st == prev or self._budget <= 0:
                return None
            back = [None]
            try:
                self._fw(head, st, body, scratch, exits, back)
            except RuntimeError:
                return None
            prev = st
            st = back[0]
            if st is not None and any(kk[0] == "old" for kk in st):
                st = {kk: v for kk, v in st.items() if kk[0] != "old"}
        else:
            return None
        if st is not None:
            return None
        for b, s in scratch.items():
            o = IN.get(b)
            IN[b] = s if (o is None or b == head) else self.join(o, s)
        return exits

    def _unroll_candidate(self, head, body, entry_state):
        """Cheap pre-test: some exit test of the loop reads a tracked value
        that is a single constant when the loop is entered."""
        f = self.f
        c = f._cache.setdefault("loop_exit_conds", {})
        if head not in c:
            conds = []
            for b in body:
                t = f.blocks[b].term
                if t and "cond" in t and any(s not in body for s, _ in f.edges(b)):
                    conds.append(t["cond"])
            c[head] = conds
        for cond in c[head]:
            for n in ex.walk(f, cond):
                e = f.exprs[n]
                if e["k"] in ("ref", "mem") and "it" in e and "v" not in e:
                    key = self.track_key(n)
                    v = entry_state.get(key) if key is not None else None
                    if v is not None and v[0] is not None and v[0] == v[1]:
                        return True
                elif e["k"] == "ref" and e.get("dk") in ("local", "param") and ("pb", e.get("name")) in entry_state:
                    v = entry_state.get(("iv", "@" + e["name"]))
                    if v is not None and v[0] is not None and v[0] == v[1]:
                        return True
        return False

    def state_before(self, eid):
        """State just before event/expression `eid` is evaluated."""
        pos = flow.elem_pos(self.f).get(eid)
        if pos is None:
            return None
        return flow.replay_block(self.f, self.IN, pos[0], self.xfer_elem, upto=eid)

    def state_before_expr(self, eid):
        """State before the first CFG element that belongs to the expression
        tree of `eid` (its operands are evaluated - and their side effects
        applied - before the node itself appears as an element): the state in
        which eval (eid) computes the value the program computes."""
        f = self.f
        pos = flow.elem_pos(f)
        p = pos.get(eid)
        if p is None:
            return None
        first = eid
        best = p[1]
        for n in ex.walk(f, eid):
            q = pos.get(n)
            if q is not None and q[0] == p[0] and q[1] < best:
                best = q[1]
                first = n
        return flow.replay_block(f, self.IN, p[0], self.xfer_elem, upto=first)

    def state_at_end(self, bid):
        return flow.replay_block(self.f, self.IN, bid, self.xfer_elem)

    # ---- lattice -------------------------------------------------------------
    @staticmethod
    def join(a, b):
        if a is b:
            return a
        out = {}
        for k, v in a.items():
            w = b.get(k)
            if w is None:
                continue
            if k[0] in ("iv", "old"):
                out[k] = hull(v, w)
            elif k[0] in ("ver", "pb", "cp"):
                if v == w:
                    out[k] = v
            elif k[0] == "or":
                m = v & w
                if m:
                    out[k] = m
            else:
                out[k] = True
        return out

    def widen(self, old, new, bid=None):
        out = {}
        for k, v in new.items():
            if k[0] != "iv":
                out[k] = v
                continue
            o = old.get(k)
            if o is None:
                continue
            lo = v[0] if (v[0] is not None and o[0] is not None and v[0] >= o[0]) else None
            hi = v[1] if (v[1] is not None and o[1] is not None and v[1] <= o[1]) else None
            # widening with thresholds: jump to the nearest constant the function
            # itself compares against (assert (n < 20) ... n++ stabilises at 20)
            wc = self._wcount = getattr(self, "_wcount", {})
            if hi is None or lo is None:
                wc[(bid, k)] = wc.get((bid, k), 0) + 1
            use_th = wc.get((bid, k), 0) <= 2          # then give up and go to the type limit
            if isinstance(k[1], str) and k[1].startswith("@"):
                # a cursor: the offsets of the cursors it is compared with (`d < dx`)
                for peer in self._cursor_peers(k[1][1:]):
                    pv = new.get(("iv", "@" + peer))
                    if pv is None or new.get(("pb", peer)) != new.get(("pb", k[1][1:])):
                        continue
                    if hi is None and v[1] is not None and pv[1] is not None and pv[1] >= v[1]:
                        hi = pv[1]
                    if lo is None and v[0] is not None and pv[0] is not None and pv[0] <= v[0]:
                        lo = pv[0]
            if use_th and hi is None and v[1] is not None:
                for th in self._thresholds(k):
                    if th >= v[1]:
                        hi = th
                        break
            if use_th and lo is None and v[0] is not None:
                for th in reversed(self._thresholds(k)):
                    if th <= v[0]:
                        lo = th
                        break
            # stay within the declared type
            info = self.keyinfo.get(k)
            tr = getattr(info, "trange", None) if info else None
            if tr:
                if lo is None:
                    lo = tr[0]
                if hi is None:
                    hi = tr[1]
            cap = self.caps.get((bid, k))
            if cap is not None and (hi is None or hi > cap):
                hi = cap       # a proven invariant of this loop head (loops.caps)
            if (lo, hi) != (None, None):
                out[k] = (lo, hi)
        return out

    def _thresholds(self, key=None):
        """Constants the function compares against - for a local variable only
        those it is itself compared with."""
        f = self.f
        c = f._cache.setdefault("thresholds", {})
        name = key[1] if key is not None and key[0] == "iv" and isinstance(key[1], str) and key[1].isidentifier() else None
        if name not in c:
            vals = set()
            for e in f.exprs:
                if e["k"] == "bin" and e["op"] in ("<", ">", "<=", ">=", "==", "!="):
                    for x, y in ((e["c"][0], e["c"][1]), (e["c"][1], e["c"][0])):
                        v = ex.const(f, x)
                        if v is not None and -(1 << 31) <= v <= (1 << 32):
                            if name is not None and not self._is_var_expr(y, name):
                                continue
                            vals.update((v - 1, v, v + 1))
            c[name] = sorted(vals)
        return c[name]

    def _is_var_expr(self, y, name, depth=0):
        """y is `name`, `name +- const` or a cast of those."""
        f = self.f
        j = ex.skip(f, y)
        e = f.exprs[j]
        while e["k"] == "cast":
            j = ex.skip(f, e["c"][0])
            e = f.exprs[j]
        if e["k"] == "ref":
            return e.get("name") == name
        if e["k"] == "un" and e["op"] in ("++", "--"):
            return self._is_var_expr(e["c"][0], name, depth + 1)
        if e["k"] == "bin" and e["op"] in ("+", "-") and depth < 3:
            return (ex.const(f, e["c"][1]) is not None and self._is_var_expr(e["c"][0], name, depth + 1)) or \
                   (ex.const(f, e["c"][0]) is not None and self._is_var_expr(e["c"][1], name, depth + 1))
        return False

    # ---- keys ------------------------------------------------------------------
    def _keyinfo_path(self, key, lv, name=None):
        if key in self.keyinfo:
            return
        if lv is not None:
            m = mentions(self.f, lv)
            mm = Mentions()
            mm.refs, mm.fields, mm.derefs, mm.recs, mm.nonlocal_ = set(m.refs), set(m.fields), set(m.derefs), set(m.recs), m.nonlocal_
            try:
                mm_tr = node_range(self.f.exprs[ex.skip(self.f, lv)])
            except Exception:
                mm_tr = None
            self.keyinfo[key] = mm
            mm.trange = mm_tr
        else:
            mm = _MentionsTR()
            mm.refs.add(name)
            mm.trange = None
            for p in self.f.params:
                if p["name"] == name:
                    mm.trange = type_range(p.get("it"))
            self.keyinfo[key] = mm

    def track_key(self, lv, st=None):
        """Key for an lvalue we are willing to track, or None.  With a state,
        `a[j]` of a local array `a` whose index j is a single constant there is
        the element key `a[c]` (so that an unrolled loop fills distinct keys)."""
        f = self.f
        i = ex.skip(f, lv)
        if st is not None and i is not None and i >= 0:
            ce = self._const_elem_key(i, st)
            if ce is not None:
                return ce
        if i is None or i < 0:
            return None
        e = f.exprs[i]
        if "it" not in e:
            return None
        p = ex.path(f, i)
        if p is None or "*]" in p:
            return None
        if e["k"] == "ref":
            if e.get("dk") not in ("local", "param"):
                return None
            p = self._local_name(e)
        elif e["k"] not in ("mem", "idx") and not (e["k"] == "un" and e["op"] == "*"):
            return None
        if e["k"] == "idx" and ex.const(f, e["c"][1]) is None:
            # only index paths whose index is itself a stable local path
            ip = ex.skip(f, e["c"][1])
            if f.exprs[ip]["k"] != "ref":
                return None
        k = ("iv", p)
        self._keyinfo_path(k, i)
        return k

    def _local_name(self, e):
        return e["name"]

    def _const_elem_key(self, i, st):
        f = self.f
        e = f.exprs[i]
        if e["k"] != "idx" or "it" not in e:
            return None
        b = ex.skip(f, e["c"][0])
        be = f.exprs[b]
        while be["k"] == "cast" and be["ck"] in ("ArrayToPointerDecay", "NoOp"):
            b = ex.skip(f, be["c"][0])
            be = f.exprs[b]
        if not (be["k"] == "ref" and be.get("dk") == "local" and "arr" in be and be["name"] not in self.taken):
            return None
        ix = e["c"][1]
        c = ex.const(f, ix)
        if c is None:
            v = self.eval(st, ix)
            if v[0] is None or v[0] != v[1]:
                return None
            c = v[0]
        if not (0 <= c < be["arr"][0]):
            return None
        key = ("iv", "%s[%d]" % (be["name"], c))
        if key not in self.keyinfo:
            mm = _MentionsTR()
            mm.refs.add(be["name"])
            mm.trange = node_range(e)
            self.keyinfo[key] = mm
        return key

    # ---- evaluation ----------------------------------------------------------
    def eval(self, st, i, depth=0):
        """Interval of integer expression i in state st."""
        f = self.f
        if i is None or i < 0:
            return (None, None)
        e = f.exprs[i]
        if "v" in e:
            return (e["v"], e["v"])
        if depth > 60:
            return node_range(e)
        k = e["k"]
        tr = node_range(e)
        if k in ("ref", "mem", "idx") or (k == "un" and e["op"] == "*"):
            key = self.track_key(i, st) if k == "idx" else self.track_key(i)
            if key is not None and key in st:
                return meet(st[key], tr) if tr != (None, None) else st[key]
            if key is not None and key in getattr(self, "pinned", ()):
                # an input the analysed function cannot modify (abstract input region, `persistent`)
                pv = self.pinned[key]
                return meet(pv, tr) if tr != (None, None) else pv
            r = self.ctx.load_range(self, f, i, st)
            if r is not None:
                return meet(r, tr)
            return tr
        if k == "cast":
            ck = e["ck"]
            c = e["c"][0]
            if ck in ex.TRANSPARENT_CASTS:
                return self.eval(st, c, depth + 1)
            if ck in ("IntegralCast", "BooleanToSignedIntegral"):
                return wrap(self.eval(st, c, depth + 1), e.get("it"))
            if ck in ("IntegralToBoolean", "PointerToBoolean"):
                v = self.eval(st, c, depth + 1) if ck == "IntegralToBoolean" else (None, None)
                if v[0] is not None and v[0] > 0 or v[1] is not None and v[1] < 0:
                    return (1, 1)
                if v == (0, 0):
                    return (0, 0)
                return (0, 1)
            return tr
        if k == "bin":
            op = e["op"]
            a_id, b_id = e["c"]
            if op == ",":
                return self.eval(st, b_id, depth + 1)
            if op in ("&&", "||", "<", ">", "<=", ">=", "==", "!="):
                if op in ("<", ">", "<=", ">=", "==", "!="):
                    a = self.eval(st, a_id, depth + 1)
                    b = self.eval(st, b_id, depth + 1)
                    r = _cmp_const(op, a, b)
                    if r is not None:
                        return (r, r)
                else:
                    t_ = self._truth(st, i)
                    if t_ is not None:
                        return (1, 1) if t_ else (0, 0)
                return (0, 1)
            a = self.eval(st, a_id, depth + 1)
            b = self.eval(st, b_id, depth + 1)
            if "it" not in e:
                return (None, None)     # pointer arithmetic etc.
            if op == "+":
                r = add(a, b)
            elif op == "-":
                r = sub(a, b)
            elif op == "*":
                r = mul(a, b)
            elif op == "/":
                r = div(a, b)
            elif op == "%":
                r = rem(a, b)
            elif op == "&":
                r = band(a, b)
                mp = self._mask_parts(i)
                if mp is not None:
                    pre = "&:%s:" % mp[0]
                    for k2, v2 in st.items():
                        if k2[0] == "iv" and isinstance(k2[1], str) and k2[1].startswith(pre) and None not in v2:
                            M = int(k2[1][len(pre):])
                            if (M & mp[1]) == mp[1] and v2[1] - v2[0] <= 64:
                                vals = [x & mp[1] for x in range(v2[0], v2[1] + 1)]
                                r = meet(r, (min(vals), max(vals)))
            elif op == "|":
                r = bor(a, b)
            elif op == "^":
                r = bxor(a, b)
            elif op == "<<":
                r = shl(a, b)
            elif op == ">>":
                r = shr(a, b)
            else:
                r = (None, None)
            return wrap(r, e.get("it"), arith=True)
        if k == "un":
            op = e["op"]
            c = e["c"][0]
            if op in ("+", "__extension__"):
                return self.eval(st, c, depth + 1)
            if op == "-":
                return wrap(neg(self.eval(st, c, depth + 1)), e.get("it"))
            if op == "~":
                a = self.eval(st, c, depth + 1)
                return wrap(sub((-1, -1), a), e.get("it"))
            if op == "!":
                a = self.eval(st, c, depth + 1)
                if a == (0, 0):
                    return (1, 1)
                if (a[0] is not None and a[0] > 0) or (a[1] is not None and a[1] < 0):
                    return (0, 0)
                return (0, 1)
            if op in ("++", "--"):
                # value of the expression, evaluated in the state *before* it
                a = self.eval(st, c, depth + 1)
                if e.get("post"):
                    return a
                return wrap(add(a, (1, 1) if op == "++" else (-1, -1)), e.get("it"), arith=True)
            return tr
        if k == "asg":
            # value of an assignment = new value of the lhs; evaluated before the store
            if e["op"] == "=":
                return wrap(self.eval(st, e["c"][1], depth + 1), e.get("it"))
            return self._compound(st, e, depth)
        if k == "cond":
            c, t, fl = e["c"]
            cv = self.eval(st, c, depth + 1)
            st_t = self.assume(st, c, True) if cv != (0, 0) else None
            st_f = self.assume(st, c, False) if not ((cv[0] is not None and cv[0] > 0) or (cv[1] is not None and cv[1] < 0)) else None
            res = None
            if st_t is not None:
                res = self.eval(st_t, t, depth + 1)
            if st_f is not None:
                r2 = self.eval(st_f, fl, depth + 1)
                res = r2 if res is None else hull(res, r2)
            return res if res is not None else tr
        if k in ("stmtexpr", "opaque"):
            if e.get("c"):
                return self.eval(st, e["c"][0], depth + 1)
            return tr
        if k == "call":
            r = self.ctx.call_range(self, f, i, st)
            if r is not None:
                return meet(r, tr) if tr != (None, None) else r
            return tr
        return tr

    def _compound(self, st, e, depth):
        op = e["op"][:-1]
        a = self.eval(st, e["c"][0], depth + 1)
        b = self.eval(st, e["c"][1], depth + 1)
        fn = {"+": add, "-": sub, "*": mul, "/": div, "%": rem, "&": band, "|": bor,
              "^": bxor, "<<": shl, ">>": shr}.get(op)
        r = fn(a, b) if fn else (None, None)
        if e.get("cit"):
            r = wrap(r, e["cit"], arith=True)
        return wrap(r, e.get("it"))

    # ---- kills -------------------------------------------------------------------
    def kill_tokens(self, st, toks, keep=None):
        """Remove keys that mention something in write-token set `toks`."""
        if not toks:
            return st
        allw = "ALL" in toks
        flds = {(t[1], t[2]) for t in toks if t != "ALL" and t[0] == "fld"}
        recs = {t[1] for t in toks if t != "ALL" and t[0] == "rec"}
        derefs = {t[1] for t in toks if t != "ALL" and t[0] == "deref"}
        globs = {"g:" + t[1] for t in toks if t != "ALL" and t[0] == "glob"}
        bytesw = ("bytes",) in toks
        out = None
        for k in st:
            if k == keep:
                continue
            m = self._mentions_of_key(k)
            dead = False
            if m is None:
                dead = True
            elif m.nonlocal_ and allw:
                dead = True
            elif flds and (m.fields & flds):
                dead = True
            elif recs and (m.recs & recs):
                dead = True
            elif derefs and (m.derefs & derefs):
                dead = True
            elif globs and (m.refs & globs):
                dead = True
            elif (allw or derefs) and (m.refs & self.taken):
                dead = True
            elif bytesw and (m.derefs or (m.trange is not None and None not in m.trange and m.trange[1] - m.trange[0] <= 255)
                             or (m.refs & self.taken)):
                dead = True
            if dead:
                if out is None:
                    out = dict(st)
                del out[k]
        return st if out is None else out

    def _mentions_of_key(self, k):
        if k[0] == "fact":
            return mentions(self.f, k[1])
        return self.keyinfo.get(k)

    def kill_local(self, st, name, keep=None):
        out = None
        for k in st:
            if k == keep:
                continue
            m = self._mentions_of_key(k)
            if m is None or name in m.refs:
                if out is None:
                    out = dict(st)
                del out[k]
        return st if out is None else out

    # ---- transfer ------------------------------------------------------------------
    def xfer_elem(self, st, i):
        f = self.f
        e = f.exprs[i]
        k = e["k"]
        if k == "asg":
            pn = self._ptr_local(e["c"][0])
            if pn is not None:
                if e["op"] == "=":
                    st1 = self.kill_local(st, pn)
                    return self._ptr_assign(st1, pn, e["c"][1], st)
                if e["op"] in ("+=", "-="):
                    d = self.eval(st, e["c"][1])
                    return self._ptr_adjust(st, pn, d if e["op"] == "+=" else neg(d))
            st2 = self._store(st, e["c"][0], self.eval(st, i), e, eid=i)
            if e["op"] == "=" and st2 is not None:
                st2 = self._note_copy(st2, e["c"][0], e["c"][1])
            return self._or_update(st, st2, e)
        if k == "un" and e["op"] in ("++", "--") and self._ptr_local(e["c"][0]) is not None:
            return self._ptr_adjust(st, self._ptr_local(e["c"][0]), (1, 1) if e["op"] == "++" else (-1, -1))
        if k == "un" and e["op"] in ("++", "--"):
            a = self.eval(st, e["c"][0])
            nv = wrap(add(a, (1, 1) if e["op"] == "++" else (-1, -1)), e.get("it"), arith=True)
            st = self._store(st, e["c"][0], nv, e)
            if e.get("post") and a != (None, None):
                # kept until the end of the block so that a branch on `x-- > 0`
                # can refine the value x had before the side effect
                st = dict(st)
                st[("old", i)] = a
            return st
        if k == "decl":
            for v in e.get("vars", []):
                st = self.kill_local(st, v["name"])
                if "init" in v and v.get("it"):
                    iv = wrap(self.eval(st, v["init"]), v.get("it"))
                    key = ("iv", v["name"])
                    if key not in self.keyinfo:
                        mm = _MentionsTR()
                        mm.refs.add(v["name"])
                        mm.trange = type_range(v.get("it"))
                        self.keyinfo[key] = mm
                    if iv != (None, None):
                        st = dict(st)
                        st[key] = iv
                    st = self._note_copy(st, None, v["init"], name=v["name"])
                elif "init" in v:
                    st = self._ptr_assign(st, v["name"], v["init"])
            return st
        if k == "call":
            toks = self.sums.call_writes(f, e)
            st = self.kill_tokens(st, toks)
            # writes through pointer args into this function's own locals
            st = self._kill_local_out_args(st, e)
            if e.get("noret"):
                return None
            return st
        return st

    def _note_copy(self, st, lhs, rhs, name=None):
        """`local = <tracked lvalue>`: remember that the local holds a copy, so that a later test of either refines
        both (`result = p->strict; if (p->strict < lo) result = lo; ...`).  The note mentions both sides and is
        killed with either."""
        f = self.f
        if name is None:
            l = ex.skip(f, lhs)
            le = f.exprs[l]
            if not (le["k"] == "ref" and le.get("dk") in ("local", "param") and le.get("it") and le["name"] not in self.taken):
                return st
            name = le["name"]
        r = ex.skip(f, rhs)
        re_ = f.exprs[r]
        while re_["k"] == "cast" and re_.get("ck") in ("LValueToRValue", "NoOp", "IntegralCast"):
            if re_.get("ck") == "IntegralCast" and not ex._same_or_wider(f, re_):
                return st
            r = ex.skip(f, re_["c"][0])
            re_ = f.exprs[r]
        if re_["k"] not in ("mem", "ref", "idx"):
            return st
        k2 = self.track_key(r, st)
        if k2 is None or k2 == ("iv", name) or k2 not in self.keyinfo:
            return st
        ck = ("cp", name)
        src = self.keyinfo[k2]
        mm = _MentionsTR()
        mm.refs = set(src.refs) | {name}
        mm.fields, mm.derefs, mm.recs, mm.nonlocal_ = set(src.fields), set(src.derefs), set(src.recs), src.nonlocal_
        mm.trange = None
        self.keyinfo[(ck, k2)] = mm
        st = dict(st)
        st[ck] = k2
        if ck not in self.keyinfo or True:
            self.keyinfo[ck] = mm
        return st

    def _kill_local_out_args(self, st, e):
        f = self.f
        for a in e.get("c", []):
            j = ex.skip(f, a)
            ae = f.exprs[j]
            while ae["k"] == "cast":
                j = ex.skip(f, ae["c"][0])
                ae = f.exprs[j]
            tgt = None
            if ae["k"] == "un" and ae["op"] == "&":
                tgt = ae["c"][0]
            elif "arr" in ae:
                tgt = j
            if tgt is not None and not summaries.is_nonlocal_lvalue(f, tgt):
                r = ex.root(f, tgt)
                if r is not None:
                    st = self.kill_local(st, f.exprs[r]["name"])
        return st

    # ---- pointer cursors into sized arrays ------------------------------------------
    # A local pointer assigned `array + e` / `&array[e]` (array of known element
    # count) is tracked as (array, offset interval); p++, p += c move the offset.
    # ivl.cursor_derefs() checks every dereference against the array.
    def _ptr_local(self, lhs):
        f = self.f
        l = ex.skip(f, lhs)
        le = f.exprs[l]
        if le["k"] == "ref" and le.get("dk") in ("local", "param") and "it" not in le \
                and le.get("t", "").rstrip().endswith("*") and le["name"] not in self.taken:
            return le["name"]
        return None

    def _ptr_keys(self, name):
        ok, pk = ("iv", "@" + name), ("pb", name)
        for k in (ok, pk):
            if k not in self.keyinfo:
                mm = _MentionsTR()
                mm.refs.add(name)
                self.keyinfo[k] = mm
        return ok, pk

    def _ptr_assign(self, st, name, rhs, st_eval=None):
        from . import ivl
        f = self.f
        st_eval = st if st_eval is None else st_eval
        if name in self.taken:
            return st
        ok, pk = self._ptr_keys(name)
        r = ex.skip(f, rhs)
        re_ = f.exprs[r]
        base, terms, extra = None, [], (0, 0)
        # p = q (+ e): another tracked cursor
        q = r
        qe = re_
        while qe["k"] == "cast" and qe["ck"] in ("NoOp", "LValueToRValue", "BitCast"):
            q = ex.skip(f, qe["c"][0])
            qe = f.exprs[q]
        if qe["k"] == "ref" and ("pb", qe.get("name")) in st_eval:
            st = dict(st)
            st[pk] = st_eval[("pb", qe["name"])]
            st[ok] = st_eval.get(("iv", "@" + qe["name"]), (None, None))
            return st
        if re_["k"] == "un" and re_["op"] == "&":
            # &a[e]  ==  a + e
            t = ex.skip(f, re_["c"][0])
            te = f.exprs[t]
            if te["k"] == "idx":
                ab = ivl.array_bound(f, t)
                if ab is not None:
                    off = ivl.eval_nowrap(self, st_eval, te["c"][1])
                    st = dict(st)
                    st[pk] = (ab[0], self._arr_name(ab[1]))
                    st[ok] = off
                    return st
            return st
        # p = q + e - c: offset from another tracked cursor
        qn, qterms = self._cursor_terms(r, st_eval)
        if qn is not None:
            off = st_eval.get(("iv", "@" + qn), (None, None))
            for sign, tnode in qterms:
                v = ivl.eval_nowrap(self, st_eval, tnode)
                off = add(off, v) if sign > 0 else sub(off, v)
            st = dict(st)
            st[pk] = st_eval[("pb", qn)]
            st[ok] = off
            return st
        base, terms = ivl._ptr_terms(f, r)
        if base is None:
            return st
        be = f.exprs[base]
        if "arr" not in be:
            return st
        n = be["arr"][0]
        if len(be["arr"]) > 1:
            return st           # pointer to row: element type differs
        off = (0, 0)
        for sign, tnode in terms:
            v = ivl.eval_nowrap(self, st_eval, tnode)
            off = add(off, v) if sign > 0 else sub(off, v)
        st = dict(st)
        st[pk] = (n, self._arr_name(base))
        st[ok] = off
        return st

    def _cursor_terms(self, node, st, sign=1, depth=0):
        """`q + e - c ...` with q a tracked cursor: (q, [(sign, offset node)]), else (None, [])."""
        f = self.f
        j = ex.skip(f, node)
        e = f.exprs[j]
        if depth > 8:
            return None, []
        if e["k"] == "cast" and e["ck"] in ("NoOp", "BitCast", "LValueToRValue"):
            return self._cursor_terms(e["c"][0], st, sign, depth + 1)
        if e["k"] == "ref":
            if depth > 0 and ("pb", e.get("name")) in st and e.get("dk") in ("local", "param"):
                return e["name"], []
            return None, []
        if e["k"] == "bin" and e["op"] in ("+", "-"):
            a, b = e["c"]
            ta = f.exprs[ex.skip(f, a)].get("t", "")
            tb = f.exprs[ex.skip(f, b)].get("t", "")
            if ta.rstrip().endswith("*") and not tb.rstrip().endswith("*"):
                q, terms = self._cursor_terms(a, st, sign, depth + 1)
                return q, terms + [(sign if e["op"] == "+" else -sign, b)]
            if tb.rstrip().endswith("*") and not ta.rstrip().endswith("*") and e["op"] == "+":
                q, terms = self._cursor_terms(b, st, sign, depth + 1)
                return q, terms + [(sign, a)]
        return None, []

    def _cursor_ref(self, node, st):
        """Name of the tracked cursor a comparison operand is, else None."""
        f = self.f
        j = ex.skip(f, node)
        e = f.exprs[j]
        while e["k"] == "cast" and e["ck"] in ("NoOp", "BitCast", "LValueToRValue"):
            j = ex.skip(f, e["c"][0])
            e = f.exprs[j]
        if e["k"] == "ref" and e.get("dk") in ("local", "param") and ("pb", e.get("name")) in st:
            return e["name"]
        return None

    def _compares_pointers(self):
        f = self.f
        c = f._cache.get("compares_pointers")
        if c is None:
            c = False
            for e in f.exprs:
                if e["k"] == "bin" and e["op"] in ("<", ">", "<=", ">="):
                    ts = []
                    for x in e["c"]:
                        xe = f.exprs[ex.skip(f, x)]
                        while xe["k"] == "cast" and xe.get("ck") in ("NoOp", "BitCast", "LValueToRValue"):
                            xe = f.exprs[ex.skip(f, xe["c"][0])]
                        ts.append(xe["k"] == "ref" and xe.get("dk") in ("local", "param") and xe.get("t", "").rstrip().endswith("*"))
                    if all(ts):
                        c = True
                        break
            f._cache["compares_pointers"] = c
        return c

    def _cursor_peers(self, name):
        """Pointer locals `name` is compared with (their offsets are the natural widening thresholds)."""
        f = self.f
        c = f._cache.setdefault("cursor_peers", {})
        if name not in c:
            peers = set()
            for e in f.exprs:
                if e["k"] == "bin" and e["op"] in ("<", ">", "<=", ">=", "==", "!="):
                    ns = []
                    for x in e["c"]:
                        j = ex.skip(f, x)
                        xe = f.exprs[j]
                        while xe["k"] == "cast" and xe["ck"] in ("NoOp", "BitCast", "LValueToRValue"):
                            j = ex.skip(f, xe["c"][0])
                            xe = f.exprs[j]
                        ns.append(xe.get("name") if xe["k"] == "ref" and xe.get("dk") in ("local", "param") else None)
                    if ns[0] == name and ns[1]:
                        peers.add(ns[1])
                    elif ns[1] == name and ns[0]:
                        peers.add(ns[0])
            c[name] = peers
        return c[name]

    def _arr_name(self, b):
        f = self.f
        e = f.exprs[ex.skip(f, b)]
        while e["k"] in ("cast", "idx"):
            e = f.exprs[ex.skip(f, e["c"][0])]
        return e.get("member") or e.get("name") or "?"

    def _ptr_adjust(self, st, name, d):
        ok, pk = self._ptr_keys(name)
        if pk not in st:
            return st
        st = dict(st)
        st[ok] = add(st.get(ok, (None, None)), d)
        return st

    def _or_update(self, st0, st, e):
        """`err = (k = e)`, `err |= (k = e)`, `err |= k`: remember that the local
        `err` has the value of key k OR-ed in (so err >= 0 implies k >= 0).
        Members carry the id of the store that gave k its value; a later store
        to k changes ("ver", k) and thereby retires the member."""
        f = self.f
        if st is None or e["op"] not in ("=", "|="):
            return st
        l = ex.skip(f, e["c"][0])
        le = f.exprs[l]
        if not (le["k"] == "ref" and le.get("dk") in ("local", "param") and le.get("it") and le["it"][1]
                and le["name"] not in self.taken):
            return st
        okey = ("or", le["name"])
        r = ex.skip(f, e["c"][1])
        re_ = f.exprs[r]
        while re_["k"] == "cast" and re_["ck"] in ("IntegralCast", "LValueToRValue", "NoOp"):
            inner = f.exprs[ex.skip(f, re_["c"][0])]
            if re_["ck"] == "IntegralCast" and not (inner.get("it") and inner["it"][1] and inner["it"][0] <= le["it"][0]):
                break           # not a sign-preserving conversion
            r = ex.skip(f, re_["c"][0])
            re_ = f.exprs[r]
        member = None
        if re_["k"] == "asg" and re_["op"] == "=":
            k = self.track_key(re_["c"][0], st0)
            if k is not None and st.get(("ver", k)) == r:
                member = (k, r)
        elif re_["k"] in ("ref", "idx", "mem"):
            k = self.track_key(r, st0) if re_["k"] == "idx" else self.track_key(r)
            if k is not None and ("ver", k) in st and re_.get("it") and re_["it"][1]:
                member = (k, st[("ver", k)])
        old = st0.get(okey, frozenset()) if e["op"] == "|=" else frozenset()
        new = old | ({member} if member else set())
        if okey not in self.keyinfo:
            mm = _MentionsTR()
            mm.refs.add(le["name"])
            self.keyinfo[okey] = mm
        st = dict(st)
        if new:
            st[okey] = frozenset(new)
        else:
            st.pop(okey, None)
        return st

    _ELEM_RE = __import__("re").compile(r"^(\w+)\[(\d+)\]$")

    def _store(self, st, lhs, val, e, eid=None):
        f = self.f
        l = ex.skip(f, lhs)
        le = f.exprs[l]
        key = self.track_key(l, st)
        if le["k"] == "ref" and le.get("dk") in ("local", "param"):
            keep_or = ("or", le["name"]) if e.get("op") == "|=" else None
            st = self.kill_local(st, le["name"], keep=keep_or)
        elif key is not None and self._ELEM_RE.match(str(key[1])) and le["k"] == "idx":
            # element of a local array at a known index: the other elements keep their values
            base = self._ELEM_RE.match(key[1]).group(1)
            out = None
            for k2 in st:
                if k2 == key or k2 == ("ver", key):
                    pass
                elif k2[0] in ("iv", "ver") and (k2[1] if k2[0] == "iv" else k2[1][1]) != key[1] \
                        and isinstance((k2[1] if k2[0] == "iv" else k2[1][1]), str) \
                        and self._ELEM_RE.match(k2[1] if k2[0] == "iv" else k2[1][1]) \
                        and self._ELEM_RE.match(k2[1] if k2[0] == "iv" else k2[1][1]).group(1) == base:
                    continue
                else:
                    m = self._mentions_of_key(k2)
                    if not (m is None or base in m.refs):
                        continue
                if out is None:
                    out = dict(st)
                del out[k2]
            st = st if out is None else out
        else:
            toks = summaries.write_tokens(f, l) if summaries.is_nonlocal_lvalue(f, l) else set()
            if not toks:
                # store into a local aggregate: kill by field
                toks = {t for t in summaries.write_tokens(f, l)}
                r = ex.root(f, l)
                if r is not None:
                    st = self._kill_local_member(st, f.exprs[r]["name"], toks)
            else:
                st = self.kill_tokens(st, toks)
        if key is not None and "it" in le:
            st = dict(st)
            if val is not None and val != (None, None):
                st[key] = meet(val, node_range(le))
            if eid is not None:
                vk = ("ver", key)
                st[vk] = eid
                if vk not in self.keyinfo and key in self.keyinfo:
                    self.keyinfo[vk] = self.keyinfo[key]
        return st

    def _kill_local_member(self, st, name, toks):
        flds = {(t[1], t[2]) for t in toks if t != "ALL" and t[0] == "fld"}
        out = None
        for k in st:
            m = self._mentions_of_key(k)
            if m is None or (name in m.refs and (not flds or (m.fields & flds) or not m.fields)):
                if out is None:
                    out = dict(st)
                del out[k]
        return st if out is None else out

    def xfer_edge(self, st, bid, lab, succ):
        r = self._xfer_edge(st, bid, lab, succ)
        if r is not None and any(k[0] == "old" for k in r):
            r = {k: v for k, v in r.items() if k[0] != "old"}
        return r

    def _xfer_edge(self, st, bid, lab, succ):
        f = self.f
        t = f.blocks[bid].term
        if lab is None or not t or "cond" not in t:
            return st
        c = t["cond"]
        if lab in ("T", "F"):
            return self.assume(st, c, lab == "T", record=True)
        # switch
        v = self.eval(st, c)
        key = self._refinable(c)
        if isinstance(lab, tuple):
            rng = (lab[1], lab[2])
            nv = meet(v, rng)
            if is_empty(nv):
                return None
            st = dict(st)
            if key:
                st[key] = nv
            st[("fact", c, lab)] = True
            return st
        # default: trim the case ranges off the ends
        cases = sorted(f.switch_cases(bid))
        lo, hi = v
        changed = True
        while changed:
            changed = False
            for a, b in cases:
                if lo is not None and a <= lo <= b:
                    lo = b + 1
                    changed = True
                if hi is not None and a <= hi <= b:
                    hi = a - 1
                    changed = True
        if lo is not None and hi is not None and lo > hi:
            return None
        st = dict(st)
        if key:
            st[key] = (lo, hi)
        st[("fact", c, "default")] = True
        return st

    def _refinable(self, i):
        """Key of the lvalue whose value expression i denotes (through
        value-preserving wrappers and embedded assignments)."""
        f = self.f
        j = ex.skip(f, i)
        e = f.exprs[j]
        if e["k"] == "asg":
            return self.track_key(e["c"][0])
        if e["k"] == "un" and e["op"] in ("++", "--") and not e.get("post"):
            return self.track_key(e["c"][0])
        if e["k"] == "cast" and e["ck"] == "IntegralCast":
            # value-changing cast: refine only when the operand fits
            inner = ex.skip(f, e["c"][0])
            if f.exprs[inner]["k"] == "bin" and f.exprs[inner]["op"] == "&":
                return self._mask_key(inner)
            return None
        if e["k"] == "bin" and e["op"] == "&":
            return self._mask_key(j)
        return self.track_key(j)

    def _mask_parts(self, j):
        """(local name, mask) when node j is `local & constant` (either order,
        through integer promotions), else None."""
        f = self.f
        e = f.exprs[j]
        if not (e["k"] == "bin" and e["op"] == "&"):
            return None
        a, b = e["c"]
        for x, y in ((a, b), (b, a)):
            m = ex.const(f, y)
            if m is None or m < 0:
                continue
            k = ex.skip(f, x)
            ke = f.exprs[k]
            while ke["k"] == "cast" and ke["ck"] in ("IntegralCast", "LValueToRValue", "NoOp"):
                k = ex.skip(f, ke["c"][0])
                ke = f.exprs[k]
            if ke["k"] == "ref" and ke.get("dk") in ("local", "param") and ke["name"] not in self.taken:
                it = ke.get("it")
                if it and not it[1] or (it and m < (1 << (it[0] - 1))):
                    return ke["name"], m
        return None

    def _mask_key(self, j):
        """Pseudo-lvalue for the value of `local & mask` (refined by a switch or
        comparison on that expression, read back by `local & submask`)."""
        mp = self._mask_parts(j)
        if mp is None:
            return None
        key = ("iv", "&:%s:%d" % mp)
        if key not in self.keyinfo:
            mm = _MentionsTR()
            mm.refs.add(mp[0])
            mm.trange = (0, mp[1])
            self.keyinfo[key] = mm
        return key

    # ---- assume ---------------------------------------------------------------------
    def assume(self, st, c, truth, record=False):
        """Refine state by cond c having truth value `truth`.  None = infeasible."""
        f = self.f
        j = ex.skip(f, c)
        e = f.exprs[j]
        k = e["k"]
        if "v" in e:
            if bool(e["v"]) != truth:
                return None
            return st
        if k == "bin" and e["op"] in ("&&", "||") and not self._has_post_side_effect(j):
            t0 = self._truth(st, j)
            if t0 is not None and t0 != truth:
                return None
        if record and not self._has_post_side_effect(j):
            st = dict(st)
            st[("fact", j, "T" if truth else "F")] = True
        if k == "un" and e["op"] == "!":
            return self.assume(st, e["c"][0], not truth, record)
        if k == "cast" and e["ck"] in ("IntegralToBoolean", "PointerToBoolean", "IntegralCast"):
            return self.assume(st, e["c"][0], truth, record)
        if k == "bin" and e["op"] == "&&":
            if truth:
                s = self.assume(st, e["c"][0], True, record)
                return None if s is None else self.assume(s, e["c"][1], True, record)
            if self._known(st, e["c"][0], True):
                return self.assume(st, e["c"][1], False, record)
            if self._known(st, e["c"][1], True):
                return self.assume(st, e["c"][0], False, record)
            return st
        if k == "bin" and e["op"] == "||":
            if not truth:
                s = self.assume(st, e["c"][0], False, record)
                return None if s is None else self.assume(s, e["c"][1], False, record)
            if self._known(st, e["c"][0], False):
                return self.assume(st, e["c"][1], True, record)
            if self._known(st, e["c"][1], False):
                return self.assume(st, e["c"][0], True, record)
            return st
        if k == "bin" and e["op"] in ("<", ">", "<=", ">=", "==", "!="):
            op = e["op"]
            if not truth:
                op = {"<": ">=", ">": "<=", "<=": ">", ">=": "<", "==": "!=", "!=": "=="}[op]
            return self._assume_cmp(st, op, e["c"][0], e["c"][1])
        if k == "bin" and e["op"] == ",":
            return self.assume(st, e["c"][1], truth, record)
        # plain value: nonzero / zero
        if k == "un" and e["op"] in ("++", "--") and e.get("post") and ("old", j) in st:
            return self._assume_cmp(st, "!=" if truth else "==", j, None)
        v = self.eval(st, j)
        if truth:
            if v == (0, 0):
                return None
            key = self._refinable(j)
            if key and v[0] == 0:
                st = dict(st)
                st[key] = (1, v[1])
            return st
        else:
            if (v[0] is not None and v[0] > 0) or (v[1] is not None and v[1] < 0):
                return None
            key = self._refinable(j)
            if key:
                st = dict(st)
                st[key] = (0, 0)
            return st

    def _has_post_side_effect(self, j):
        f = self.f
        for n in ex.walk(f, j):
            e = f.exprs[n]
            if e["k"] == "un" and e["op"] in ("++", "--") and e.get("post"):
                return True
        return False

    def _truth(self, st, c, depth=0):
        """Truth value of a condition in state st when the intervals decide it: True, False or None."""
        f = self.f
        j = ex.skip(f, c)
        e = f.exprs[j]
        if depth > 12:
            return None
        if "v" in e:
            return bool(e["v"])
        if ("fact", j, "T") in st:
            return True
        if ("fact", j, "F") in st:
            return False
        k = e["k"]
        if k == "un" and e["op"] == "!":
            t = self._truth(st, e["c"][0], depth + 1)
            return None if t is None else (not t)
        if k == "cast" and e["ck"] in ("IntegralToBoolean", "PointerToBoolean", "IntegralCast"):
            return self._truth(st, e["c"][0], depth + 1)
        if k == "bin" and e["op"] in ("&&", "||"):
            a = self._truth(st, e["c"][0], depth + 1)
            b = self._truth(st, e["c"][1], depth + 1)
            if e["op"] == "&&":
                if a is False or b is False:
                    return False
                return True if (a is True and b is True) else None
            if a is True or b is True:
                return True
            return False if (a is False and b is False) else None
        if k == "bin" and e["op"] in ("<", ">", "<=", ">=", "==", "!="):
            r = _cmp_const(e["op"], self.eval(st, e["c"][0]), self.eval(st, e["c"][1]))
            return None if r is None else bool(r)
        return None

    def _known(self, st, c, truth):
        j = ex.skip(self.f, c)
        if ("fact", j, "T" if truth else "F") in st:
            return True
        t = self._truth(st, c)
        if t is not None:
            return t == truth
        v = self.eval(st, j)
        if truth:
            return (v[0] is not None and v[0] > 0) or (v[1] is not None and v[1] < 0)
        return v == (0, 0)

    def _linear(self, st, i):
        """Decompose i as key + offset (key may be None).  Returns
        (key, offset, interval of the whole expression)."""
        f = self.f
        j = ex.skip(f, i)
        e = f.exprs[j]
        iv = self.eval(st, j)
        if e["k"] == "bin" and e["op"] in ("+", "-") and "it" in e:
            cb = ex.const(f, e["c"][1])
            ca = ex.const(f, e["c"][0])
            if cb is not None:
                key, off, siv = self._linear(st, e["c"][0])
                if key is not None:
                    noff = off + cb if e["op"] == "+" else off - cb
                    # only sound when no wrap-around happens
                    base = st.get(key) or self.keyinfo[key].trange or (None, None)
                    tot = add(base, (noff, noff))
                    if within(tot, node_range(e)):
                        return key, noff, iv
                return None, 0, iv
            if ca is not None and e["op"] == "+":
                key, off, siv = self._linear(st, e["c"][1])
                if key is not None:
                    base = st.get(key) or self.keyinfo[key].trange or (None, None)
                    tot = add(base, (off + ca, off + ca))
                    if within(tot, node_range(e)):
                        return key, off + ca, iv
                return None, 0, iv
            return None, 0, iv
        if e["k"] == "cast" and e["ck"] == "IntegralCast":
            key, off, siv = self._linear(st, e["c"][0])
            if key is not None and within(siv, node_range(e)):
                return key, off, iv
            return None, 0, iv
        key = self._refinable(j)
        return key, 0, iv

    def _assume_cmp(self, st, op, a, b):
        f = self.f
        # `x-- > c` / `x++ < c`: the comparison is about the value before the
        # side effect, which xfer_elem saved under ("old", node)
        for side, other, sop in ((a, b, op), (b, a, {"<": ">", ">": "<", "<=": ">=", ">=": "<=", "==": "==", "!=": "!="}[op])):
            if side is None:
                continue
            js = ex.skip(f, side)
            es = f.exprs[js]
            if es["k"] == "un" and es["op"] in ("++", "--") and es.get("post") and ("old", js) in st:
                oldv = st[("old", js)]
                vo = self.eval(st, other) if other is not None else (0, 0)
                no, _ = _refine(sop, oldv, vo)
                if is_empty(no):
                    return None
                key = self.track_key(es["c"][0])
                if key is None:
                    return st
                nv = wrap(add(no, (1, 1) if es["op"] == "++" else (-1, -1)), es.get("it"), arith=True)
                out = dict(st)
                out[key] = nv
                return out
        # `(x >> k) == 0` / `!= 0` with a constant k and a non-negative x:  x < 2^k  /  x >= 2^k
        if a is not None and b is not None and op in ("==", "!=") and ex.const(f, a) == 0 and ex.const(f, b) is None:
            a, b = b, a
        if a is not None and b is not None and op in ("==", "!=") and ex.const(f, b) == 0:
            ja0 = ex.skip(f, a)
            ea0 = f.exprs[ja0]
            if ea0["k"] == "bin" and ea0["op"] == ">>":
                kk = ex.const(f, ea0["c"][1])
                xk = self._refinable(ea0["c"][0])
                if kk is not None and 0 < kk < 63 and xk is not None:
                    xv = self.eval(st, ea0["c"][0])
                    if xv[0] is not None and xv[0] >= 0:
                        nv = meet(xv, (None, (1 << kk) - 1)) if op == "==" else meet(xv, (1 << kk, None))
                        if is_empty(nv):
                            return None
                        out = dict(st)
                        out[xk] = nv
                        return out
        # two cursors into the same array: the comparison is about their offsets
        if a is not None and b is not None:
            ca, cb_ = self._cursor_ref(a, st), self._cursor_ref(b, st)
            if ca and cb_ and ca != cb_ and st.get(("pb", ca)) == st.get(("pb", cb_)):
                va, vb = st.get(("iv", "@" + ca), (None, None)), st.get(("iv", "@" + cb_), (None, None))
                na, nb = _refine(op, va, vb)
                if is_empty(na) or is_empty(nb):
                    return None
                out = dict(st)
                out[("iv", "@" + ca)] = na
                out[("iv", "@" + cb_)] = nb
                return out
        # (x | y) < 0 false  => x >= 0 and y >= 0 ; handled before generic
        ja = ex.skip(f, a)
        ea = f.exprs[ja]
        cb = ex.const(f, b)
        if ea["k"] == "bin" and ea["op"] == "|" and cb == 0 and op == ">=":
            s = st
            for part in _or_parts(f, ja):
                s = self._assume_cmp(s, ">=", part, b)
                if s is None:
                    return None
            return s
        # the unsigned range-check idiom  `x - c < K`  (x unsigned, c > 0):  c <= x < K + c
        if op in ("<", "<=") and b is not None:
            ja = ex.skip(f, a)
            ea_ = f.exprs[ja]
            K = self.eval(st, b)
            if ea_["k"] == "bin" and ea_["op"] == "-" and ea_.get("it") and not ea_["it"][1] and K[1] is not None and K[1] >= 0:
                c = ex.const(f, ea_["c"][1])
                xk = self._refinable(ea_["c"][0])
                if c is not None and c > 0 and xk is not None:
                    xv = self.eval(st, ea_["c"][0])
                    hi = K[1] + c - (1 if op == "<" else 0)
                    if hi < (1 << ea_["it"][0]) - 1 and xv[0] is not None and xv[0] >= 0:
                        nv = meet(xv, (c, hi))
                        if is_empty(nv):
                            return None
                        out = dict(st)
                        out[xk] = nv
                        return out
        ka, oa, va = self._linear(st, a)
        kb, ob, vb = self._linear(st, b)
        na, nb = _refine(op, va, vb)
        if is_empty(na) or is_empty(nb):
            return None
        out = st
        for kk, nn in ((ka, na), (kb, nb)):
            if kk is not None and kk[0] == "iv" and nn[0] is not None and nn[0] >= 0 and ("or", kk[1]) in st:
                for mk, ver in st[("or", kk[1])]:
                    if st.get(("ver", mk)) == ver:
                        tr = getattr(self.keyinfo.get(mk), "trange", None) or (None, None)
                        if tr[0] is not None and tr[0] < 0:
                            if out is st:
                                out = dict(out)
                            out[mk] = meet(out.get(mk, tr), (0, None))
                            if is_empty(out[mk]):
                                return None
        if ka is not None and na != va:
            out = dict(out)
            cur = out.get(ka)
            nv = sub(na, (oa, oa))
            out[ka] = meet(cur, nv) if cur else nv
            if is_empty(out[ka]):
                return None
        if kb is not None and nb != vb:
            if out is st:
                out = dict(out)
            cur = out.get(kb)
            nv = sub(nb, (ob, ob))
            out[kb] = meet(cur, nv) if cur else nv
            if is_empty(out[kb]):
                return None
        # copies: what was learnt about one side of `local = lvalue` holds for the other
        if out is not st:
            for kk in (ka, kb):
                if kk is None or kk not in out or out[kk] == st.get(kk):
                    continue
                for ck, src in list(out.items()):
                    if ck[0] != "cp":
                        continue
                    other = None
                    if src == kk:
                        other = ("iv", ck[1])
                    elif kk == ("iv", ck[1]):
                        other = src
                    if other is None:
                        continue
                    cur = out.get(other)
                    nv = meet(cur, out[kk]) if cur else out[kk]
                    if is_empty(nv):
                        return None
                    out[other] = nv
        return out


_MentionsTR = Mentions


def _or_parts(f, i):
    j = ex.skip(f, i)
    e = f.exprs[j]
    if e["k"] == "bin" and e["op"] == "|":
        return _or_parts(f, e["c"][0]) + _or_parts(f, e["c"][1])
    return [j]


def _cmp_const(op, a, b):
    """Decide a comparison from intervals: 1, 0 or None."""
    def lt(x, y):   # x < y always
        return x[1] is not None and y[0] is not None and x[1] < y[0]

    def le(x, y):
        return x[1] is not None and y[0] is not None and x[1] <= y[0]
    if op == "<":
        return 1 if lt(a, b) else (0 if le(b, a) else None)
    if op == "<=":
        return 1 if le(a, b) else (0 if lt(b, a) else None)
    if op == ">":
        return 1 if lt(b, a) else (0 if le(a, b) else None)
    if op == ">=":
        return 1 if le(b, a) else (0 if lt(a, b) else None)
    if op == "==":
        if a[0] is not None and a[0] == a[1] and a == b:
            return 1
        return 0 if (lt(a, b) or lt(b, a)) else None
    if op == "!=":
        if a[0] is not None and a[0] == a[1] and a == b:
            return 0
        return 1 if (lt(a, b) or lt(b, a)) else None
    return None


def _refine(op, a, b):
    """Refine intervals a, b under `a op b`."""
    if op == "<":
        na = meet(a, (None, None if b[1] is None else b[1] - 1))
        nb = meet(b, (None if a[0] is None else a[0] + 1, None))
        return na, nb
    if op == "<=":
        return meet(a, (None, b[1])), meet(b, (a[0], None))
    if op == ">":
        nb, na = _refine("<", b, a)
        return na, nb
    if op == ">=":
        nb, na = _refine("<=", b, a)
        return na, nb
    if op == "==":
        m = meet(a, b)
        return m, m
    if op == "!=":
        na, nb = a, b
        if b[0] is not None and b[0] == b[1]:
            if a[0] == b[0]:
                na = (a[0] + 1, a[1])
            elif a[1] == b[0]:
                na = (a[0], a[1] - 1)
        if a[0] is not None and a[0] == a[1]:
            if b[0] == a[0]:
                nb = (b[0] + 1, b[1])
            elif b[1] == a[0]:
                nb = (b[0], b[1] - 1)
        return na, nb
    return a, b
