"""Call graph (indirect calls resolved through function-pointer slots) and
may-write effect summaries."""
from . import ex, flow

# external functions: index list of pointer arguments they write through,
# None = writes nothing that the analyses track.
EXTERN_WRITES = {
    "memcpy": [0], "memmove": [0], "memset": [0], "strcpy": [0], "strncpy": [0],
    "strcat": [0], "strncat": [0], "_vbi_strlcpy": [0], "strlcpy": [0],
    "snprintf": [0], "sprintf": [0], "vsnprintf": [0], "vsprintf": [0],
    "__builtin___memcpy_chk": [0], "__builtin___memset_chk": [0],
    "__builtin___memmove_chk": [0], "__builtin___strcpy_chk": [0],
    "__builtin___strncpy_chk": [0], "__builtin___snprintf_chk": [0],
    "__builtin___sprintf_chk": [0], "__builtin___vsnprintf_chk": [0],
    "__builtin_memcpy": [0], "__builtin_memset": [0], "__builtin_memmove": [0],
    "read": [1], "recv": [1], "fread": [0], "fgets": [0],
    "gettimeofday": [0, 1], "time": [0], "localtime_r": [1], "gmtime_r": [1],
    "strtol": [1], "strtoul": [1], "strtod": [1], "sscanf": None,
    "iconv": [1, 2, 3, 4], "pipe": [0], "socketpair": [3], "select": [1, 2, 3, 4],
    "pthread_create": [0], "pthread_join": [1], "sigaction": [2], "sigemptyset": [0],
    "sigaddset": [0], "getaddrinfo": [3], "accept": [1, 2], "getsockopt": [3, 4],
    "fstat": [1], "stat": [1], "lstat": [1], "clock_gettime": [1], "ioctl": [2],
    "vbi_capture_read": [1, 2, 3, 4, 5], "asprintf": [0], "vasprintf": [0],
    "_vbi_asprintf": [0], "_vbi_vasprintf": [0], "getline": [0, 1], "qsort": [0],
    "regcomp": [0], "mbstowcs": [0], "wcstombs": [0],
    "readlink": [1], "realpath": [1], "getnameinfo": [2, 4], "sincos": [1, 2], "getcwd": [0],
}
EXTERN_PURE = set("""
strlen strcmp strncmp strcasecmp strncasecmp memcmp strchr strrchr strstr abs labs
getenv malloc calloc realloc free strdup strndup fprintf printf vfprintf fputs fputc
putc putchar puts fflush fwrite write fclose fopen fdopen close open perror strerror
pthread_mutex_lock pthread_mutex_unlock pthread_mutex_trylock pthread_mutex_init
pthread_mutex_destroy pthread_cond_signal pthread_cond_wait pthread_cond_broadcast
pthread_cond_init pthread_cond_destroy pthread_cond_timedwait pthread_self
pthread_cancel pthread_testcancel pthread_setcancelstate pthread_kill pthread_sigmask
__assert_fail abort exit _exit __errno_location isprint isalnum isalpha isdigit isspace
isxdigit toupper tolower tzset setenv unsetenv putenv mktime timegm localtime gmtime
difftime usleep sleep nanosleep htonl htons ntohl ntohs __builtin_expect __builtin_bswap32
__builtin_bswap16 __builtin_constant_p __builtin_object_size __builtin_va_start
__builtin_va_end __builtin_va_copy send sendto shutdown socket bind listen connect
setsockopt fcntl unlink chmod umask getpid getuid geteuid kill signal alarm syslog
openlog closelog dgettext gettext dcgettext bindtextdomain bind_textdomain_codeset
setlocale nl_langinfo iconv_open iconv_close floor ceil fabs pow sqrt lrint sin cos
atoi atol strtok fileno isatty feof ferror ftell fseek rewind ungetc getc fgetc getchar
rand srand random srandom dlopen dlsym dlclose dlerror freeaddrinfo gai_strerror
__ctype_b_loc __ctype_tolower_loc __ctype_toupper_loc strftime daemon setsid fork
waitpid dup2 chdir getopt getopt_long inet_ntoa inet_ntop log exp
png_create_write_struct png_create_info_struct png_destroy_write_struct png_set_write_fn
png_set_IHDR png_set_PLTE png_set_tRNS png_set_gAMA png_set_text png_write_info
png_write_image png_write_end png_set_longjmp_fn png_get_io_ptr png_error _setjmp setjmp longjmp
munmap mmap poll vsyslog strcspn strspn strpbrk memchr
gnu_dev_major gnu_dev_minor gnu_dev_makedev opendir readdir closedir dirfd getegid getgid fpathconf pathconf
towlower towupper iswalnum iswalpha iswcntrl iswdigit iswgraph iswlower iswprint iswpunct iswspace iswupper
iswxdigit log2 sinh cosh tanh ffs clearerr gethostbyaddr gethostbyname access
""".split())


def is_nonlocal_lvalue(f, i):
    """The lvalue lives outside the function's own stack frame."""
    i = ex.skip(f, i)
    while i is not None and i >= 0:
        e = f.exprs[i]
        k = e["k"]
        if k == "ref":
            return e.get("dk") not in ("local", "param")
        if k == "mem":
            if e.get("arrow"):
                return True
            i = ex.skip(f, e["c"][0])
            continue
        if k == "idx":
            b = ex.skip(f, e["c"][0])
            be = f.exprs[b]
            # array base (decayed) keeps the storage of the array
            if be["k"] == "cast" and be["ck"] == "ArrayToPointerDecay":
                i = ex.skip(f, be["c"][0])
                continue
            if "arr" in be:
                i = b
                continue
            return True
        if k == "un" and e["op"] == "*":
            return True
        if k == "cast":
            i = ex.skip(f, e["c"][0])
            continue
        return True
    return True


def write_tokens(f, lhs):
    """Tokens describing what a store through lvalue `lhs` may modify."""
    i = ex.skip(f, lhs)
    e = f.exprs[i]
    toks = set()
    k = e["k"]
    if k == "mem":
        toks.add(("fld", e.get("in"), e["member"]))
        if "rec" in e:
            toks.add(("rec", e["rec"]))
    elif k == "ref":
        if e.get("dk") in ("global", "slocal"):
            toks.add(("glob", e["name"]))
        if "rec" in e:
            toks.add(("rec", e["rec"]))
    elif k == "idx":
        # element store: attribute to the array's own token
        b = ex.skip(f, e["c"][0])
        be = f.exprs[b]
        if be["k"] == "cast" and be["ck"] == "ArrayToPointerDecay":
            b = ex.skip(f, be["c"][0])
            be = f.exprs[b]
        if be["k"] in ("mem", "idx") or (be["k"] == "ref" and "arr" in be):
            toks |= write_tokens(f, b)
        else:
            toks.add(("deref", e["t"]))
        if "rec" in e:
            toks.add(("rec", e["rec"]))
    elif k == "un" and e["op"] == "*":
        toks.add(("deref", e["t"]))
        if "rec" in e:
            toks.add(("rec", e["rec"]))
    else:
        toks.add(("deref", e.get("t", "?")))
    return toks


def pointee_tokens(f, arg):
    """Tokens for a write through pointer argument `arg` (memcpy & co)."""
    i = ex.skip(f, arg)
    e = f.exprs[i]
    while e["k"] == "cast":
        i = ex.skip(f, e["c"][0])
        e = f.exprs[i]
    if e["k"] == "un" and e["op"] == "&":
        return write_tokens(f, e["c"][0]), e["c"][0]
    if "arr" in e:                       # an array object decaying to pointer
        return write_tokens(f, i) if e["k"] != "ref" or e.get("dk") not in ("local", "param") else set(), i
    if e["k"] == "bin" and e["op"] in ("+", "-"):
        return pointee_tokens(f, e["c"][0])
    t = e.get("t", "")
    if t.endswith("*"):
        base = t[:-1].strip()
        toks = {("deref", base)}
        if "prec" in e:
            toks.add(("rec", e["prec"]))
        if base in ("void", "const void"):
            toks.add("ALL")
        elif base in ("char", "unsigned char", "const char", "signed char", "uint8_t"):
            # bytes written through a character pointer: may hit any byte buffer or anything
            # reached through a pointer dereference, but - assumption stated in the evidence -
            # not the non-character fields of named structures (no type punning of that kind here)
            toks.add(("bytes",))
        return toks, None
    if e["k"] == "ref" and e.get("dk") == "local" and "[" in t:
        return set(), i                 # a local (variable length) array: the caller's own storage
    return {"ALL"}, None


# Function-pointer slots that only ever hold functions supplied by the
# application (no library function is stored there).  Assumption, stated in
# every evidence file that depends on it: such a callback does not write the
# library's private state behind the library's back (it may call the public
# API; the re-entrancy hazards of that are C11/C20's subject, not a kill set).
CLIENT_CALLBACK_MEMBERS = {"handler", "callback", "progress", "p_callback_func"}


def is_client_callback(f, e):
    if "fn" not in e:
        return False
    fn = ex.skip(f, e["fn"])
    fe = f.exprs[fn]
    if fe["k"] == "un" and fe["op"] == "*":
        fn = ex.skip(f, fe["c"][0])
        fe = f.exprs[fn]
    while fe["k"] == "cast":
        fn = ex.skip(f, fe["c"][0])
        fe = f.exprs[fn]
    if fe["k"] == "mem" and fe.get("member") in CLIENT_CALLBACK_MEMBERS:
        return True
    if fe["k"] == "ref" and fe.get("name") in ("callback", "log_fn") :
        return True
    return False


class Summaries:
    def __init__(self, prog):
        self.prog = prog
        self.slots = {}        # ("fld", rec, field) / ("param", fkey, idx) / ("glob", name) -> set of function names
        self.addr_taken = set()
        self.calls = {}        # func key -> [(bid, eid, [callee Func...], external_name or None)]
        self.callers = {}      # func key -> [(caller Func, eid)]
        self._collect_slots()
        self._build_callgraph()
        self.writes = {}
        self._compute_writes()

    # ---- function pointer slots --------------------------------------
    def _func_ref(self, f, i):
        i = ex.skip(f, i)
        if i is None or i < 0:
            return None
        e = f.exprs[i]
        if e["k"] == "un" and e["op"] == "&":
            return self._func_ref(f, e["c"][0])
        if e["k"] == "cast":
            return self._func_ref(f, e["c"][0])
        if e["k"] == "ref" and e.get("dk") == "func":
            return e["name"]
        return None

    def _slot_of_lvalue(self, f, i):
        i = ex.skip(f, i)
        e = f.exprs[i]
        if e["k"] == "mem":
            return ("fld", e.get("in"), e["member"])
        if e["k"] == "ref":
            if e.get("dk") == "param":
                for n, p in enumerate(f.params):
                    if p["did"] == e.get("did"):
                        return ("param", f.key, n)
            if e.get("dk") in ("global", "slocal"):
                return ("glob", e["name"])
            return ("local", f.key, e["name"])
        if e["k"] == "idx":
            return self._slot_of_lvalue(f, e["c"][0])
        return None

    def _collect_slots(self):
        P = self.prog

        class G:  # adapter so that ex.* works on global initialisers
            def __init__(self, g):
                self.exprs = g.get("exprs", [])
                self.key = ("global", g["name"])
                self.params = []
        for gl in P.globals.values():
            for g in gl:
                if "init" not in g:
                    continue
                gf = G(g)
                self._init_slots(gf, g["init"], ("glob", g["name"]))
        for f in P.funcs:
            for i, e in enumerate(f.exprs):
                k = e["k"]
                if k == "asg" and e["op"] == "=":
                    fn = self._func_ref(f, e["c"][1])
                    if fn:
                        s = self._slot_of_lvalue(f, e["c"][0])
                        if s:
                            self.slots.setdefault(s, set()).add(fn)
                            self.addr_taken.add(fn)
                    elif self._slot_copy(f, e["c"][0], e["c"][1]):
                        pass
                elif k == "decl":
                    for v in e.get("vars", []):
                        if "init" in v:
                            fn = self._func_ref(f, v["init"])
                            if fn:
                                self.slots.setdefault(("local", f.key, v["name"]), set()).add(fn)
                                self.addr_taken.add(fn)
                            else:
                                self._init_slots(f, v["init"], ("local", f.key, v["name"]))
                elif k == "call":
                    for n, a in enumerate(e.get("c", [])):
                        fn = self._func_ref(f, a)
                        if fn:
                            self.addr_taken.add(fn)
                            cal = e.get("callee")
                            if cal:
                                tgt = P.func_for(f, cal)
                                key = tgt.key if tgt else cal
                                self.slots.setdefault(("param", key, n), set()).add(fn)
                elif k == "ret" and e.get("c"):
                    fn = self._func_ref(f, e["c"][0])
                    if fn:
                        self.addr_taken.add(fn)
        # propagate: slot copies  (x->cb = param)  one round is enough here
        self._propagate_copies()

    def _init_slots(self, f, i, owner):
        i = ex.skip(f, i)
        if i is None or i < 0 or i >= len(f.exprs):
            return
        e = f.exprs[i]
        if e["k"] == "initlist":
            rec = e.get("rec")
            fields = None
            if rec and "arr" not in e:
                r = self.prog.records.get(rec)
                if r:
                    fields = [x["name"] for x in r.get("fields", [])]
            for n, c in enumerate(e.get("c", [])):
                fn = self._func_ref(f, c)
                if fn and fields and n < len(fields):
                    self.slots.setdefault(("fld", rec, fields[n]), set()).add(fn)
                    self.addr_taken.add(fn)
                elif fn:
                    self.slots.setdefault(owner, set()).add(fn)
                    self.addr_taken.add(fn)
                else:
                    self._init_slots(f, c, owner)
        elif e["k"] in ("complit", "desinit", "cast"):
            for c in e.get("c", []):
                self._init_slots(f, c, owner)

    def _slot_copy(self, f, lhs, rhs):
        l = self._slot_of_lvalue(f, lhs)
        r = ex.skip(f, rhs)
        re_ = f.exprs[r]
        if l and re_["k"] in ("ref", "mem") and ("(*)" in re_.get("t", "")):
            rs = self._slot_of_lvalue(f, r)
            if rs:
                self._copies = getattr(self, "_copies", [])
                self._copies.append((l, rs))
                return True
        return False

    def _propagate_copies(self):
        copies = getattr(self, "_copies", [])
        for _ in range(4):
            ch = False
            for l, r in copies:
                src = self.slots.get(r, set())
                dst = self.slots.setdefault(l, set())
                if not src <= dst:
                    dst |= src
                    ch = True
            if not ch:
                break

    def resolve_indirect(self, f, e):
        """Function names an indirect call may reach (None = unknown)."""
        fn = ex.skip(f, e["fn"])
        fe = f.exprs[fn]
        if fe["k"] == "un" and fe["op"] == "*":
            fn = ex.skip(f, fe["c"][0])
            fe = f.exprs[fn]
        s = self._slot_of_lvalue(f, fn)
        if s is None:
            return None
        r = self.slots.get(s)
        return set(r) if r else None

    # ---- call graph ----------------------------------------------------
    def _build_callgraph(self):
        P = self.prog
        for f in P.funcs:
            lst = []
            for bid, i in flow.all_events(f):
                e = f.exprs[i]
                if e["k"] != "call":
                    continue
                if "callee" in e:
                    t = P.func_for(f, e["callee"])
                    if t:
                        lst.append((bid, i, [t], None))
                        self.callers.setdefault(t.key, []).append((f, i))
                    else:
                        lst.append((bid, i, [], e["callee"]))
                else:
                    names = self.resolve_indirect(f, e)
                    tg = []
                    if names:
                        for n in sorted(names):
                            t = P.func_for(f, n)
                            if t:
                                tg.append(t)
                                self.callers.setdefault(t.key, []).append((f, i))
                    lst.append((bid, i, tg, None if names else "?indirect"))
            self.calls[f.key] = lst

    def callees(self, f):
        for bid, i, tg, ext in self.calls.get(f.key, []):
            for t in tg:
                yield t

    def reachable(self, roots):
        seen = {}
        st = list(roots)
        while st:
            f = st.pop()
            if f.key in seen:
                continue
            seen[f.key] = f
            for t in self.callees(f):
                st.append(t)
        return seen

    # ---- may-write summaries ----------------------------------------------
    def _compute_writes(self):
        P = self.prog
        local = {}
        for f in P.funcs:
            w = set()
            for bid, i in flow.all_events(f):
                e = f.exprs[i]
                for lhs, var, op, rhs in flow.stores(f, i):
                    if lhs is None:
                        continue
                    if is_nonlocal_lvalue(f, lhs):
                        w |= write_tokens(f, lhs)
                if e["k"] == "call":
                    n = e.get("callee")
                    if n and not P.func_for(f, n):
                        w |= self.extern_call_tokens(f, e)
                    elif not n and not self.resolve_indirect(f, e) and not is_client_callback(f, e):
                        w.add("ALL")
            local[f.key] = w
        self.writes = {k: set(v) for k, v in local.items()}
        changed = True
        while changed:
            changed = False
            for f in P.funcs:
                w = self.writes[f.key]
                for t in self.callees(f):
                    tw = self.writes.get(t.key, set())
                    if not tw <= w:
                        w |= tw
                        changed = True

    def extern_call_tokens(self, f, e):
        n = e.get("callee")
        if n in EXTERN_PURE:
            return set()
        if n in EXTERN_WRITES:
            idxs = EXTERN_WRITES[n]
            toks = set()
            if idxs is None:
                return {"ALL"}
            for k in idxs:
                if k < len(e.get("c", [])):
                    a = e["c"][k]
                    if ex.is_null(f, a):
                        continue
                    t, _ = pointee_tokens(f, a)
                    # writes into the caller's own locals are not non-local effects
                    toks |= t
            return toks
        return {"ALL"}

    def call_writes(self, f, e):
        """Tokens a call event may write (callee summaries / extern table)."""
        n = e.get("callee")
        if n:
            t = self.prog.func_for(f, n)
            if t:
                return self.writes.get(t.key, {"ALL"})
            return self.extern_call_tokens(f, e)
        names = self.resolve_indirect(f, e)
        if not names:
            return set() if is_client_callback(f, e) else {"ALL"}
        w = set()
        for nm in names:
            t = self.prog.func_for(f, nm)
            w |= self.writes.get(t.key, {"ALL"}) if t else {"ALL"}
        return w
