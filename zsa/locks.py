"""RF-LOCK — context-sensitive must-lockset analysis on the typestate engine.

The rule state S is the frozenset of mutexes definitely held.  A mutex is
identified by the struct field it lives in ("record.field"), which is exact
for the one-object-per-scenario properties checked here.

  pthread_mutex_lock (&m)      S + m      (m already in S: self-deadlock)
  pthread_mutex_unlock (&m)    S - m      (m not in S: unlock of a mutex not held)
  pthread_mutex_trylock (&m)   returns 0 with S + m, non-zero with S
  call of a repo function that (transitively) touches a mutex or a protected
  object: analysed with the caller's S as its entry lockset (memoised per
  (function, S)), so that every access is seen with the locks its callers hold.

Results: per (function, entry lockset) the lockset before every event;
lock-order edges; pairing errors; the locksets at indirect (client callback)
calls.
"""
from . import ex, flow, typestate

LOCK, UNLOCK, TRYLOCK = "pthread_mutex_lock", "pthread_mutex_unlock", "pthread_mutex_trylock"


def mutex_id(f, arg, depth=0):
    """'record.field' (or global name) of the mutex whose address is passed."""
    j = ex.skip(f, arg)
    e = f.exprs[j]
    while e["k"] == "cast":
        j = ex.skip(f, e["c"][0])
        e = f.exprs[j]
    if e["k"] == "un" and e["op"] == "&":
        j = ex.skip(f, e["c"][0])
        e = f.exprs[j]
    if e["k"] == "mem":
        return "%s.%s" % (e.get("in"), e["member"])
    if e["k"] == "ref":
        if e.get("dk") == "local" and depth < 3:
            # `pthread_mutex_t *m = &dev->queue_mutex; lock (m); ... unlock (m);`: a local with a single definition
            d = _single_def(f, e["name"])
            if d is not None:
                return mutex_id(f, d, depth + 1)
        return e["name"]
    return ex.pretty(f, j)


def _single_def(f, name):
    c = f._cache.setdefault("lock_single_def", {})
    if name not in c:
        from . import flow
        defs = []
        for bid, i in flow.all_events(f):
            for lhs, var, op, rhs in flow.stores(f, i):
                who = var["name"] if var is not None else None
                if who is None and lhs is not None:
                    le = f.exprs[ex.skip(f, lhs)]
                    who = le.get("name") if le["k"] == "ref" and le.get("dk") == "local" else None
                if who == name and (rhs is not None or var is None):
                    defs.append((op, rhs))
        taken = any(x["k"] == "un" and x["op"] == "&" and f.exprs[ex.skip(f, x["c"][0])]["k"] == "ref"
                    and f.exprs[ex.skip(f, x["c"][0])].get("name") == name for x in f.exprs)
        c[name] = defs[0][1] if (len(defs) == 1 and defs[0][0] == "=" and defs[0][1] is not None and not taken) else None
    return c[name]


class LockSpec:
    def __init__(self, ctx, relevant, track=None):
        self.track = track                # None = every mutex; else the set of mutex ids followed
        self.ctx = ctx
        self.relevant = relevant          # function keys to analyse in context
        self.memo = {}
        self.errors = []                  # (f, eid, message, kind)
        self.order = {}                   # (held, acquired) -> (f, eid)
        self.depth = 0
        self.edges = {}                   # (callee key, S at call) -> set of (caller key, call eid, caller entry S)

    def keep(self, f, key):
        """Only the results of trylock calls (and the locals they are stored
        in) matter for lock pairing; all other path knowledge is dropped."""
        c = f._cache.get("lock_keep")
        if c is None:
            c = set()
            for _ in range(3):
                # the result itself, a flag computed from it (`locked_here = (0 == trylock ())`), a copy of such a flag
                for bid, i in flow.all_events(f):
                    for lhs, var, op, rhs in flow.stores(f, i):
                        if rhs is None:
                            continue
                        hit = False
                        for n_ in ex.walk(f, rhs):
                            r = f.exprs[n_]
                            if r["k"] == "call" and r.get("callee") == TRYLOCK:
                                hit = True
                            elif r["k"] == "ref" and r.get("dk") == "local" and r.get("name") in c:
                                hit = True
                        if hit:
                            if var is not None:
                                c.add(var["name"])
                            elif lhs is not None and f.exprs[ex.skip(f, lhs)]["k"] == "ref":
                                c.add(f.exprs[ex.skip(f, lhs)]["name"])
            f._cache["lock_keep"] = c
        if key[0] == "v":
            return key[1] in c
        if key[0] == "c":
            return f.exprs[key[1]].get("callee") == TRYLOCK
        return False

    def call(self, eng, f, eid, e, S, K):
        n = e.get("callee")
        if n in (LOCK, UNLOCK, TRYLOCK):
            m = mutex_id(f, e["c"][0])
            if self.track is not None and m not in self.track:
                return [(S, None)]
            if n == LOCK:
                if m in S:
                    self.errors.append((f, eid, "pthread_mutex_lock (%s) while it is already held: self-deadlock" % m, "relock"))
                for h in S:
                    self.order.setdefault((h, m), (f, eid))
                return [(S | {m}, 0)]
            if n == UNLOCK:
                if m not in S:
                    self.errors.append((f, eid, "pthread_mutex_unlock (%s) on a path where it is not held" % m, "unlock-unheld"))
                return [(S - {m}, 0)]
            for h in S:
                self.order.setdefault((h, m), (f, eid))
            if m in S:
                return [(S, typestate.NZ)]
            return [(S | {m}, 0), (S, typestate.NZ)]
        if n:
            t = self.ctx.prog.func_for(f, n)
            if t is not None and t.key in self.relevant:
                self.edges.setdefault((t.key, S), set()).add((f.key, eid, entry_of(eng)))
                return eng.via_summary(t, e, S, K)
            return [(S, None)]
        # indirect call: resolved targets inside the library are followed too
        names = self.ctx.sums.resolve_indirect(f, e)
        if names:
            res = []
            followed = False
            for nm in sorted(names):
                t = self.ctx.prog.func_for(f, nm)
                if t is not None and t.key in self.relevant:
                    followed = True
                    self.edges.setdefault((t.key, S), set()).add((f.key, eid, entry_of(eng)))
                    res.extend(eng.via_summary(t, e, S, K))
            if followed:
                return res
        return [(S, None)]

    def store(self, *a):
        return None


def entry_of(eng):
    """Entry lockset of the context an engine analyses."""
    for S, K in eng.init:
        return S
    return frozenset()


def callers_of(spec, fkey, S):
    """Names of the functions that call context (fkey, S)."""
    return sorted({(ck[1] if isinstance(ck, tuple) else ck) for ck, eid, cs in spec.edges.get((fkey, S), ())})


def unlocked_origins(spec, fkey, S, mutex, limit=200):
    """Where the unlocked context (fkey, S) comes from: the functions that were entered with `mutex` held and make the
    call (chain) after releasing it, and the entry points that never took it.  A finding is identified by these, so that
    a new way into the same unlocked code is a different finding."""
    res = set()
    seen = set()
    st = [(fkey, S)]
    while st and limit > 0:
        limit -= 1
        k = st.pop()
        if k in seen:
            continue
        seen.add(k)
        edges = list(spec.edges.get(k, ()))
        if not edges:
            ck = k[0]
            res.add(ck[1] if isinstance(ck, tuple) else ck)
            continue
        for ck, eid, cs in edges:
            if mutex in cs:
                res.add(ck[1] if isinstance(ck, tuple) else ck)
            else:
                st.append((ck, cs))
    return sorted(res)


def acquirers(spec, prog, fkey, S, mutex, limit=50):
    """Call sites (function, eid) at which `mutex` is held because the calling
    function itself took it, on a call chain that leads to context (fkey, S)."""
    res = []
    seen = set()
    st = [(fkey, S)]
    while st and limit > 0:
        limit -= 1
        k = st.pop()
        if k in seen:
            continue
        seen.add(k)
        for ck, eid, cs in spec.edges.get(k, ()):
            if mutex in cs:
                st.append((ck, cs))
            else:
                res.append((_func_by_key(prog, ck), eid))
    return res


def relevant_functions(ctx, is_protected_fn):
    """Keys of the functions that transitively reach a mutex operation or a
    function for which is_protected_fn (f) is true."""
    P = ctx.prog
    base = set()
    for f in P.funcs:
        hit = is_protected_fn(f)
        if not hit:
            for lst in (ctx.sums.calls.get(f.key, []),):
                for bid, i, tg, ext in lst:
                    if ext in (LOCK, UNLOCK, TRYLOCK):
                        hit = True
        if hit:
            base.add(f.key)
    rev = {}
    for f in P.funcs:
        for t in ctx.sums.callees(f):
            rev.setdefault(t.key, set()).add(f.key)
    seen = set(base)
    st = list(base)
    while st:
        k = st.pop()
        for c in rev.get(k, ()):
            if c not in seen:
                seen.add(c)
                st.append(c)
    return seen


class Multi:
    """The engines of one (function, entry lockset) context; they differ only in
    what is known about the arguments (NULL / non-NULL) at the call."""

    def __init__(self, engines):
        self.engines = engines

    def state_before(self, eid):
        out = None
        for e in self.engines:
            st = e.state_before(eid)
            if st:
                out = st if out is None else (out | st)
        return out

    def outcomes(self):
        res = set()
        for e in self.engines:
            res |= e.outcomes()
        return res

    def exit_states(self):
        for e in self.engines:
            for x in e.exit_states():
                yield x

    @property
    def init(self):
        return self.engines[0].init


class Result:
    def __init__(self):
        self.contexts = {}       # f.key -> {entry S: Engine}
        self.spec = None


def analyse(ctx, entries, is_protected_fn, track=None):
    """Analyse from each entry function with an empty lockset.  Returns
    Result: every (function, entry lockset) context that can occur, with a
    completed engine each."""
    rel = relevant_functions(ctx, is_protected_fn)
    spec = LockSpec(ctx, rel, track)
    res = Result()
    res.spec = spec
    empty = frozenset()
    for f in entries:
        eng = typestate.Engine(ctx, spec, f, [empty]).run()
        res.contexts.setdefault(f.key, {})[empty] = Multi([eng])
        # pairing at the entry point itself
        for rv, S, ret in eng.outcomes():
            if S != empty:
                line = f.exprs[ret]["line"] if ret is not None and ret >= 0 else f.endline
                spec.errors.append((f, ret if ret is not None and ret >= 0 else None,
                                    "returns at line %d still holding %s" % (line, ", ".join(sorted(S))), "held-at-exit"))
    # every memoised (function, S) context: re-run to expose the per-event locksets
    done = set()
    changed = True
    while changed:
        changed = False
        for (fkey, S, kin) in list(spec.memo.keys()):
            if (fkey, S, kin) in done:
                continue
            done.add((fkey, S, kin))
            f = _func_by_key(ctx.prog, fkey)
            if f is None:
                continue
            eng = typestate.Engine(ctx, spec, f, [S])
            eng.init = frozenset([(S, kin)])
            eng.run()
            cur = res.contexts.setdefault(fkey, {}).get(S)
            if cur is None:
                res.contexts[fkey][S] = Multi([eng])
            else:
                cur.engines.append(eng)
            changed = True
    return res


def _func_by_key(prog, key):
    if isinstance(key, tuple):
        unit, name = key
        for f in prog.by_name.get(name, []):
            if f.unit == unit:
                return f
        return None
    for f in prog.by_name.get(key, []):
        if not f.static:
            return f
    c = prog.by_name.get(key, [])
    return c[0] if c else None


def held_before(eng, eid):
    """Mutexes held on every path reaching event eid (None = unreachable)."""
    st = eng.state_before(eid)
    if not st:
        return None
    held = None
    for S, K in st:
        held = set(S) if held is None else (held & set(S))
    return held


def order_cycles(order):
    g = {}
    for (a, b) in order:
        g.setdefault(a, set()).add(b)
    cyc = []
    for a in g:
        st = [(a, [a])]
        seen = set()
        while st:
            n, path = st.pop()
            for m in g.get(n, ()):
                if m == a:
                    cyc.append(path + [a])
                elif m not in seen:
                    seen.add(m)
                    st.append((m, path + [m]))
    return cyc
