"""RF-NOWRITE — "on failure the output is unmodified".

For a function whose contract is "returns FALSE ... in this case <out>
remains unmodified": no path from entry to a return whose value may be 0
contains a store through an output parameter, nor a call that may write
through it.  Path-sensitive (typestate engine): `if (!callee (out, ...))
return FALSE` is accepted when the callee itself writes only on its TRUE
paths (its summary is computed with the same rule).
"""
from . import ex, flow, summaries, typestate

CLEAN, WRITTEN = "clean", "written"


def out_params(f):
    """Pointer parameters through which the function can write
    (pointee not const-qualified)."""
    res = []
    for p in f.params:
        t = p.get("t", "")
        if t.endswith("*") and not t.startswith("const ") and "(*)" not in t:
            res.append(p["name"])
    return res


def _aliases(f, outs):
    """Locals that are assigned a pointer derived from an output parameter."""
    outs = set(outs)
    changed = True
    while changed:
        changed = False
        for bid, i in flow.all_events(f):
            for lhs, var, op, rhs in flow.stores(f, i):
                if rhs is None:
                    continue
                name = None
                if var is not None:
                    name = var["name"] if var.get("t", "").endswith("*") else None
                elif lhs is not None:
                    l = ex.skip(f, lhs)
                    le = f.exprs[l]
                    if le["k"] == "ref" and le.get("dk") == "local" and le.get("t", "").endswith("*"):
                        name = le["name"]
                if name is None or name in outs:
                    continue
                if _rooted(f, rhs, outs):
                    outs.add(name)
                    changed = True
    return outs


def _rooted(f, i, outs):
    """Pointer expression derived from one of `outs` (p, p + k, &p->m, &p[k])."""
    j = ex.skip(f, i)
    if j is None or j < 0:
        return False
    e = f.exprs[j]
    k = e["k"]
    if k == "ref":
        return e.get("dk") in ("param", "local") and e["name"] in outs
    if k == "bin" and e["op"] in ("+", "-"):
        return _rooted(f, e["c"][0], outs) or (e["op"] == "+" and _rooted(f, e["c"][1], outs))
    if k == "cast":
        return _rooted(f, e["c"][0], outs)
    if k == "un" and e["op"] == "&":
        r = ex.root(f, e["c"][0])
        return r is not None and f.exprs[r]["name"] in outs and summaries.is_nonlocal_lvalue(f, e["c"][0])
    if k == "cond":
        return _rooted(f, e["c"][1], outs) or _rooted(f, e["c"][2], outs)
    if k in ("mem", "idx") and "arr" in e:
        # an array member of *out decaying to a pointer
        r = ex.root(f, j)
        return r is not None and f.exprs[r]["name"] in outs and summaries.is_nonlocal_lvalue(f, j)
    return False


class Spec:
    def __init__(self, ctx, f, outs, depth=0):
        self.ctx = ctx
        self.f = f
        self.outs = _aliases(f, outs)
        self.memo = {}
        self.depth = depth
        self.sub = {}
        self.writes = []        # (eid, description) of the first writes seen
        self.unknown = []

    def _writes_store(self, f, lhs):
        if lhs is None or not summaries.is_nonlocal_lvalue(f, lhs):
            return False
        r = ex.root(f, lhs)
        return r is not None and f.exprs[r].get("name") in self.outs and f.exprs[r].get("dk") in ("param", "local")

    def store(self, eng, f, eid, lhs, var, op, rhs, S, K):
        if self._writes_store(f, lhs):
            if S == CLEAN:
                self.writes.append((eid, "store to %s" % ex.pretty(f, lhs)))
            return WRITTEN
        return S

    def call(self, eng, f, eid, e, S, K):
        n = e.get("callee")
        args = e.get("c", [])
        hit = [k for k, a in enumerate(args) if _rooted(f, a, self.outs)]
        if not hit:
            return [(S, None)]
        if n:
            t = self.ctx.prog.func_for(f, n)
            if t is not None:
                if self.depth >= 4:
                    self.unknown.append((eid, "inlining bound exceeded at %s" % n))
                    return [(WRITTEN, None)]
                names = frozenset(t.params[k]["name"] for k in hit if k < len(t.params)
                                  and t.params[k]["name"] in out_params(t))
                if not names:
                    return [(S, None)]        # passed as pointer-to-const
                key = (t.key, names)
                sp = self.sub.get(key)
                if sp is None:
                    sp = self.sub[key] = Spec(self.ctx, t, names, self.depth + 1)
                res = []
                for S2, rv, K2 in _via(eng, sp, t, e, S, K):
                    res.append((S2, rv, K2))
                if any(s == WRITTEN for s, _, _ in res) and S == CLEAN:
                    self.writes.append((eid, "call %s (...) which may write through it" % n))
                return res
            w = summaries.EXTERN_WRITES.get(n)
            if n in summaries.EXTERN_PURE:
                return [(S, None)]
            if w is not None and not (set(w) & set(hit)):
                return [(S, None)]
            if S == CLEAN:
                self.writes.append((eid, "call %s (...) writing through it" % n))
            return [(WRITTEN, None)]
        if S == CLEAN:
            self.writes.append((eid, "indirect call receiving it"))
        return [(WRITTEN, None)]


def _via(eng, sp, callee, e, S, K):
    """Callee outcomes (S', rv, K) with the callee analysed under its own spec."""
    out = []
    for rv, S2 in typestate.summarize(sp.ctx, sp, callee, S, frozenset()):
        out.append((S2, rv, K))
    return out


def check(ctx, f, outs=None):
    """Returns (violations, n_false_returns, n_paths, spec).  A violation is
    (ret_eid or None, return value) for an exit that may return 0 after the
    output was written."""
    outs = out_params(f) if outs is None else outs
    sp = Spec(ctx, f, outs)
    eng = typestate.Engine(ctx, sp, f, [CLEAN]).run()
    viol = []
    n_false = 0
    outc = eng.outcomes()
    for rv, S, ret in outc:
        may_false = (rv == 0) or rv is None
        if rv == 0:
            n_false += 1
        if may_false and S == WRITTEN:
            viol.append((ret, rv))
    return viol, n_false, len(outc), sp
