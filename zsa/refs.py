"""RF-PAIR — ownership typestate for reference-counted objects held in local
variables (cache pages, cache networks).

State S: frozenset of local variable names that currently own a reference.
  v = acquire (...)           S + v      (v already owning: the old reference leaks)
  release (v)                 S - v
  return v / *out = v / obj->field = v      ownership leaves the function
  x = v                       ownership moves to x
  a branch that proves v == NULL            S - v   (nothing was acquired)
  an acquire call whose value is not used   leak at the call
  function exit with S non-empty            leak (reported with the acquiring site)
Functions that hand a reference out through a `T **` parameter are described
by a summary computed with the same rule (outparam_acquirers).
"""
from . import ex, flow, typestate


class RefSpec:
    def __init__(self, ctx, acquire, release, ptr_type_hint, out_acquirers=None, movers=None):
        self.ctx = ctx
        self.acquire = set(acquire)
        self.release = set(release)
        self.hint = ptr_type_hint            # e.g. "cache_page" (substring of the pointer type)
        self.out_acq = out_acquirers or {}   # callee name -> set of parameter indices that receive an owned reference
        # callee name -> parameter index: on a non-NULL result the caller's
        # reference moves from that argument to the result (the argument is
        # released or returned); on NULL nothing changes
        self.movers = movers or {}
        self.memo = {}
        self.leaks = []        # (f, eid, what)
        self.notes = []
        self.acq_sites = {}    # (f.key, var) -> eid of the latest acquire (for messages)
        self.transfers = []    # (f, eid, how)

    def keep(self, f, key):
        """Path knowledge worth keeping: the ownership candidates (locals that
        receive an acquire result, a reference through an out-parameter, or a
        copy of such a local) and the results of acquire calls."""
        ck = "refs_keep:%s:%s" % (self.hint, ",".join(sorted(self.out_acq)))
        c = f._cache.get(ck)
        if c is None:
            c = set()
            changed = True
            while changed:
                changed = False
                for bid, i in flow.all_events(f):
                    e = f.exprs[i]
                    for lhs, var, op, rhs in flow.stores(f, i):
                        if rhs is None or op != "=":
                            continue
                        dst = var["name"] if var is not None else self._local(f, lhs)
                        if dst is None or dst in c:
                            continue
                        src = self._local(f, rhs)
                        if self._acq_call(f, rhs) is not None or self._mover_call(f, rhs) is not None or (src is not None and src in c):
                            c.add(dst)
                            changed = True
                    if e["k"] == "call" and e.get("callee") in self.out_acq:
                        for k in self.out_acq[e["callee"]]:
                            if k < len(e.get("c", [])):
                                a = f.exprs[ex.skip(f, e["c"][k])]
                                if a["k"] == "un" and a["op"] == "&":
                                    v = self._local(f, a["c"][0])
                                    if v is not None and v not in c:
                                        c.add(v)
                                        changed = True
            f._cache[ck] = c
        if key[0] == "v":
            return key[1] in c
        if key[0] == "c":
            e = f.exprs[key[1]]
            return e.get("callee") in self.acquire or e.get("callee") in self.out_acq or e.get("callee") in self.movers
        return False

    def _leak(self, f, eid, msg, kind):
        if not any(x[0] is f and x[1] == eid and x[3] == kind for x in self.leaks):
            self.leaks.append((f, eid, msg, kind))

    def _note(self, f, eid, msg):
        if not any(x[0] is f and x[1] == eid for x in self.notes):
            self.notes.append((f, eid, msg))

    # ---- helpers ----------------------------------------------------------------
    def _acq_call(self, f, node):
        j = ex.skip(f, node)
        if j is None or j < 0:
            return None
        e = f.exprs[j]
        while e["k"] == "cast":
            j = ex.skip(f, e["c"][0])
            e = f.exprs[j]
        if e["k"] == "call" and e.get("callee") in self.acquire:
            return j
        if e["k"] == "asg" and e["op"] == "=":
            return self._acq_call(f, e["c"][1])
        return None

    def _local(self, f, node):
        j = ex.skip(f, node)
        if j is None or j < 0:
            return None
        e = f.exprs[j]
        while e["k"] == "cast":
            j = ex.skip(f, e["c"][0])
            e = f.exprs[j]
        if e["k"] == "ref" and e.get("dk") in ("local", "param"):
            return e["name"]
        if e["k"] == "asg" and e["op"] == "=":
            return self._local(f, e["c"][0])
        return None

    def _used(self, f, call):
        """The call's value is consumed by an enclosing expression."""
        c = f._cache.get("value_parents")
        if c is None:
            c = set()
            for j, e in enumerate(f.exprs):
                if e["k"] in ("asg", "bin", "un", "cond", "ret", "call", "idx", "mem", "decl"):
                    for ch in e.get("c", []):
                        c.add(ex.skip(f, ch))
                    if e["k"] == "decl":
                        for v in e.get("vars", []):
                            if "init" in v:
                                c.add(ex.skip(f, v["init"]))
                if e["k"] == "cast" and e["ck"] != "ToVoid":
                    c.add(ex.skip(f, e["c"][0]))
            for b in f.blocks.values():
                if b.term and "cond" in b.term:
                    c.add(ex.skip(f, b.term["cond"]))
            f._cache["value_parents"] = c
        return call in c

    # ---- engine hooks ----------------------------------------------------------------
    def call(self, eng, f, eid, e, S, K):
        n = e.get("callee")
        if n in self.release and e.get("c"):
            v = self._local(f, e["c"][0])
            if v is not None:
                if v in S:
                    return [(S - {v}, None)]
                val = typestate.k_get(K, ("v", v))
                if val != 0:
                    self._note(f, eid, "%s (%s) on a path where %s holds no reference acquired in this function" % (n, v, v))
            return [(S, None)]
        if n in self.acquire:
            if not self._used(f, eid):
                self._leak(f, eid, "the reference returned by `%s` is discarded: it can never be released"
                                   % ex.pretty(f, eid)[:60], "discarded:%s" % n)
            return [(S, None)]
        if n in self.movers:
            k = self.movers[n]
            v = self._local(f, e["c"][k]) if k < len(e.get("c", [])) else None
            if v is not None and v in S:
                tok = "#%d" % eid
                return [(S, 0), ((S - {v}) | {tok}, typestate.NZ)]
            return [(S, None)]
        if n in self.out_acq:
            out = S
            for k in self.out_acq[n]:
                if k < len(e.get("c", [])):
                    a = f.exprs[ex.skip(f, e["c"][k])]
                    if a["k"] == "un" and a["op"] == "&":
                        v = self._local(f, a["c"][0])
                        if v is not None:
                            if v in out:
                                self._leak(f, eid, "`%s` overwrites %s while it still owns a reference" % (ex.pretty(f, eid)[:50], v),
                                                   "overwritten:%s" % v)
                            out = out | {v}
                            self.acq_sites[(f.key, v)] = eid
            return [(out, None)]
        return [(S, None)]

    def store(self, eng, f, eid, lhs, var, op, rhs, S, K):
        if rhs is None or op != "=":
            return S
        acq = self._acq_call(f, rhs)
        src = self._local(f, rhs) if acq is None else None
        mv = self._mover_call(f, rhs)
        if mv is not None and ("#%d" % mv) in S:
            tok = "#%d" % mv
            if var is not None:
                return (S - {tok}) | {var["name"]}
            d = self._local(f, lhs)
            if d is None:
                self.transfers.append((f, eid, "stored"))
                return S - {tok}
            self.acq_sites[(f.key, d)] = mv
            return (S - {tok, d}) | {d}
        # destination
        if var is not None:
            dst, nonlocal_dst = var["name"], False
        else:
            dst = self._local(f, lhs)
            nonlocal_dst = dst is None
        if acq is not None:
            if nonlocal_dst:
                self.transfers.append((f, eid, "stored"))
                return S
            if dst in S:
                self._leak(f, eid, "`%s` overwrites %s while it still owns a reference" % (ex.pretty(f, eid)[:60], dst),
                                   "overwritten:%s" % dst)
            self.acq_sites[(f.key, dst)] = eid
            return S | {dst}
        if src is not None and src in S:
            if nonlocal_dst:
                self.transfers.append((f, eid, "stored"))
                return S - {src}
            if dst != src:
                if dst in S:
                    self._leak(f, eid, "`%s` overwrites %s while it still owns a reference" % (ex.pretty(f, eid)[:60], dst),
                                       "overwritten:%s" % dst)
                self.acq_sites[(f.key, dst)] = self.acq_sites.get((f.key, src), eid)
                return (S - {src}) | {dst}
            return S
        # overwriting an owner with something else
        if not nonlocal_dst and dst in S:
            val = eng.value(rhs, K)
            if val == 0 and typestate.k_get(K, ("v", dst)) == 0:
                return S - {dst}
            self._leak(f, eid, "`%s` overwrites %s while it still owns a reference" % (ex.pretty(f, eid)[:60], dst),
                               "overwritten:%s" % dst)
            return S - {dst}
        return S

    def _mover_call(self, f, node):
        j = ex.skip(f, node)
        if j is None or j < 0:
            return None
        e = f.exprs[j]
        while e["k"] == "cast":
            j = ex.skip(f, e["c"][0])
            e = f.exprs[j]
        if e["k"] == "call" and e.get("callee") in self.movers:
            return j
        return None

    def branch(self, eng, f, cond, truth, S, K):
        dead = {v for v in S if not v.startswith("#") and typestate.k_get(K, ("v", v)) == 0}
        return S - dead if dead else S


def run_function(ctx, spec, f):
    """Returns the list of (ret_eid, leaked vars) for exits that still own
    references, and whether the function hands a reference to its caller."""
    eng = typestate.Engine(ctx, spec, f, [frozenset()]).run()
    leaks = []
    returns_owned = False
    for bid, ret, S, K in eng.exit_states():
        S2 = set(S)
        if ret is not None and f.exprs[ret].get("c"):
            v = spec._local(f, f.exprs[ret]["c"][0])
            if v in S2:
                S2.discard(v)
                returns_owned = True
            if spec._acq_call(f, f.exprs[ret]["c"][0]) is not None:
                returns_owned = True
        # a variable known to be NULL on this path owns nothing
        S2 = {v for v in S2 if typestate.k_get(K, ("v", v)) != 0}
        if S2:
            leaks.append((ret, tuple(sorted(S2))))
    return leaks, returns_owned, eng


def outparam_acquirers(ctx, spec_factory, type_hint):
    """{function name: set of parameter indices} for functions that store an
    owned reference through a `T **` parameter (`*out = v` with v owning)."""
    P = ctx.prog
    res = {}
    changed = True
    rounds = 0
    while changed and rounds < 3:
        changed = False
        rounds += 1
        for f in P.funcs:
            outs = [k for k, p in enumerate(f.params) if type_hint in p.get("t", "") and p.get("t", "").rstrip().endswith("**")]
            if not outs:
                continue
            sp = spec_factory(res)
            sp_out = {}
            orig_store = sp.store

            def store(eng, ff, eid, lhs, var, op, rhs, S, K, _orig=orig_store, _f=f, _outs=outs, _sp=sp, _so=sp_out):
                if lhs is not None and rhs is not None and op == "=":
                    l = ff.exprs[ex.skip(ff, lhs)]
                    if l["k"] == "un" and l["op"] == "*":
                        b = ff.exprs[ex.skip(ff, l["c"][0])]
                        if b["k"] == "ref" and b.get("dk") == "param":
                            for k in _outs:
                                if _f.params[k]["name"] == b["name"]:
                                    v = _sp._local(ff, rhs)
                                    if (v is not None and v in S) or _sp._acq_call(ff, rhs) is not None:
                                        _so.setdefault(k, True)
                return _orig(eng, ff, eid, lhs, var, op, rhs, S, K)
            sp.store = store
            try:
                typestate.Engine(ctx, sp, f, [frozenset()]).run()
            except RuntimeError:
                continue
            if sp_out and res.get(f.name) != set(sp_out):
                res[f.name] = set(sp_out)
                changed = True
    return res
