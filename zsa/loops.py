"""Natural loops, trip-count bounds and counter caps.

For a loop with head H whose continuation condition bounds the number of
iterations by a loop-invariant quantity -

    while (d-- > 0)             trips <= hi (d at loop entry)
    for (...; i < n; ++i)       trips <= hi (n) - lo (i at loop entry)   (n invariant,
    for (...; i <= n; ++i)               (+1)                            i only incremented,
                                                                          once on every iteration)
- every variable v that is only ever *incremented* inside the loop (v++,
++v, v += c with constant c > 0, none of them in an inner loop) satisfies
    v <= hi (v at loop entry) + trips * (sum of the increments in the body)
at the loop head, inside the loop and after it.  absint.Analysis uses these
caps instead of the type maximum when it widens at H.
"""
from . import ex, flow


def back_edges(f):
    res = []
    for bid in f.rpo():
        for s, _ in f.edges(bid):
            if flow.dominates(f, s, bid):
                res.append((bid, s))
    return res


def natural_loops(f):
    """{head: set(body blocks incl. head)} merged per head."""
    c = f._cache.get("loops")
    if c is not None:
        return c
    loops = {}
    for src, head in back_edges(f):
        body = loops.setdefault(head, {head})
        st = [src]
        while st:
            n = st.pop()
            if n in body:
                continue
            body.add(n)
            st.extend(f.blocks[n].preds)
    f._cache["loops"] = loops
    return loops


def innermost(f, bid):
    """Head of the innermost loop containing block bid, or None."""
    best = None
    for h, body in natural_loops(f).items():
        if bid in body and (best is None or len(body) < len(natural_loops(f)[best])):
            best = h
    return best


def _incr_amount(f, i):
    """(lhs node, amount) when event i is `v++`, `++v` or `v += c` (c > 0)."""
    e = f.exprs[i]
    if e["k"] == "un" and e["op"] == "++":
        return e["c"][0], 1
    if e["k"] == "asg" and e["op"] == "+=":
        c = ex.const(f, e["c"][1])
        if c is not None and c > 0:
            return e["c"][0], c
    return None


def _stores_in(f, body):
    for bid in body:
        for i in flow.events(f, bid):
            for lhs, var, op, rhs in flow.stores(f, i):
                yield bid, i, lhs, var, op, rhs


def caps(an):
    """{(head, key): cap} for the analysis `an` (whose IN is a completed
    first-phase result)."""
    f = an.f
    res = {}
    L = natural_loops(f)
    for head, body in L.items():
        t = f.blocks[head].term
        entry_state = _entry_state(an, head, body)
        if entry_state is None:
            continue
        trips = None
        if t and "cond" in t:
            trips = _trip_bound(an, f, head, body, t["cond"], entry_state)
        if trips is None:
            # the condition may sit in the latch of a do-while
            continue
        # counters: keys only incremented in the body
        incs = {}
        bad = set()
        for bid, i, lhs, var, op, rhs in _stores_in(f, body):
            if var is not None:
                bad.add(("iv", var["name"]))
                continue
            key = an.track_key(lhs)
            if key is None:
                continue
            ia = _incr_amount(f, i)
            if ia is None or innermost(f, bid) != head:
                bad.add(key)
            else:
                incs[key] = incs.get(key, 0) + ia[1]
        # calls that may write a key make it unusable
        rel = _relational(an, f, head, body, t["cond"], entry_state) if t and "cond" in t else {}
        for key, amount in incs.items():
            if key in bad:
                continue
            if key in rel and amount == 1:
                if not (not _is_local_key(an, key) and _body_may_write(an, f, body, key)):
                    res[(head, key)] = rel[key]
                    continue
            if not _is_local_key(an, key) and _body_may_write(an, f, body, key):
                continue
            ev = entry_state.get(key)
            if ev is None or ev[1] is None:
                continue
            res[(head, key)] = ev[1] + trips * amount
    return res


def _is_local_key(an, key):
    m = an.keyinfo.get(key)
    return m is not None and not m.nonlocal_ and not (m.refs & an.taken)


def _body_may_write(an, f, body, key):
    for bid in body:
        for i in flow.events(f, bid):
            e = f.exprs[i]
            if e["k"] == "call":
                st = {key: (0, 0)}
                if key not in an.kill_tokens(st, an.sums.call_writes(f, e)):
                    return True
    return False


def _entry_state(an, head, body):
    f = an.f
    res = None
    for p in f.blocks[head].preds:
        if p in body:
            continue
        st = an.state_at_end(p)
        if st is None:
            continue
        for s, lab in f.edges(p):
            if s == head:
                s2 = an.xfer_edge(st, p, lab, s)
                if s2 is not None:
                    res = s2 if res is None else an.join(res, s2)
    return res


def _trip_bound(an, f, head, body, cond, entry):
    j = ex.skip(f, cond)
    e = f.exprs[j]
    # which label stays in the loop?
    stay = None
    for s, lab in f.edges(head):
        if s in body and lab in ("T", "F"):
            stay = lab
    if stay != "T":
        return None
    # pattern a: d-- > 0, d-- != 0, d--
    dnode = None
    if e["k"] == "bin" and e["op"] in (">", "!=") and ex.const(f, e["c"][1]) == 0:
        dnode = ex.skip(f, e["c"][0])
    elif e["k"] == "un":
        dnode = j
    if dnode is not None:
        de = f.exprs[dnode]
        if de["k"] == "un" and de["op"] == "--" and de.get("post"):
            key = an.track_key(de["c"][0])
            if key is not None and _only_store(an, f, body, key, dnode):
                ev = entry.get(key)
                if ev is not None and ev[1] is not None:
                    gt = e["k"] == "bin" and e["op"] == ">"
                    if gt or (ev[0] is not None and ev[0] >= 0):
                        return max(ev[1], 0)
    # pattern b: i < n, i <= n
    if e["k"] == "bin" and e["op"] in ("<", "<="):
        ikey = an.track_key(e["c"][0])
        if ikey is None:
            return None
        # i: only increments, one of them on every iteration
        every = False
        for bid, i, lhs, var, op, rhs in _stores_in(f, body):
            if var is not None:
                if ("iv", var["name"]) == ikey:
                    return None
                continue
            if an.track_key(lhs) != ikey:
                continue
            if _incr_amount(f, i) is None:
                return None
            if all(flow.dominates(f, bid, src) for src, h in back_edges(f) if h == head):
                every = True
        if not every:
            return None
        # n invariant in the loop
        nnode = e["c"][1]
        nv = an.eval(entry, nnode)
        if nv[1] is None:
            return None
        if not _invariant(an, f, body, nnode):
            return None
        iv = entry.get(ikey)
        if iv is None or iv[0] is None:
            return None
        n = nv[1] - iv[0] + (1 if e["op"] == "<=" else 0)
        return max(n, 0)
    return None


def _only_store(an, f, body, key, allowed_node):
    for bid, i, lhs, var, op, rhs in _stores_in(f, body):
        if var is not None:
            if ("iv", var["name"]) == key:
                return False
            continue
        if an.track_key(lhs) == key and i != allowed_node:
            return False
    if not _is_local_key(an, key) and _body_may_write(an, f, body, key):
        return False
    return True


def _invariant(an, f, body, node):
    """Expression `node` is not modified inside the loop body."""
    from . import absint
    m = absint.mentions(f, node)
    for bid, i, lhs, var, op, rhs in _stores_in(f, body):
        if var is not None:
            if var["name"] in m.refs:
                return False
            continue
        l = ex.skip(f, lhs)
        le = f.exprs[l]
        if le["k"] == "ref":
            if le["name"] in m.refs:
                return False
        else:
            if m.nonlocal_:
                # a store through memory: compare by field
                from . import summaries
                toks = summaries.write_tokens(f, l)
                for tk in toks:
                    if tk != "ALL" and tk[0] == "fld" and (tk[1], tk[2]) in m.fields:
                        return False
                    if tk != "ALL" and tk[0] == "deref" and tk[1] in m.derefs:
                        return False
    if m.nonlocal_:
        for bid in body:
            for i in flow.events(f, bid):
                e = f.exprs[i]
                if e["k"] == "call" and an.sums.call_writes(f, e):
                    toks = an.sums.call_writes(f, e)
                    if "ALL" in toks:
                        return False
                    for tk in toks:
                        if tk[0] == "fld" and (tk[1], tk[2]) in m.fields:
                            return False
    return True


# --------------------------------------------------------------------------
# relational caps:  d = C - v  (or MIN (x, C - v)) before  while (d-- > 0) { ... v++ ... }
# gives v <= C throughout (v_entry + trips <= v_entry + d_entry <= C).

def _relational(an, f, head, body, cond, entry):
    j = ex.skip(f, cond)
    e = f.exprs[j]
    dnode = None
    if e["k"] == "bin" and e["op"] == ">" and ex.const(f, e["c"][1]) == 0:
        dnode = ex.skip(f, e["c"][0])
    if dnode is None:
        return {}
    de = f.exprs[dnode]
    if not (de["k"] == "un" and de["op"] == "--" and de.get("post")):
        return {}
    dkey = an.track_key(de["c"][0])
    if dkey is None or not _only_store(an, f, body, dkey, dnode):
        return {}
    dname = dkey[1]
    # every definition of d outside the loop must be (at most) C - v
    defs = []
    for bid in f.rpo():
        if bid in body:
            continue
        for i in flow.events(f, bid):
            for lhs, var, op, rhs in flow.stores(f, i):
                k = ("iv", var["name"]) if var is not None else (an.track_key(lhs) if lhs is not None else None)
                if k == dkey:
                    defs.append((bid, i, op, rhs))
    # only the definitions that reach the loop head matter: those after which no
    # other definition of d lies on the way to the head
    reaching = []
    for bid, i, op, rhs in defs:
        if _reaches_without(f, bid, i, head, body, [x[1] for x in defs if x[1] != i]):
            reaching.append((bid, i, op, rhs))
    if not reaching:
        return {}
    out = None
    for bid, i, op, rhs in reaching:
        if op != "=" or rhs is None:
            return {}
        forms = _upper_forms(an, f, rhs)        # set of (C, vkey)
        if not forms:
            return {}
        # v must not change between this definition and the loop head
        ok = set()
        for C, vkey in forms:
            vstores = [x for b2 in f.rpo() if b2 not in body for x in flow.events(f, b2)
                       if any(((("iv", var["name"]) if var is not None else (an.track_key(lhs) if lhs is not None else None)) == vkey)
                              for lhs, var, o2, r2 in flow.stores(f, x))]
            if _reaches_without(f, bid, i, head, body, vstores):
                ev = entry.get(vkey)
                if ev is not None and ev[1] is not None and ev[1] <= C:
                    ok.add((C, vkey))
        out = ok if out is None else (out & ok)
        if not out:
            return {}
    res = {}
    for C, vkey in out:
        res[vkey] = min(C, res.get(vkey, C))
    return res


def _reaches_without(f, bid, eid, head, body, forbidden):
    """Some path from just after event eid reaches `head` (entering the loop
    from outside) without executing a forbidden event -- and no path does
    execute one.  Returns True when NO path from eid to head passes a
    forbidden event and head is reachable."""
    forb = set(forbidden)
    elems = f.blocks[bid].elems
    n = elems.index(eid)
    for x in elems[n + 1:]:
        if x in forb:
            return False
    fb = set()
    for b2 in f.blocks:
        if b2 in body:
            continue
        if any(x in forb for x in f.blocks[b2].elems):
            fb.add(b2)
    # blocks on some path from bid to head (outside the body)
    seen = set()
    st = [s for s, _ in f.edges(bid)]
    reach_head = False
    while st:
        b2 = st.pop()
        if b2 in seen:
            continue
        seen.add(b2)
        if b2 == head:
            reach_head = True
            continue
        if b2 in body:
            continue
        st.extend(s for s, _ in f.edges(b2))
    if not reach_head:
        return False
    # a forbidden block that lies between (reachable from bid and reaching head)
    for b2 in fb & seen:
        if head in flow.reach_from(f, b2, avoid=()):
            return False
    return True


def _upper_forms(an, f, node, depth=0):
    """Forms (C, key of v) such that the value of `node` is <= C - v."""
    j = ex.skip(f, node)
    e = f.exprs[j]
    res = set()
    if depth > 6:
        return res
    if e["k"] == "cast" and e["ck"] == "IntegralCast":
        return _upper_forms(an, f, e["c"][0], depth + 1)
    if e["k"] == "bin" and e["op"] == "-":
        C = ex.const(f, e["c"][0])
        vkey = an.track_key(e["c"][1])
        if C is not None and vkey is not None:
            res.add((C, vkey))
        return res
    if e["k"] == "cond":
        c, a, b = e["c"]
        ce = f.exprs[ex.skip(f, c)]
        if ce["k"] == "bin" and ce["op"] in ("<", "<="):
            pa, pb = ex.path(f, ce["c"][0]), ex.path(f, ce["c"][1])
            if pa is not None and pb is not None and ex.path(f, a) == pa and ex.path(f, b) == pb:
                # minimum: bounded by either branch's form
                return _upper_forms(an, f, a, depth + 1) | _upper_forms(an, f, b, depth + 1)
        return res
    if e["k"] == "ref" and e.get("dk") == "local":
        # a temporary with a single initialiser (the MIN macro's _x / _y)
        inits = []
        for bid, i in flow.all_events(f):
            for lhs, var, op, rhs in flow.stores(f, i):
                nm = var["name"] if var is not None else None
                did = var.get("did") if var is not None else None
                if lhs is not None:
                    le = f.exprs[ex.skip(f, lhs)]
                    if le["k"] == "ref":
                        nm, did = le["name"], le.get("did")
                if nm == e["name"] and did == e.get("did"):
                    inits.append(rhs)
        if len(inits) == 1 and inits[0] is not None:
            return _upper_forms(an, f, inits[0], depth + 1)
    return res


def covers(an, f, head, body, n):
    """Does the loop visit exactly the n positions 0 .. n-1 of a sequence, one per iteration?  True for
      - an index or a pointer cursor that starts at 0 (cursor: offset 0 of its array), is stepped by +1 exactly once on
        every iteration, and the loop is left only by its head test failing with the variable at n;
      - the mirror image (starts at n / n-1, stepped by -1, ends at 0).
    Returns (True, description) or (False, reason).  The head test is evaluated on the interval state: with the variable
    below n (above 0) the loop must go on, at n (0) it must end; no other edge leaves the body."""
    from . import absint, atoms, ex, flow
    t = f.blocks[head].term
    if not t or "cond" not in t:
        return False, "the loop has no head test"
    for b in body:
        for s2, lab in f.edges(b):
            if s2 not in body and b != head:
                return False, "the loop can be left from inside its body (block %d)" % b
    entry = _entry_state(an, head, body)
    if entry is None:
        return False, "no entry state"
    # candidate variables: locals stepped by one in the body
    cands = []
    for b in body:
        for i in flow.events(f, b):
            e = f.exprs[i]
            amt = None
            if e["k"] == "un" and e["op"] in ("++", "--"):
                amt = 1 if e["op"] == "++" else -1
            elif e["k"] == "asg" and e["op"] in ("+=", "-=") and ex.const(f, e["c"][1]) == 1:
                amt = 1 if e["op"] == "+=" else -1
            if amt is not None:
                tgt = f.exprs[ex.skip(f, e["c"][0])]
                if tgt["k"] == "ref" and tgt.get("dk") == "local":
                    cands.append((tgt["name"], amt, b, i))
    for name, amt, b, i in cands:
        if sum(1 for c in cands if c[0] == name) != 1:
            continue
        other = False
        for sb, si, lhs, var, op, rhs in _stores_in(f, body):
            if si == i:
                continue
            le = f.exprs[ex.skip(f, lhs)] if lhs is not None else None
            if (var is not None and var["name"] == name) or (le is not None and le["k"] == "ref" and le.get("name") == name):
                other = True
        if other:
            continue
        # stepped on every iteration: its block dominates every back edge source
        srcs = [p for p in f.blocks[head].preds if p in body]
        if not all(flow.dominates(f, b, p) or b == p for p in srcs):
            continue
        key = ("iv", name)
        start = entry.get(key)
        cur = ("iv", "@" + name)
        if start is None and cur in entry:
            start = entry.get(cur)
            key = cur
        if start is None or start[0] != start[1]:
            continue
        lo, hi = (0, n) if amt == 1 else (0, start[0])
        if amt == 1 and start[0] != 0:
            continue
        if amt == -1 and start[0] not in (n, n - 1):
            continue
        # the head test: goes on for every value still to visit, ends at the far end
        def outcome(v):
            st = dict(entry)
            st[key] = (v, v)
            on = off = False
            for s2, lab in f.edges(head):
                s3 = an.xfer_edge(st, head, lab, s2)
                if s3 is None:
                    continue
                if s2 in body:
                    on = True
                else:
                    off = True
            return on, off
        if amt == 1:
            inside = all(outcome(v) == (True, False) for v in (0, 1, n // 2, n - 1))
            end = outcome(n) == (False, True)
        else:
            first = start[0]
            last_in = 0 if first == n - 1 else 1
            inside = all(outcome(v) == (True, False) for v in (first, max(last_in, n // 2), last_in))
            end = outcome(last_in - 1) == (False, True)
        if inside and end:
            return True, name
    return False, "no loop variable that starts at one end, is stepped by one on every iteration and leaves the loop at the other end (%d positions)" % n
