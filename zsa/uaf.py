"""RF-UAF — a local pointer passed to free() is not read again before it is
reassigned (forward may-analysis over every evaluated sub-expression)."""
from . import ex, flow

FREE = ("free", "vbi_free", "vbi_cache_free")


def _local_ptr(f, node):
    j = ex.skip(f, node)
    e = f.exprs[j]
    while e["k"] == "cast":
        j = ex.skip(f, e["c"][0])
        e = f.exprs[j]
    if e["k"] == "ref" and e.get("dk") in ("local", "param") and "it" not in e:
        return e["name"]
    return None


def analyse(f):
    """[(use node, variable, free node)] for reads of a freed local pointer."""
    has_free = any(e["k"] == "call" and e.get("callee") in FREE for e in f.exprs)
    if not has_free:
        return [], 0
    n_free = 0
    findings = []
    seen = set()

    def xfer(st, i):
        nonlocal n_free
        e = f.exprs[i]
        k = e["k"]
        if k == "cast" and e.get("ck") == "LValueToRValue":
            c = f.exprs[ex.skip(f, e["c"][0])]
            if c["k"] == "ref" and c.get("dk") in ("local", "param"):
                for name, fn in st:
                    if name == c["name"] and (i, name) not in seen:
                        seen.add((i, name))
                        findings.append((i, name, fn))
            return st
        if k == "call" and e.get("callee") in FREE and e.get("c"):
            v = _local_ptr(f, e["c"][0])
            if v is not None:
                return st | {(v, i)}
            return st
        for lhs, var, op, rhs in flow.stores(f, i) if flow.is_event(f, i) else []:
            name = var["name"] if var is not None else None
            if lhs is not None:
                le = f.exprs[ex.skip(f, lhs)]
                if le["k"] == "ref":
                    name = le["name"]
            if name is not None and any(n == name for n, _ in st):
                st = frozenset(x for x in st if x[0] != name)
        return st

    def edge(st, bid, lab, succ):
        return st

    flow.forward(f, frozenset(), xfer, edge, lambda a, b: a | b, max_visits=200)
    n_free = sum(1 for e in f.exprs if e["k"] == "call" and e.get("callee") in FREE)
    return findings, n_free
