"""Result collection, known-findings handling, evidence files, exit codes."""
import json
import os
import random
import sys
import time

VERIF = os.path.dirname(os.path.dirname(os.path.abspath(__file__)))
KNOWN = os.path.join(VERIF, "known_findings.json")
# the mutation self-test runs the checks on scratch copies; their evidence must not
# overwrite the evidence of the run against /repo
EVDIR = os.environ.get("ZSA_EVIDENCE_DIR") or os.path.join(VERIF, "evidence")


class Run:
    def __init__(self, pid, tier, clause, not_decided):
        self.pid = pid
        self.tier = tier
        self.clause = clause              # what is decided, in words
        self.not_decided = not_decided    # what is not
        self.t0 = time.time()
        self.instances = []               # dicts: rule, key, verdict, detail, loc, nontrivial
        self.violations = []
        self.notes = []
        self.units = set()
        self.functions = set()
        self.floors = []
        self.trusted = ["clang 14 front end (AST, CFG construction, constant folding)",
                        "tools/zvbi-facts.cc fact extractor", "zsa rule engine (python3)"]
        self.assumptions = []
        self.extra = {}
        self.seed = int(os.environ.get("VERIF_SEED", "0") or 0)

    # ---- recording ---------------------------------------------------------
    def touch(self, f):
        self.units.add(f.unit)
        self.functions.add("%s:%s" % (f.file, f.name))

    def holds(self, rule, key, detail, loc=None, nontrivial=True):
        self.instances.append({"rule": rule, "key": key, "verdict": "holds",
                               "detail": detail, "loc": loc, "nontrivial": nontrivial})

    def violation(self, rule, key, detail, loc=None, witness=None):
        detail = detail.replace("\n", " ").replace("\r", " ")
        d = {"rule": rule, "key": key, "verdict": "violated", "detail": detail,
             "loc": loc, "witness": witness, "nontrivial": True}
        for o in self.violations:
            if (o["rule"], o["key"], o["loc"], o["detail"]) == (rule, key, loc, detail):
                return
        self.instances.append(d)
        self.violations.append(d)

    def note(self, text):
        self.notes.append(text)

    def undecided(self, rule, key, detail, loc=None):
        """The rule could not decide this instance and nothing in the code contradicts it (e.g. a subscript site that
        did not exist when the tables were confirmed and has no bound the interval analysis can find).  Not a
        violation: the check ends as analysis-broken (exit 2) unless a real violation is reported as well."""
        if not hasattr(self, "undecided_list"):
            self.undecided_list = []
        self.undecided_list.append({"rule": rule, "key": key, "detail": detail.replace("\n", " "), "loc": loc})

    def floor(self, what, count, minimum):
        """Anti-vacuity: a rule that matches fewer sites than confirmed by hand
        is a broken analysis, not a pass."""
        self.floors.append({"what": what, "count": count, "minimum": minimum})
        if count < minimum:
            import os
            if os.environ.get("ZSA_SOFT_FLOORS") and count > 0:
                # diagnostic mode only (never set by a registered command): go on to see what the later rules say
                self.note("SOFT FLOOR %s: %d < %d" % (what, count, minimum))
                return
            from .prog import AnalysisBroken
            raise AnalysisBroken("%s: instance count %d below the confirmed floor %d "
                                 "(anchor vanished or rule no longer matches)" % (what, count, minimum))

    # ---- finishing ---------------------------------------------------------
    def finish(self):
        known = load_known()
        listed = [k for k in known.get("findings", []) if k.get("property") == self.pid]
        out_lines = []
        unlisted = []
        seen_known = set()
        for v in self.violations:
            m = None
            for k in listed:
                if k.get("key") == v["key"]:
                    m = k
                    break
            if m is not None:
                if m["key"] not in seen_known:
                    seen_known.add(m["key"])
                    out_lines.append("KNOWN-FINDING: property=%s %s [%s]" % (self.pid, m.get("what", v["detail"]), v["key"]))
                v["known"] = True
            else:
                unlisted.append(v)
        vdir = os.path.join(EVDIR, "violations")
        os.makedirs(vdir, exist_ok=True)
        # remove stale replay files of this property
        for n in os.listdir(vdir):
            if n.startswith(self.pid + "-"):
                try:
                    os.unlink(os.path.join(vdir, n))
                except OSError:
                    pass
        for n, v in enumerate(unlisted):
            path = os.path.join(vdir, "%s-%d.json" % (self.pid, n))
            with open(path, "w") as fh:
                json.dump({"property": self.pid, "rule": v["rule"], "key": v["key"],
                           "detail": v["detail"], "loc": v["loc"], "witness": v.get("witness")}, fh, indent=1)
            out_lines.append("VIOLATION property=%s replay=%s" % (self.pid, os.path.relpath(path, VERIF)))
            out_lines.append("  %s %s: %s" % (v["rule"], v["loc"] or "", v["detail"]))
        self.write_evidence(len(unlisted), len(seen_known))
        n_ok = sum(1 for i in self.instances if i["verdict"] == "holds")
        print("%s [%s] clause: %s" % (self.pid, self.tier, self.clause))
        print("%s analysed: %d units, %d functions, %d rule instances (%d hold, %d known findings, %d violations)"
              % (self.pid, len(self.units), len(self.functions), len(self.instances), n_ok,
                 len(self.violations) - len(unlisted), len(unlisted)))
        for fl in self.floors:
            print("  floor %-50s %d >= %d" % (fl["what"], fl["count"], fl["minimum"]))
        for n in self.notes:
            print("  note: " + n)
        for l in out_lines:
            print(l)
        und = getattr(self, "undecided_list", [])
        if und and not unlisted:
            for u in und[:8]:
                print("UNDECIDED %s %s: %s" % (u["rule"], u["loc"] or "", u["detail"]))
            print("ANALYSIS-BROKEN property=%s: %d instance(s) could not be decided on this tree (new code shape: the instance "
                  "tables have to be re-confirmed); no violation was found" % (self.pid, len(und)))
            return 2
        return 1 if unlisted else 0

    def write_evidence(self, n_unlisted, n_known):
        holds = [i for i in self.instances if i["verdict"] == "holds"]
        nontriv = {(i["rule"], i["key"]) for i in self.instances if i.get("nontrivial")}
        rnd = random.Random(self.seed)
        pool = [i for i in self.instances if i.get("nontrivial")] or self.instances
        samples = pool if len(pool) <= 12 else rnd.sample(pool, 12)
        by_rule = {}
        for i in self.instances:
            by_rule[i["rule"]] = by_rule.get(i["rule"], 0) + 1
        ev = {
            "property_id": self.pid,
            "tier": self.tier,
            "seed": self.seed,
            "level": "other",
            "coverage": {
                "explanation": "Static analysis over clang's AST/CFG of /repo's current source. Decided clause: %s "
                               "NOT decided: %s" % (self.clause, self.not_decided),
                "evaluations": len(self.instances),
                "distinct_nontrivial": len(nontriv),
                "rule": "one evaluation per rule instance (a call site, store, subscript, path or table row the rule "
                        "quantifies over); non-trivial = the verdict depends on a guard, dominance, interval, path or "
                        "summary derivation rather than on a syntactic constant; distinct by (rule, instance key)",
                "samples": [{"rule": s["rule"], "instance": s["key"], "verdict": s["verdict"],
                             "derivation": s["detail"], "loc": s["loc"]} for s in samples],
                "obligations": len(self.instances),
                "discharged": len(holds),
                "known_findings": n_known,
                "rule_instances": by_rule,
                "units": sorted(self.units),
                "functions_analysed": len(self.functions),
                "floors": self.floors,
                "notes": self.notes,
                "checker_cmd": "./check %s --tier %s" % (self.pid, self.tier),
                "trusted_base": self.trusted,
                "exhaustive": False,
            },
            "assumptions": self.assumptions,
            "wall_s": round(time.time() - self.t0, 3),
            "violations": n_unlisted,
        }
        ev["coverage"].update(self.extra)
        os.makedirs(EVDIR, exist_ok=True)
        with open(os.path.join(EVDIR, self.pid + ".json"), "w") as fh:
            json.dump(ev, fh, indent=1)


def load_known():
    if not os.path.exists(KNOWN):
        return {"findings": [], "fixed": []}
    with open(KNOWN) as fh:
        return json.load(fh)
