"""Generic RF-IVL / RF-CUR sweep over the units of a property: every subscript of a
constant-size array and every dereference through a tracked pointer cursor must be in bounds
under the function's guards, the parameter joins and the declared field invariants - or be
listed, site by site, in the property's trusted table (contract / relational / value-set)."""
from . import atoms, ex, ivl, normalize

DEBUG_ONLY = ("dump", "xdump", "_debug")


def is_debug_fn(f):
    n = f.name
    return n.endswith("_dump") or n.startswith("dump_") or n == "xdump" or n.endswith("_debug")


def canon(f, node):
    e = f.exprs[node]
    if e["k"] != "idx":
        return "ptr:" + ex.pretty(f, node)[:40]
    b = ex.skip(f, e["c"][0])
    be = f.exprs[b]
    while be["k"] == "cast":
        b = ex.skip(f, be["c"][0])
        be = f.exprs[b]
    arr = be.get("member") or be.get("name") or be["k"]
    if be["k"] == "idx":
        bb = f.exprs[ex.skip(f, be["c"][0])]
        while bb["k"] == "cast":
            bb = f.exprs[ex.skip(f, bb["c"][0])]
        arr = (bb.get("member") or bb.get("name") or "?") + "[]"
    o = atoms.Operand(f, e["c"][1])
    shape = "const%s" % o.const if o.const is not None else ("+".join(sorted(x.split(".")[-1] for x in o.fields)) or "local")
    j = ex.skip(f, e["c"][1])
    je = f.exprs[j]
    if je["k"] == "bin" and je["op"] in ("+", "-"):
        c = ex.const(f, je["c"][1])
        if c is not None:
            shape += "%s%d" % (je["op"], c)
    return "%s[%s]" % (arr, shape)


def run(ctx, run, units, trusted, floor_subs, floor_cur=0, skip_debug=True):
    """trusted: {"RF-IVL:<fn>:<canon>" or "RF-CUR:<fn>:<array>": reason}"""
    P = ctx.prog
    n_s = n_c = n_und = 0
    used = set()
    for f in P.funcs:
        if f.unit not in units or f.file.endswith(".h"):
            continue
        if skip_debug and is_debug_fn(f):
            continue
        subs = ivl.subscripts(f)
        curs = ivl.cursor_derefs(f)
        if not subs and not curs:
            continue
        touched = False
        for node, cnt, base in subs:
            be = f.exprs[base]
            if be.get("member") in ("fds_bits", "__fds_bits") or cnt == 1:
                continue            # libc's FD_SET macros; `lines[1]` struct-hack tails (their extent is a length field)
            v = ivl.check_subscript(ctx, f, node, cnt, base)
            n_s += 1
            touched = True
            desc = ex.pretty(f, node)
            key = "RF-IVL:%s:%s" % (f.name, canon(f, node))
            loc = ex.loc(f, node)
            if v.status == "holds":
                run.holds("RF-IVL", key, "%s: index in %s, %d elements" % (desc[:80], v.iv, cnt), loc,
                          nontrivial=v.iv is not None and v.iv[0] != v.iv[1])
            elif key in trusted:
                used.add(key)
                run.holds("RF-IVL", key, "TRUSTED (not decided by the interval analysis, index interval %s of %d): %s"
                          % (v.iv, cnt, trusted[key]), loc, nontrivial=False)
            elif v.status == "unproven" and not normalize.known_subscript(f, canon(f, node)):
                run.undecided("RF-IVL", key, "%s: a subscript that did not exist when the tables were confirmed, and no bound "
                              "for its index is stated in %s() (%s): neither proven nor contradicted" % (desc[:80], f.name, v.why), loc)
            else:
                run.violation("RF-IVL", key, "%s: index interval %s against %d elements: %s" % (desc[:90], v.iv, cnt, v.why), loc,
                              witness={"function": f.name, "subscript": desc, "index_interval": list(v.iv) if v.iv else None,
                                       "elements": cnt, "derivation": v.why})
        for node, name, ix, post in curs:
            v = ivl.check_cursor(ctx, f, node, name, ix, post)
            if v is None:
                continue
            n_c += 1
            touched = True
            key = "RF-CUR:%s:%s" % (f.name, v.base)
            loc = ex.loc(f, node)
            if v.status == "holds":
                run.holds("RF-CUR", key, "%s: cursor offset %s inside %s[%d]" % (ex.pretty(f, node)[:50], v.iv, v.base, v.n), loc,
                          nontrivial=v.iv[0] != v.iv[1])
                continue
            hi_bad = v.iv[1] is not None and v.n <= v.iv[1] < (1 << 30)
            lo_bad = v.iv[0] is not None and -(1 << 30) < v.iv[0] < 0
            if not (hi_bad or lo_bad):
                n_und += 1
                continue
            if key in trusted:
                used.add(key)
                run.holds("RF-CUR", key, "TRUSTED (relational; offset interval %s of %d): %s" % (v.iv, v.n, trusted[key]), loc, nontrivial=False)
                continue
            run.violation("RF-CUR", key, "%s: %s (offset interval %s)" % (ex.pretty(f, node)[:60], v.why, v.iv), loc,
                          witness={"function": f.name, "deref": ex.pretty(f, node), "array": v.base, "elements": v.n,
                                   "offset_interval": list(v.iv)})
        if touched:
            run.touch(f)
    # subscripts and cursor dereferences together: rewriting an index loop with a pointer cursor moves sites from one
    # count to the other
    run.floor("sized-array subscripts and cursor dereferences in %s" % ", ".join(u.split("/")[-1] for u in units), n_s + n_c, floor_subs)
    if floor_cur:
        run.floor("cursor dereferences in %s" % ", ".join(u.split("/")[-1] for u in units), n_c, floor_cur)
    if n_und:
        run.note("%d cursor dereferences with a loop-carried offset are not decided" % n_und)
    run.extra.setdefault("trusted_sites", [])
    run.extra["trusted_sites"] = sorted(set(run.extra["trusted_sites"]) | used)
    for k in sorted(set(trusted) - used):
        run.note("trusted entry %s matched no site (proved by the analysis or gone)" % k)
