"""Unit list and compile flags, derived from the build description itself.

There is no compilation database: /repo is a configured autotools tree.  The
units are the .c files named in *_SOURCES of src/Makefile.am and
daemon/Makefile.am, with automake conditionals evaluated from config.status.
A unit named by the build but missing on disk is an analysis failure.
"""
import os
import re

REPO = os.environ.get("ZVBI_REPO", "/repo")


class BuildError(Exception):
    pass


def _conditionals():
    cs = os.path.join(REPO, "config.status")
    cond = {}
    if os.path.exists(cs):
        for m in re.finditer(r'S\["([A-Z0-9_]+)_TRUE"\]="(.*?)"', open(cs, errors="replace").read()):
            cond[m.group(1)] = (m.group(2) == "")
    return cond


def _parse_am(path, cond):
    """Return dict var -> list of words, honouring if/else/endif."""
    if not os.path.exists(path):
        raise BuildError("missing build description " + path)
    text = open(path, errors="replace").read()
    text = text.replace("\\\n", " ")
    vars_ = {}
    stack = []
    for line in text.split("\n"):
        s = line.strip()
        if s.startswith("#"):
            continue
        m = re.match(r"if\s+(!?)([A-Za-z0-9_]+)$", s)
        if m:
            v = cond.get(m.group(2), False)
            if m.group(1):
                v = not v
            stack.append(v)
            continue
        if re.match(r"else\b", s):
            if stack:
                stack[-1] = not stack[-1]
            continue
        if re.match(r"endif\b", s):
            if stack:
                stack.pop()
            continue
        if not all(stack):
            continue
        m = re.match(r"([A-Za-z0-9_]+)\s*(\+?=)\s*(.*)$", s)
        if m and not line.startswith("\t"):
            words = m.group(3).split()
            if m.group(2) == "+=":
                vars_.setdefault(m.group(1), []).extend(words)
            else:
                vars_[m.group(1)] = words
    return vars_


def _expand(words, vars_, depth=0):
    out = []
    for w in words:
        m = re.match(r"\$\(([A-Za-z0-9_]+)\)$", w)
        if m and depth < 8:
            out.extend(_expand(vars_.get(m.group(1), []), vars_, depth + 1))
        else:
            out.append(w)
    return out


def units():
    """Return the sorted list of repo-relative .c units the build compiles."""
    cond = _conditionals()
    res = set()
    for d in ("src", "daemon"):
        vars_ = _parse_am(os.path.join(REPO, d, "Makefile.am"), cond)
        for k, words in vars_.items():
            if not k.endswith("_SOURCES") or k == "BUILT_SOURCES":
                continue
            for w in _expand(words, vars_):
                if w.endswith(".c"):
                    res.add(os.path.join(d, w))
    missing = [u for u in res if not os.path.exists(os.path.join(REPO, u))]
    if missing:
        raise BuildError("units named by the build but missing: " + ", ".join(sorted(missing)))
    if not os.path.exists(os.path.join(REPO, "config.h")):
        raise BuildError("config.h missing: /repo is not a configured tree")
    return sorted(res)


def flags(unit):
    fl = ["-DHAVE_CONFIG_H", "-I" + REPO, "-I" + os.path.join(REPO, "src"),
          "-D_REENTRANT", "-D_GNU_SOURCE", "-std=gnu11", "-UNDEBUG",
          "-Wno-everything"]
    if unit.startswith("daemon/"):
        fl += ["-I" + os.path.join(REPO, "daemon"),
               '-DLIBZVBI_CHAINS_PATH="libzvbi-chains.so.0"']
    return fl


if __name__ == "__main__":
    for u in units():
        print(u)
