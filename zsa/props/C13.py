"""C13 — announcements are debounced (RF-DOM) and the debounce state is
maintained on every path (RF-CORR)."""
from .. import ex, flow, atoms
from ..prog import AnalysisBroken

CLAUSE = ("every network / network-id / programme-id / aspect announcement (vbi_send_event, caption_send_event) and every "
          "cache-dropping vbi_chsw_reset() on the VPS, 8/30-1, 8/30-2, XDS and WSS carriers is dominated by its debounce "
          "conditions (received value equals the stored one; cycle == 1 resp. repeat counter >= 3; valid WSS parity; changed "
          "station id; non-zero old id before a reset; successful decode before a LOCAL_TIME / PROG_ID event); after a "
          "NETWORK_ID announcement the cycle leaves 1 on every path; wherever the stored last-received value is replaced, the "
          "cycle / repeat counter is re-armed and no announcement is reachable; vbi_chsw_reset clears the pending "
          "channel-switch countdown on every path; the countdown-driven reset is dominated by the countdown reaching zero.")
CLAUSE = CLAUSE + (" (RF-NEG) in the announcing decoders (parse_bsd, parse_8_30, vbi_decode_vps, vbi_decode_wss_625) no Hamming / "
                   "parity decode result reaches the stored last-received id (the value the debounce compares) before a `< 0` "
                   "test of it or of an OR-accumulation of it - an uncorrectable byte never takes part in 'received twice'.")
CLAUSE = CLAUSE + (" In vbi_event_enable every reset action (network record, Teletext, caption, triggers, programme info) is "
                   "conditional on the *newly activated* event bits (`activate`), never on the whole mask, so registering another "
                   "handler does not forget the station that was already announced; in xds_decoder a change of the call letters "
                   "re-arms the network name debounce (name cleared together with the cycle).")
CLAUSE = CLAUSE + (" station_lookup selects a table row by comparing the whole column with the CNI as received (only the VPS "
                   "column cni4 with the 12 bit code); removing a handler record does not end the list walk whose union of masks "
                   "gates the announcing decoders.")
CLAUSE = CLAUSE + (" parse_8_30 decodes local time only under designation 0..1 and the programme id only under 2..3.")
CLAUSE = CLAUSE + (" parse_8_30 is dispatched on the full channel number (pmag & 15) == 0.")
CLAUSE = CLAUSE + (' The channel-switch countdown is armed only when a previous frame exists (vbi->time > 0).')
CLAUSE = CLAUSE + (" vbi_chsw_reset() wipes the network record on every path with identified == 0.")
NOT_DECIDED = ("that the event carries exactly the transmitted values (value fidelity), exactly-one event under interleaved "
               "carriers, the XDS carrier's missing `id != nuid` test (XDS is checksum protected and not among the four "
               "carriers the statement quantifies over; recorded as a note).")

SEND = ("vbi_send_event", "caption_send_event")
EV = {"NETWORK": 0x0008, "ASPECT": 0x0040, "PROG_INFO": 0x0080, "NETWORK_ID": 0x0100,
      "LOCAL_TIME": 0x0400, "PROG_ID": 0x0800}

F_CYCLE = "vbi_network.cycle"
F_NUID = "vbi_network.nuid"
CARRIER_FIELDS = ("vbi_network.cni_vps", "vbi_network.cni_8301", "vbi_network.cni_8302")


def event_type(f, call):
    """Constant most recently stored to <event>.type before the send (walking
    back through the block and its unique predecessors)."""
    e = f.exprs[call]
    if len(e.get("c", [])) < 2:
        return None
    a = ex.skip(f, e["c"][1])
    ae = f.exprs[a]
    if ae["k"] == "un" and ae["op"] == "&":
        base = ex.path(f, ae["c"][0])
    else:
        base = ex.path(f, a)
        base = ("*" + base) if base else None
    if base is None:
        return None
    want = (base + ".type") if not base.startswith("*") else (base[1:] + "->type")
    pos = flow.elem_pos(f)[call]
    bid, n = pos
    seen = set()
    while bid is not None and bid not in seen:
        seen.add(bid)
        elems = f.blocks[bid].elems
        rng = elems[:n] if n is not None else elems
        for i in reversed(rng):
            x = f.exprs[i]
            if x["k"] == "asg" and x["op"] == "=" and ex.path(f, x["c"][0]) == want:
                return ex.const(f, x["c"][1])
            if x["k"] == "call" and x.get("callee") in SEND and i != call:
                # an earlier send does not change the type; keep looking
                continue
        preds = f.blocks[bid].preds
        bid = preds[0] if len(preds) == 1 else None
        n = None
    return None


def need(run, f, call, rule, key, what, preds):
    """All predicates must be satisfied by some dominating atom."""
    ats = atoms.atoms_at(f, call)
    missing = [name for name, p in preds if not any(p(a) for a in ats)]
    loc = ex.loc(f, call)
    run.touch(f)
    if missing:
        run.violation(rule, key, "%s `%s` is not dominated by: %s (dominating conditions: %s)"
                      % (what, ex.pretty(f, call)[:60], "; ".join(missing),
                         ", ".join(repr(a)[:50] for a in ats[:8]) or "none"), loc,
                      witness={"function": f.name, "site": ex.pretty(f, call), "missing": missing,
                               "dominating": [repr(a) for a in ats]})
        return False
    run.holds(rule, key, "%s dominated by %s" % (what, "; ".join(n for n, _ in preds)), loc)
    return True


def _carrier_of(ats):
    for a in ats:
        for fld in CARRIER_FIELDS:
            if a.eq_field(fld):
                return fld
    return None


def run(ctx, run):
    P = ctx.prog
    n_sites = {"NETWORK_ID": 0, "NETWORK": 0, "chsw": 0, "PROG_ID": 0, "ASPECT": 0, "LOCAL_TIME": 0}

    # ---- VPS and 8/30 carriers ----------------------------------------------
    for fname in ("vbi_decode_vps", "parse_bsd"):
        f = P.need(fname, "src/packet.c")
        for bid, i in flow.all_events(f):
            e = f.exprs[i]
            if e["k"] != "call":
                continue
            ats = atoms.atoms_at(f, i)
            carrier = _carrier_of(ats)
            ctag = (carrier or "?").split(".")[-1]
            same_value = ("received id equals the stored one", lambda a: any(a.eq_field(c) for c in CARRIER_FIELDS))
            cycle1 = ("cycle == 1", lambda a: a.cmp_const("==", F_CYCLE, 1))
            changed = ("station id differs from the current one (id != nuid)", lambda a: a.eq_field(F_NUID, "!="))
            if e.get("callee") == "vbi_chsw_reset":
                n_sites["chsw"] += 1
                need(run, f, i, "RF-DOM", "RF-DOM:%s:%s:chsw_reset" % (fname, ctag), "cache-dropping channel reset",
                     [same_value, cycle1, changed, ("old id non-zero", lambda a: a.cmp_const("!=", F_NUID, 0))])
            elif e.get("callee") in SEND:
                t = event_type(f, i)
                if t == EV["NETWORK_ID"]:
                    n_sites["NETWORK_ID"] += 1
                    need(run, f, i, "RF-DOM", "RF-DOM:%s:%s:NETWORK_ID" % (fname, ctag), "NETWORK_ID announcement", [same_value, cycle1])
                    ok, _ = atoms.must_pass(f, i, lambda ff, ii: _stores_cycle_not_1(ff, ii))
                    key = "RF-CORR:%s:%s:cycle-leaves-1" % (fname, ctag)
                    if ok:
                        run.holds("RF-CORR", key, "after the NETWORK_ID announcement every path stores cycle := a value != 1 "
                                  "(the same id is not announced again)", ex.loc(f, i))
                    else:
                        run.violation("RF-CORR", key, "a path from the NETWORK_ID announcement reaches the function exit without "
                                      "moving `cycle` away from 1: the same id would be announced on every reception", ex.loc(f, i))
                elif t == EV["NETWORK"]:
                    n_sites["NETWORK"] += 1
                    okk = need(run, f, i, "RF-DOM", "RF-DOM:%s:%s:NETWORK" % (fname, ctag), "NETWORK (station change) announcement",
                               [same_value, cycle1, changed])
                    # the announced id is the one just looked up
                    st = [j for j in f.blocks[bid].elems if atoms.store_to_field(F_NUID)(f, j)
                          and flow.elem_pos(f)[j][1] < flow.elem_pos(f)[i][1]]
                    key = "RF-DEP:%s:%s:nuid-before-NETWORK" % (fname, ctag)
                    if st:
                        run.holds("RF-DEP", key, "n->nuid is updated before the NETWORK event is sent", ex.loc(f, i))
                    else:
                        run.violation("RF-DEP", key, "the NETWORK event is sent before/without storing the new nuid", ex.loc(f, i))
                elif t == EV["PROG_ID"]:
                    n_sites["PROG_ID"] += 1
                    need(run, f, i, "RF-DOM", "RF-DOM:%s:PROG_ID" % fname, "VPS PROG_ID announcement",
                         [("PID received twice (memcmp with the stored PID == 0)",
                           lambda a: a.call_cmp("memcmp", "==", 0) and (a.L.has("vbi_decoder.vps_pid") or a.R.has("vbi_decoder.vps_pid"))),
                          ("successful vbi_decode_vps_pdc", lambda a: a.call_cmp("vbi_decode_vps_pdc", "!=", 0))])
                elif t is None:
                    raise AnalysisBroken("%s: event type of `%s` not found" % (fname, ex.pretty(f, i)))
        # changed-value edges: re-arm and announce nothing
        for fld in CARRIER_FIELDS:
            sts = [(bid, i) for bid, i in flow.all_events(f) if atoms.store_to_field(fld)(f, i)]
            for bid, i in sts:
                run.touch(f)
                key = "RF-CORR:%s:%s:rearm" % (fname, fld.split(".")[-1])
                ok1, _ = atoms.must_pass(f, i, atoms.store_to_field(F_CYCLE, 1))
                before = any(atoms.store_to_field(F_CYCLE, 1)(f, j) for j in f.blocks[bid].elems[:flow.elem_pos(f)[i][1]])
                snd = atoms.reaches(f, bid, atoms.call_to(*(SEND + ("vbi_chsw_reset",))))
                if (ok1 or before) and snd is None:
                    run.holds("RF-CORR", key, "where the stored %s is replaced, cycle := 1 on every path and no announcement/"
                              "reset is reachable" % fld, ex.loc(f, i))
                elif snd is not None:
                    run.violation("RF-CORR", key, "an announcement `%s` is reachable from the branch that has just replaced the "
                                  "stored %s (a first, unconfirmed reception would be announced)" % (ex.pretty(f, snd)[:50], fld),
                                  ex.loc(f, i))
                else:
                    run.violation("RF-CORR", key, "the stored %s is replaced without re-arming cycle := 1 on every path: a later "
                                  "repeat of the new value is never (or wrongly) announced" % fld, ex.loc(f, i))
    # parse_8_30: LOCAL_TIME / PROG_ID only after a successful decode
    f = P.need("parse_8_30", "src/packet.c")
    for bid, i in flow.all_events(f):
        e = f.exprs[i]
        if e["k"] == "call" and e.get("callee") in SEND:
            t = event_type(f, i)
            if t == EV["LOCAL_TIME"]:
                n_sites["LOCAL_TIME"] += 1
                need(run, f, i, "RF-DOM", "RF-DOM:parse_8_30:LOCAL_TIME", "LOCAL_TIME announcement",
                     [("successful vbi_decode_teletext_8301_local_time", lambda a: a.call_cmp("vbi_decode_teletext_8301_local_time", "!=", 0))])
            elif t == EV["PROG_ID"]:
                n_sites["PROG_ID"] += 1
                need(run, f, i, "RF-DOM", "RF-DOM:parse_8_30:PROG_ID", "8/30-2 PROG_ID announcement",
                     [("successful vbi_decode_teletext_8302_pdc", lambda a: a.call_cmp("vbi_decode_teletext_8302_pdc", "!=", 0))])
            else:
                raise AnalysisBroken("parse_8_30: unexpected event type %r" % t)

    # ---- XDS carrier -----------------------------------------------------------
    f = P.need("xds_decoder", "src/caption.c")
    for bid, i in flow.all_events(f):
        e = f.exprs[i]
        if e["k"] != "call":
            continue
        unchanged = ("network name received again unchanged (xds_strfu (n->name ...) == 0)",
                     lambda a: a.call_cmp("xds_strfu", "==", 0) and a.L.has("vbi_network.name"))
        cycle1 = ("cycle == 1", lambda a: a.cmp_const("==", F_CYCLE, 1))
        if e.get("callee") == "vbi_chsw_reset":
            n_sites["chsw"] += 1
            need(run, f, i, "RF-DOM", "RF-DOM:xds_decoder:chsw_reset", "cache-dropping channel reset",
                 [unchanged, cycle1, ("old id non-zero", lambda a: a.cmp_const("!=", F_NUID, 0))])
        elif e.get("callee") in SEND:
            t = event_type(f, i)
            if t == EV["NETWORK_ID"]:
                n_sites["NETWORK_ID"] += 1
                need(run, f, i, "RF-DOM", "RF-DOM:xds_decoder:NETWORK_ID", "NETWORK_ID announcement", [unchanged, cycle1])
                ok, _ = atoms.must_pass(f, i, lambda ff, ii: _stores_cycle_not_1(ff, ii))
                if ok:
                    run.holds("RF-CORR", "RF-CORR:xds_decoder:cycle-leaves-1", "cycle leaves 1 after the announcement", ex.loc(f, i))
                else:
                    run.violation("RF-CORR", "RF-CORR:xds_decoder:cycle-leaves-1", "a path from the XDS NETWORK_ID announcement "
                                  "exits with cycle still 1", ex.loc(f, i))
            elif t == EV["NETWORK"]:
                n_sites["NETWORK"] += 1
                need(run, f, i, "RF-DOM", "RF-DOM:xds_decoder:NETWORK", "NETWORK announcement", [unchanged, cycle1])
    run.note("xds_decoder announces NETWORK without an `id != nuid` test (every confirmed name re-announces); XDS is not one of "
             "the four carriers of the statement: recorded, not required")

    # ---- WSS ---------------------------------------------------------------------
    f = P.need("vbi_decode_wss_625", "src/wss.c")
    F_LAST, F_REP = "vbi_decoder.wss_last", "vbi_decoder.wss_rep_ct"
    for bid, i in flow.all_events(f):
        e = f.exprs[i]
        if e["k"] == "call" and e.get("callee") in SEND:
            t = event_type(f, i)
            if t not in (EV["ASPECT"], EV["PROG_INFO"]):
                raise AnalysisBroken("vbi_decode_wss_625: unexpected event type %r" % t)
            n_sites["ASPECT"] += 1
            nm = "ASPECT" if t == EV["ASPECT"] else "PROG_INFO"
            rep3 = lambda a: (a.L.has(F_REP) and a.R is not None and a.R.const is not None and
                              ((a.rel == ">=" and a.R.const >= 3) or (a.rel == ">" and a.R.const >= 2)))
            same_word = [("byte 0 equals the last received byte 0", lambda a: a.eq_field(F_LAST) and _idx(f, a) == {0}),
                         ("byte 1 equals the last received byte 1", lambda a: a.eq_field(F_LAST) and _idx(f, a) == {1}),
                         ("repeat counter incremented and >= 3", lambda a: rep3(a) and (a.L.incr == "++" or _stepped_before(f, a, F_REP, "+")))]
            if not all(any(p_(a) for a in atoms.atoms_at(f, i)) for _, p_ in same_word) and _counter_discipline(f, i, F_REP, F_LAST, rep3):
                # the same clause in its decomposed form: the counter reaches 3 only by increments made under "same word"
                same_word = [("repeat counter >= 3, every path to the test steps the counter under 'same word as last time' or "
                              "clears it", rep3)]
            need(run, f, i, "RF-DOM", "RF-DOM:vbi_decode_wss_625:%s" % nm, "%s announcement" % nm,
                 same_word + [
                  ("odd parity of the aspect bits (a value derived from buf, & 1, != 0)",
                   lambda a: a.rel == "!=" and a.R is not None and a.R.const == 0 and not a.L.fields and not a.L.calls
                   and _derives_from_param(f, a.L, 1) and _masks_bit0(f, a.L)),
                  ("aspect differs from the current one (memcmp != 0)",
                   lambda a: a.call_cmp("memcmp", "!=", 0) and (a.L.has("vbi_program_info.aspect") or a.R.has("vbi_program_info.aspect")))])
    sts = [(bid, i) for bid, i in flow.all_events(f) if atoms.store_to_field(F_LAST)(f, i)]
    run.floor("WSS last-word stores", len(sts), 2)
    for bid, i in sts:
        key = "RF-CORR:vbi_decode_wss_625:rearm:%s" % ex.path(f, flow.stores(f, i)[0][0]).split("->")[-1]
        ok1, _ = atoms.must_pass(f, i, atoms.store_to_field(F_REP, 0))
        before = any(atoms.store_to_field(F_REP, 0)(f, j) for j in f.blocks[bid].elems[:flow.elem_pos(f)[i][1]])
        snd = atoms.reaches(f, bid, atoms.call_to(*SEND))
        if snd is not None and (ok1 or before):
            # reachable in the flow graph - also with the counter at 0?  (the word was replaced in a branch that joins the
            # common `rep_ct < 3` exit)
            snd = _reaches_with_fact(f, bid, i, F_REP, 0, atoms.call_to(*SEND), known=before)
        if (ok1 or before) and snd is None:
            run.holds("RF-CORR", key, "where the last received WSS word is replaced the repeat counter is reset to 0 on every "
                      "path and no announcement is reachable", ex.loc(f, i))
        elif snd is not None:
            run.violation("RF-CORR", key, "an announcement is reachable from the branch that replaced the last WSS word", ex.loc(f, i))
        else:
            run.violation("RF-CORR", key, "the last received WSS word is replaced without resetting wss_rep_ct to 0: a new word "
                          "is announced before it has been repeated three times", ex.loc(f, i),
                          witness={"function": f.name, "store": ex.pretty(f, i)})

    _wipe_whenever_unidentified(ctx, run)
    # ---- countdown-driven reset ------------------------------------------------------
    f = P.need("vbi_decode", "src/vbi.c")
    F_CD = "vbi_decoder.chswcd"
    for bid, i in flow.all_events(f):
        e = f.exprs[i]
        if e["k"] == "call" and e.get("callee") == "vbi_chsw_reset":
            n_sites["chsw"] += 1
            need(run, f, i, "RF-DOM", "RF-DOM:vbi_decode:chsw_reset", "countdown-driven channel reset",
                 [("countdown pending (chswcd > 0)", lambda a: a.cmp_const(">", F_CD, 0)),
                  ("countdown decremented to zero (--chswcd == 0)",
                   lambda a, f=f: a.cmp_const("==", F_CD, 0) and (a.L.incr == "--" or _decremented_before(f, a, F_CD)))])
    # the countdown is armed by a frame that came too early or too late - measured against the previous frame, so
    # only when there was one (vbi->time > 0): the first frame of a decoder is not a dropped frame
    n_arm = 0
    for bid, i in flow.all_events(f):
        for lhs, var, op, rhs in flow.stores(f, i):
            if lhs is None or rhs is None or op != "=":
                continue
            le = f.exprs[ex.skip(f, lhs)]
            if le["k"] == "mem" and "%s.%s" % (le.get("in"), le["member"]) == F_CD and (ex.const(f, rhs) or 0) > 1:
                n_arm += 1
                need(run, f, i, "RF-DOM", "RF-DOM:vbi_decode:countdown-armed", "arming of the channel switch countdown",
                     [("a previous frame exists (vbi->time > 0)", lambda a: a.cmp_const(">", "vbi_decoder.time", 0))])
    run.floor("stores arming the channel switch countdown in vbi_decode", n_arm, 1)
    f = P.need("store_lop", "src/packet.c")
    for bid, i in flow.all_events(f):
        e = f.exprs[i]
        if e["k"] == "call" and e.get("callee") == "vbi_chsw_reset":
            n_sites["chsw"] += 1
            need(run, f, i, "RF-DOM", "RF-DOM:store_lop:chsw_reset", "header-mismatch channel reset",
                 [("same_header() said the header differs (r == 0)", lambda a: a.rel == "==" and a.R is not None and a.R.const == 0
                   and _is_result_of(f, a.L, "same_header")),
                  ("page of the magazine the stored header came from", lambda a: a.rel == "==" and a.R is not None and a.R.const == 0
                   and a.L.has("teletext.header_page"))])
    f = P.need("vbi_chsw_reset", "src/vbi.c")
    run.touch(f)
    first = None
    for bid, i in flow.all_events(f):
        first = i
        break
    ok = _must_pass_from_entry(f, atoms.store_to_field(F_CD, 0))
    if ok:
        run.holds("RF-CORR", "RF-CORR:vbi_chsw_reset:countdown-cleared", "every path through vbi_chsw_reset stores chswcd := 0 "
                  "(a reset consumes the pending countdown)", "%s:%d" % (f.file, f.line))
    else:
        run.violation("RF-CORR", "RF-CORR:vbi_chsw_reset:countdown-cleared", "a path through vbi_chsw_reset leaves the pending "
                      "channel-switch countdown running: ~40 frames after a station change was recognised the new station's "
                      "network id and cache are dropped again (a second NETWORK event)", "%s:%d" % (f.file, f.line),
                      witness={"function": "vbi_chsw_reset"})

    _decode_discipline(ctx, run)
    _activation_only(ctx, run)
    _call_letters_rearm(ctx, run)
    _exact_lookup(ctx, run)
    _designation_ranges(ctx, run)
    _bsd_dispatch(ctx, run)
    # the event mask that gates the announcing decoders is the union over *all* records (rule shared with C11)
    from . import C11
    for nm in ("vbi_event_handler_add", "vbi_event_handler_register"):
        C11._walk_goes_on(ctx, run, P.need(nm, "src/vbi.c"))
    run.floor("NETWORK_ID announcement sites", n_sites["NETWORK_ID"], 4)
    run.floor("NETWORK announcement sites", n_sites["NETWORK"], 4)
    run.floor("vbi_chsw_reset call sites", n_sites["chsw"], 6)
    run.floor("PROG_ID announcement sites", n_sites["PROG_ID"], 2)
    run.floor("WSS aspect/prog-info announcement sites", n_sites["ASPECT"], 2)
    run.floor("LOCAL_TIME announcement sites", n_sites["LOCAL_TIME"], 1)


def _stores_cycle_not_1(f, i):
    for lhs, var, op, rhs in flow.stores(f, i):
        if lhs is None:
            continue
        l = ex.skip(f, lhs)
        e = f.exprs[l]
        if e["k"] == "mem" and "%s.%s" % (e.get("in"), e["member"]) == F_CYCLE and op == "=":
            v = ex.const(f, rhs)
            if v is not None and v != 1:
                return True
    return False


def _idx(f, a):
    """Constant subscripts used on both sides of an atom."""
    res = set()
    for op in (a.L, a.R):
        if op is None or op.node is None:
            continue
        for n in ex.walk(f, op.node):
            e = f.exprs[n]
            if e["k"] == "idx":
                v = ex.const(f, e["c"][1])
                res.add(v)
    return res


def _derives_from_param(f, operand, pidx, depth=0):
    """Some local in the operand is (transitively) computed from parameter pidx."""
    pname = f.params[pidx]["name"]
    deps = {}
    for bid, i in flow.all_events(f):
        for lhs, var, op, rhs in flow.stores(f, i):
            name = None
            if var is not None:
                name = var["name"]
            elif lhs is not None:
                l = ex.skip(f, lhs)
                if f.exprs[l]["k"] == "ref" and f.exprs[l].get("dk") == "local":
                    name = f.exprs[l]["name"]
            if name is None or rhs is None:
                continue
            o = atoms.Operand(f, rhs)
            deps.setdefault(name, set()).update(o.locals)
            if op != "=":
                deps[name].add(name)
    seen = set()
    st = list(operand.locals)
    while st:
        n = st.pop()
        if n in seen:
            continue
        seen.add(n)
        if n == pname:
            return True
        st.extend(deps.get(n, ()))
    return False


def _masks_bit0(f, operand):
    """The tested value is `x & 1` - written at the test or where the tested local was last given its value."""
    e = f.exprs[operand.node]
    if e["k"] == "bin" and e["op"] == "&" and 1 in (ex.const(f, e["c"][0]), ex.const(f, e["c"][1])):
        return True
    if e["k"] == "ref" and e.get("dk") == "local":
        from .. import linear
        rd = linear.reaching_def(f, e["name"], operand.node) if operand.node in flow.elem_pos(f) else None
        if rd is None:
            # the operand is a sub-expression of the branch condition: take the condition's block
            for bid, b in f.blocks.items():
                t = b.term
                if t and "cond" in t and operand.node in set(ex.walk(f, t["cond"])) and b.elems:
                    rd = linear.reaching_def(f, e["name"], b.elems[-1])
                    if rd is None and _stores_name(f, b.elems[-1], e["name"]):
                        rd = (b.elems[-1],) + tuple(_stores_name(f, b.elems[-1], e["name"]))
                    break
        if rd is not None and rd[1] in ("=", "&=") and rd[2] is not None:
            r = f.exprs[ex.skip(f, rd[2])]
            while r["k"] == "cast":
                r = f.exprs[ex.skip(f, r["c"][0])]
            if rd[1] == "&=" and ex.const(f, rd[2]) == 1:
                return True
            if r["k"] == "bin" and r["op"] == "&" and 1 in (ex.const(f, r["c"][0]), ex.const(f, r["c"][1])):
                return True
    return False


def _stores_name(f, i, name):
    for lhs, var, op, rhs in flow.stores(f, i) if flow.is_event(f, i) else []:
        if var is not None and var["name"] == name:
            return (op, rhs)
        if lhs is not None and f.exprs[ex.skip(f, lhs)]["k"] == "ref" and f.exprs[ex.skip(f, lhs)].get("name") == name:
            return (op, rhs)
    return None


def _is_result_of(f, operand, callee):
    """The operand is a local whose every assignment is the result of `callee`."""
    if not operand.locals or operand.fields:
        return False
    names = set(operand.locals)
    ok = False
    for bid, i in flow.all_events(f):
        for lhs, var, op, rhs in flow.stores(f, i):
            name = None
            if var is not None:
                name = var["name"]
            elif lhs is not None:
                l = ex.skip(f, lhs)
                if f.exprs[l]["k"] == "ref":
                    name = f.exprs[l]["name"]
            if name in names and rhs is not None:
                r = ex.skip(f, rhs)
                if f.exprs[r]["k"] == "call" and f.exprs[r].get("callee") == callee:
                    ok = True
                else:
                    return False
    return ok


def _must_pass_from_entry(f, pred):
    hit = set()
    for bid in f.blocks:
        for i in flow.events(f, bid):
            if pred(f, i):
                hit.add(bid)
                break
    seen = set()
    st = [f.entry]
    while st:
        n = st.pop()
        if n in seen or n in hit:
            continue
        seen.add(n)
        if n == f.exit:
            return False
        for s, _ in f.edges(n):
            st.append(s)
    return True


def _decode_discipline(ctx, run):
    """Uncorrectable bytes must not become (part of) a compared / announced id: two damaged
    receptions would otherwise collapse to the same bogus id and pass the debounce."""
    from .. import neg
    P = ctx.prog
    n = 0
    for name, unit in (("parse_bsd", "src/packet.c"), ("parse_8_30", "src/packet.c"), ("vbi_decode_vps", "src/packet.c"),
                       ("vbi_decode_wss_625", "src/wss.c")):
        f = P.need(name, unit)
        a = neg.Neg(ctx, f).run()
        run.touch(f)
        n += a.n_sources
        bad = False
        for eid, lhs, t in a.persistent_stores():
            if not t:
                continue
            bad = True
            run.violation("RF-NEG", "RF-NEG:%s:store" % name, "`%s` stores a value built from a decode result that was not tested "
                          "for failure (%s): an uncorrectable byte becomes part of the id the debounce compares and announces"
                          % (ex.pretty(f, eid)[:80], a.describe(t)[:200]), ex.loc(f, eid), witness={"function": name})
        for eid, vname in neg.unexamined(a):
            bad = True
            run.violation("RF-NEG", "RF-NEG:%s:unexamined:%s" % (name, vname), "the value decoded by `%s` is used without being "
                          "examined for a decoding error" % ex.pretty(f, eid)[:70], ex.loc(f, eid))
        if not bad and a.n_sources:
            run.holds("RF-NEG", "RF-NEG:%s" % name, "%d decode call site(s): every stored id is behind the `< 0` test of its bytes"
                      % a.n_sources, "%s:%d" % (f.file, f.line))
    run.floor("decode call sites in the announcing decoders", n, 2)


def _single_local_def(f, name):
    c = f._cache.setdefault("c13_single_def", {})
    if name not in c:
        defs = []
        for bid, i in flow.all_events(f):
            for lhs, var, op, rhs in flow.stores(f, i):
                who = var["name"] if var is not None else None
                if who is None and lhs is not None:
                    le = f.exprs[ex.skip(f, lhs)]
                    who = le.get("name") if le["k"] == "ref" and le.get("dk") == "local" else None
                if who == name and (rhs is not None or var is None):
                    defs.append((op, rhs))
        c[name] = defs[0][1] if len(defs) == 1 and defs[0][0] == "=" and defs[0][1] is not None else None
    return c[name]


def _newly_activated(f, node, depth=0):
    """Does the expression contain `mask & ~old` - the requested event bits that were not enabled before - where `mask` is
    the function's parameter and `old` is vbi->event_mask or a local holding it?  Locals with a single definition are
    looked through (`activate = mask & ~vbi->event_mask; if (activate & X)`)."""
    if depth > 6:
        return False
    maskp = f.params[1]["name"]

    def is_old(n, d=0):
        e = f.exprs[ex.skip(f, n)]
        while e["k"] == "cast" and e.get("c"):
            e = f.exprs[ex.skip(f, e["c"][0])]
        if e["k"] == "mem" and e["member"] == "event_mask":
            return True
        if e["k"] == "ref" and e.get("dk") == "local" and d < 3:
            r = _single_local_def(f, e["name"])
            return r is not None and is_old(r, d + 1)
        return False
    for n in ex.walk(f, node):
        e = f.exprs[n]
        if e["k"] == "bin" and e["op"] == "&":
            kids = [f.exprs[ex.skip(f, c)] for c in e["c"]]
            for x, y in ((0, 1), (1, 0)):
                kx = kids[x]
                while kx["k"] == "cast" and kx.get("c"):
                    kx = f.exprs[ex.skip(f, kx["c"][0])]
                if kx["k"] == "un" and kx["op"] == "~" and is_old(kx["c"][0]):
                    ky = kids[y]
                    while ky["k"] == "cast" and ky.get("c"):
                        ky = f.exprs[ex.skip(f, ky["c"][0])]
                    if ky["k"] == "ref" and ky.get("name") == maskp:
                        return True
        if e["k"] == "ref" and e.get("dk") == "local":
            r = _single_local_def(f, e["name"])
            if r is not None and _newly_activated(f, r, depth + 1):
                return True
    return False


def _activation_only(ctx, run):
    f = ctx.prog.need("vbi_event_enable", "src/vbi.c")
    run.touch(f)
    n = 0
    for bid, i in flow.all_events(f):
        e = f.exprs[i]
        if e["k"] != "call" or e.get("callee") not in ("memset", "vbi_teletext_channel_switched", "vbi_caption_channel_switched",
                                                        "vbi_trigger_flush", "vbi_reset_prog_info"):
            continue
        n += 1
        ats = atoms.atoms_at(f, i)
        ok = any(a.L.node is not None and _newly_activated(f, a.L.node) for a in ats)
        key = "RF-DOM:vbi_event_enable:%s:on-activation-only" % e["callee"]
        if ok:
            run.holds("RF-DOM", key, "`%s` runs only for newly activated event bits" % ex.pretty(f, i)[:50], ex.loc(f, i))
        else:
            run.violation("RF-DOM", key, "`%s` is not conditional on the newly activated bits (`mask & ~vbi->event_mask`): every later handler "
                          "registration or removal, for any event, repeats the reset - the identified station is forgotten, "
                          "announced again, and the next station change no longer drops the cache" % ex.pretty(f, i)[:60],
                          ex.loc(f, i), witness={"dominating": [repr(a) for a in ats]})
    run.floor("reset actions in vbi_event_enable", n, 5)


def _wipe_whenever_unidentified(ctx, run):
    """vbi_chsw_reset (vbi, 0) - a channel switch nobody identified - forgets everything received from the old
    station: the network record with the last received CNIs and the repeat-cycle counter.  If the wipe is skipped on some
    path with identified == 0 (say, because no station had been announced yet), one reception before the switch and one
    after it count as 'received again unchanged' and a station is announced on a single reception.  Rule (edge cut):
    every path through the function avoids the wipe only over an edge that says identified != 0."""
    P = ctx.prog
    f = P.need("vbi_chsw_reset", "src/vbi.c")
    run.touch(f)
    pn = f.params[1]["name"]
    wipes = set()
    for bid, i in flow.all_events(f):
        e = f.exprs[i]
        if e["k"] == "call" and e.get("callee") in ("memset", "__builtin_memset") and e.get("c") and \
                ex.pretty(f, e["c"][0]).replace(" ", "").endswith("->network"):
            wipes.add(bid)
    run.floor("wipes of the network record in vbi_chsw_reset", len(wipes), 1)
    seen, stack, leak = set(), [f.entry], None
    while stack:
        b = stack.pop()
        if b in seen or b in wipes:
            continue
        seen.add(b)
        if b == f.exit:
            leak = b
            break
        for s2, lab in f.edges(b):
            if lab in ("T", "F") and any(a.rel == "!=" and a.R is not None and a.R.const == 0 and a.L.locals == {pn} and not a.L.fields
                                         for a in atoms.edge_atoms(f, b, lab)):
                continue
            stack.append(s2)
    key = "RF-CORR:vbi_chsw_reset:wipe-whenever-unidentified"
    loc = "%s:%d" % (f.file, f.line)
    if leak is None:
        run.holds("RF-CORR", key, "every path with %s == 0 wipes the network record (last received CNIs, repeat cycle)" % pn, loc)
    else:
        run.violation("RF-CORR", key, "a path through vbi_chsw_reset() with %s == 0 does not wipe the network record: the CNIs received "
                      "before the channel switch and the repeat-cycle counter survive it, so a single reception after the switch is "
                      "taken for the confirming repeat and the station is announced at once" % pn, loc, witness={"function": f.name})


def _field_store(f, i, field):
    """[(op, rhs)] of the stores event i makes to record.member `field`."""
    out = []
    for lhs, var, op, rhs in flow.stores(f, i):
        if lhs is None:
            continue
        le = f.exprs[ex.skip(f, lhs)]
        if le["k"] == "mem" and "%s.%s" % (le.get("in"), le["member"]) == field:
            out.append((op, rhs))
    return out


def _counter_discipline(f, site, f_rep, f_last, rep3):
    """Decomposed debounce clause: the announcement is dominated by a test `counter >= 3`; every store to the counter is
    either `:= 0` or a step by one that is dominated by 'byte 0 and byte 1 equal the last received word'; and every path
    from the function entry to that test passes one of these stores (the value tested is the one this call left)."""
    tests = [a for a in atoms.atoms_at(f, site) if rep3(a) and a.src is not None]
    if not tests:
        return False
    store_blocks = set()
    for bid, i in flow.all_events(f):
        for op, rhs in _field_store(f, i, f_rep):
            if op == "=" and rhs is not None and ex.const(f, rhs) == 0:
                store_blocks.add(bid)
                continue
            if op == "++" or (op == "+=" and ex.const(f, rhs) == 1):
                ats = atoms.atoms_at(f, i)
                b0 = any(a.eq_field(f_last) and _idx(f, a) == {0} for a in ats)
                b1 = any(a.eq_field(f_last) and _idx(f, a) == {1} for a in ats)
                if b0 and b1:
                    store_blocks.add(bid)
                    continue
            return False
    for a in tests:
        if a.src in store_blocks or a.src not in flow.reach_from(f, f.entry, avoid=store_blocks):
            return True
    return False


def _reaches_with_fact(f, bid0, eid0, field, value, pred, known=False):
    """Is an event satisfying pred reachable from just after event eid0 (in block bid0) while `field == value` is known
    (until the field is stored to again)?  Branch edges whose atoms contradict the fact are not followed."""
    import operator
    OPS = {"<": operator.lt, "<=": operator.le, ">": operator.gt, ">=": operator.ge, "==": operator.eq, "!=": operator.ne}
    pos = flow.elem_pos(f)[eid0][1]
    work = [(bid0, pos + 1, known)]
    seen = set()
    while work:
        b, k, fact = work.pop()
        for i in f.blocks[b].elems[k:]:
            if not flow.is_event(f, i):
                continue
            if pred(f, i):
                return i
            for op, rhs in _field_store(f, i, field):
                fact = op == "=" and rhs is not None and ex.const(f, rhs) == value
        for s2, lab in f.edges(b):
            if fact and lab in ("T", "F"):
                dead = False
                for a in atoms.edge_atoms(f, b, lab):
                    if a.R is not None and a.R.const is not None and a.L.has(field) and not a.L.calls \
                            and a.L.incr is None and len(a.L.fields) == 1 and a.rel in OPS:
                        n = f.exprs[a.L.node]
                        if n["k"] == "mem" and not OPS[a.rel](value, a.R.const):
                            dead = True
                if dead:
                    continue
            if (s2, fact) not in seen:
                seen.add((s2, fact))
                work.append((s2, 0, fact))
    return None


def _stepped_before(f, a, field, sign):
    """The atom tests the value a dominating (or same-block, earlier) `field += 1` / `++field` (sign "+") left."""
    if a.src is None:
        return False
    for bid, i in flow.all_events(f):
        for lhs, var, op, rhs in flow.stores(f, i):
            if lhs is None:
                continue
            le = f.exprs[ex.skip(f, lhs)]
            if not (le["k"] == "mem" and "%s.%s" % (le.get("in"), le["member"]) == field):
                continue
            step = op == (sign + sign) or (op == sign + "=" and ex.const(f, rhs) == 1)
            if step and (bid == a.src or flow.dominates(f, bid, a.src)):
                return True
    return False


def _decremented_before(f, a, field):
    """The atom `field == 0` is tested on the value a dominating (or same-block, earlier) `field -= 1` / `--field` left."""
    if a.src is None:
        return False
    for bid, i in flow.all_events(f):
        for lhs, var, op, rhs in flow.stores(f, i):
            if lhs is None:
                continue
            le = f.exprs[ex.skip(f, lhs)]
            if not (le["k"] == "mem" and "%s.%s" % (le.get("in"), le["member"]) == field):
                continue
            dec = op == "--" or (op == "-=" and ex.const(f, rhs) == 1)
            if dec and (bid == a.src or flow.dominates(f, bid, a.src)):
                return True
    return False


def _call_letters_rearm(ctx, run):
    f = ctx.prog.need("xds_decoder", "src/caption.c")
    run.touch(f)
    n = 0
    for bid, i in flow.all_events(f):
        if not atoms.store_to_field(F_CYCLE, 0)(f, i):
            continue
        ats = atoms.atoms_at(f, i)
        # the call-letters case: dominated by a non-zero xds_strfu (n->call, ...) result
        if not any("xds_strfu" in a.L.calls and "call" in ex.pretty(f, a.L.node) for a in ats if a.L.node is not None):
            continue
        n += 1
        blk = flow.events(f, bid)
        ok = False
        for j in blk:
            for lhs, var, op, rhs in flow.stores(f, j):
                if lhs is not None and op == "=" and ex.const(f, rhs) == 0 and ".name[0]" in (ex.pretty(f, lhs) + "").replace("->", "."):
                    ok = True
        key = "RF-CORR:xds_decoder:call-letters-rearm-name"
        if ok:
            run.holds("RF-CORR", key, "a change of the call letters clears the stored network name together with the cycle", ex.loc(f, i))
        else:
            run.violation("RF-CORR", key, "when the call letters change the cycle is reset but the stored network name is kept: a station "
                          "with the same network name and other call letters is taken for the one already announced, no NETWORK "
                          "event is sent and the old station's cache survives", ex.loc(f, i))
    run.floor("call-letter change sites", n, 1)


def _exact_lookup(ctx, run):
    """RF-CORR: station_lookup() identifies the station by comparing the received CNI with one
    column of the CNI table.  The row is selected by `p-><column> == cni` on the *whole* column
    and, for the columns that hold complete codes (cni1, cni2, cni3), on the value as received:
    a mask on either side makes codes that differ in the masked bits (the country nibble of
    8/30 format 2) name the same station, so a station change between them raises no event and
    the wrong network is announced.  Only the VPS column cni4 is compared with the 12 bit code."""
    P = ctx.prog
    f = P.need("station_lookup", "src/packet.c")
    run.touch(f)
    pname = f.params[1]["name"]
    stores = [(b, i) for b, i in flow.all_events(f) if any(
        lhs is not None and f.exprs[ex.skip(f, lhs)]["k"] == "ref" and f.exprs[ex.skip(f, lhs)].get("name") == pname
        for lhs, var, op, rhs in flow.stores(f, i))]
    n = 0
    for bid, b in f.blocks.items():
        t = b.term
        if not t or "cond" not in t:
            continue
        c = f.exprs[ex.skip(f, t["cond"])]
        if not (c["k"] == "bin" and c["op"] in ("==", "!=")):
            continue
        sides = [ex.skip(f, x) for x in c["c"]]
        cols = [j for j in sides if any(f.exprs[k]["k"] == "mem" and f.exprs[k].get("in") == "vbi_cni_entry"
                                        and f.exprs[k]["member"].startswith("cni") for k in ex.walk(f, j))]
        if not cols:
            continue
        n += 1
        tj = cols[0]
        oj = [j for j in sides if j != tj][0]
        col = [f.exprs[k]["member"] for k in ex.walk(f, tj) if f.exprs[k]["k"] == "mem" and f.exprs[k].get("in") == "vbi_cni_entry"][0]
        key = "RF-CORR:station_lookup:exact:%s" % col
        te = f.exprs[tj]
        while te["k"] == "cast":
            te = f.exprs[ex.skip(f, te["c"][0])]
        oe = f.exprs[oj]
        while oe["k"] == "cast":
            oe = f.exprs[ex.skip(f, oe["c"][0])]
        problems = []
        if te["k"] != "mem":
            problems.append("the table side is `%s`, not the whole column" % ex.pretty(f, tj)[:40])
        if not (oe["k"] == "ref" and oe.get("name") == pname):
            problems.append("the received side is `%s`, not the CNI itself" % ex.pretty(f, oj)[:40])
        if col != "cni4":
            for sb, si in stores:
                if bid in flow.reach_from(f, sb):
                    problems.append("`%s` (line %d) reaches the comparison: the complete code in column %s is compared with a "
                                    "modified CNI" % (ex.pretty(f, si)[:30], f.exprs[si]["line"], col))
        if problems:
            run.violation("RF-CORR", key, "station_lookup: %s - codes differing only in the dropped bits select the same table row "
                          "(wrong network announced, no event on a change between them)" % "; ".join(problems), ex.loc(f, t["cond"]))
        else:
            run.holds("RF-CORR", key, "row selected by `%s` on the unmodified value" % ex.pretty(f, t["cond"])[:40], ex.loc(f, t["cond"]))
    run.floor("table column comparisons in station_lookup", n, 4)


def _designation_ranges(ctx, run):
    """RF-IVL: EN 300 706 defines packet 8/30 designation codes 0, 1 (format 1: local time) and
    2, 3 (format 2: programme identification); every other code is reserved and announces
    nothing.  At the call that decodes local time the designation is within [0, 1], at the call
    that decodes the programme id within [2, 3] (interval analysis of parse_8_30)."""
    P = ctx.prog
    f = P.need("parse_8_30", "src/packet.c")
    run.touch(f)
    an = ctx.analysis(f)
    n = 0
    for callee, lo, hi, what in (("vbi_decode_teletext_8301_local_time", 0, 1, "local time (format 1)"),
                                 ("vbi_decode_teletext_8302_pdc", 2, 3, "programme id (format 2)")):
        for bid, i in flow.all_events(f):
            e = f.exprs[i]
            if e["k"] != "call" or e.get("callee") != callee:
                continue
            n += 1
            st = an.state_before_expr(i)
            iv = st.get(("iv", "designation")) if st is not None else None
            if iv is None and st is not None:
                for k, v in st.items():
                    if isinstance(k, tuple) and len(k) == 2 and k[1] == "designation" and isinstance(v, tuple):
                        iv = v
            key = "RF-IVL:parse_8_30:%s" % callee
            if iv is not None and iv[0] is not None and iv[1] is not None and lo <= iv[0] and iv[1] <= hi:
                run.holds("RF-IVL", key, "%s is decoded under designation in %s" % (what, list(iv)), ex.loc(f, i))
            else:
                run.violation("RF-IVL", key, "parse_8_30() decodes %s from a packet whose designation code is in %s; only %d and %d "
                              "are defined for it: a packet with a reserved designation raises an event with values nobody "
                              "transmitted" % (what, list(iv) if iv else "(unbounded)", lo, hi), ex.loc(f, i),
                              witness={"designation": list(iv) if iv else None})
    run.floor("8/30 payload decoders called from parse_8_30", n, 2)


def _bsd_dispatch(ctx, run):
    """RF-BITS: packets 30 and 31 of any magazine are independent data lines; only channel 0 -
    magazine 8 *and* packet 30 - is the broadcast service data packet 8/30 that carries network
    id, local time and programme id.  The channel number is pmag & 15 (magazine bits plus the low
    bit of the packet number): the switch that leads to parse_8_30() must include that packet bit
    (0x8), or packet 8/31 - someone's data channel - is announced as local time and PIL."""
    P = ctx.prog
    f = P.need("vbi_decode_teletext", "src/packet.c")
    run.touch(f)
    calls = [(b, i) for b, i in flow.all_events(f) if f.exprs[i]["k"] == "call" and f.exprs[i].get("callee") == "parse_8_30"]
    if not calls:
        raise AnalysisBroken("vbi_decode_teletext no longer calls parse_8_30")
    for cb, ci in calls:
        # innermost switch whose case edge dominates the call
        best = None
        for src, lab, cond in flow.dominating_edges(f, cb):
            t = f.blocks[src].term
            if t and t["kind"] == "SwitchStmt" and isinstance(lab, tuple):
                best = (src, lab, cond)
        key = "RF-BITS:vbi_decode_teletext:8-30-dispatch"
        if best is None:
            run.violation("RF-BITS", key, "parse_8_30() is not called from a case of the channel switch", ex.loc(f, ci))
            continue
        src, lab, cond = best
        c = f.exprs[ex.skip(f, cond)]
        while c["k"] == "cast":
            c = f.exprs[ex.skip(f, c["c"][0])]
        mask = None
        var = None
        if c["k"] == "bin" and c["op"] == "&":
            for x in c["c"]:
                v = ex.const(f, x)
                if v is not None:
                    mask = v
                else:
                    xe = f.exprs[ex.skip(f, x)]
                    while xe["k"] == "cast":
                        xe = f.exprs[ex.skip(f, xe["c"][0])]
                    var = xe.get("name")
        ok = mask is not None and (mask & 0xF) == 0xF and lab[1] == 0 and lab[2] == 0
        if ok:
            run.holds("RF-BITS", key, "parse_8_30 is reached under (%s & %#x) == 0: magazine 8 and an even packet number" % (var, mask),
                      ex.loc(f, ci))
        else:
            run.violation("RF-BITS", key, "the switch that leads to parse_8_30() tests `%s` (case %s), not the full channel number "
                          "pmag & 15 == 0: the low bit of the packet number is not examined, so packet 8/31 (an independent data "
                          "line) is decoded as broadcast service data and its bytes are announced as local time / programme id"
                          % (ex.pretty(f, cond)[:30], lab[1]), ex.loc(f, ci))
