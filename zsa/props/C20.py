"""C20 — documented cross-thread use is race free (RF-LOCK)."""
from .. import ex, flow, locks
from ..prog import AnalysisBroken

CLAUSE = ("lockset analysis from the documented cross-thread entry points (thread A vbi_decode; B vbi_fetch_cc_page, "
          "vbi_channel_switched; C vbi_raw_decode; D vbi_raw_decoder_add/remove/check_services), interprocedural with the "
          "caller's lockset as context: every access to caption channel memory (anything reached through a cc_channel, also via "
          "local pointers derived from it) holds caption.mutex; every access to vbi_decoder.chswcd holds chswcd_mutex; every "
          "call from the decoder.c wrappers into raw_decoder.c/sampling_par.c holds vbi_raw_decoder.mutex; every lock is released "
          "on every path of every function reached (no exit with a lock held, no unlock of an unheld mutex, no relock); client "
          "callbacks are never invoked with caption.mutex, chswcd_mutex or the raw decoder mutex held; the lock-order graph is "
          "acyclic; the snapshot copy of vbi_fetch_cc_page and the whole decode of vbi_raw_decode sit inside one lock region.")
CLAUSE = CLAUSE + (" No update() of the displayed caption page is reachable after the call that announces the page (the announcement "
                   "drops the mutex around the callback); vbi_raw_decoder_resize/_reset release the mutex they take on every exit.")
NOT_DECIDED = ("that every fetched snapshot equals a state of the sequential execution beyond the atomicity of the lock region; "
               "operations the statement does not name (vbi_raw_decoder_resize/_reset, vbi_set_brightness, event (un)registration).")

CC_MUTEX = "caption.mutex"
CD_MUTEX = "vbi_decoder.chswcd_mutex"
RD_MUTEX = "vbi_raw_decoder.mutex"
RD_UNITS = ("src/raw_decoder.c", "src/sampling_par.c")
ENTRIES = [("vbi_decode", "src/vbi.c", "A"), ("vbi_fetch_cc_page", "src/caption.c", "B"),
           ("vbi_channel_switched", "src/vbi.c", "B"), ("vbi_raw_decode", "src/decoder.c", "C"),
           ("vbi_raw_decoder_add_services", "src/decoder.c", "D"), ("vbi_raw_decoder_remove_services", "src/decoder.c", "D"),
           ("vbi_raw_decoder_check_services", "src/decoder.c", "D")]
# analysed as notes only (not among the operations the statement names)
NOTE_ENTRIES = [("vbi_raw_decoder_resize", "src/decoder.c"), ("vbi_raw_decoder_reset", "src/decoder.c")]


# --------------------------------------------------------------------------
# protected accesses

def _chain_hits(f, n, rec, member=None):
    """The access chain of node n passes through a member of `rec`."""
    j = n
    while j is not None and j >= 0:
        e = f.exprs[j]
        k = e["k"]
        if k == "mem":
            if e.get("in") == rec and (member is None or e["member"] == member):
                return True
            j = ex.skip(f, e["c"][0])
        elif k in ("idx", "cast") or (k == "un" and e["op"] in ("*", "&")):
            j = ex.skip(f, e["c"][0])
        elif k == "bin" and e["op"] in ("+", "-"):
            j = ex.skip(f, e["c"][0])
        else:
            return False
    return False


def _cc_tainted_locals(f):
    c = f._cache.get("cc_tainted")
    if c is not None:
        return c
    t = set()
    changed = True
    while changed:
        changed = False
        for bid, i in flow.all_events(f):
            for lhs, var, op, rhs in flow.stores(f, i):
                if rhs is None:
                    continue
                if var is not None:
                    name, ty = var["name"], var.get("t", "")
                else:
                    le = f.exprs[ex.skip(f, lhs)]
                    if le["k"] != "ref" or le.get("dk") != "local":
                        continue
                    name, ty = le["name"], le.get("t", "")
                if not ty.endswith("*") or name in t:
                    continue
                if _ptr_into_cc(f, rhs, t):
                    t.add(name)
                    changed = True
    f._cache["cc_tainted"] = t
    return t


def _ptr_into_cc(f, node, tainted):
    j = ex.skip(f, node)
    e = f.exprs[j]
    k = e["k"]
    if k == "ref":
        return e.get("dk") == "local" and e["name"] in tainted
    if k == "cast":
        return _ptr_into_cc(f, e["c"][0], tainted)
    if k == "bin" and e["op"] in ("+", "-"):
        return _ptr_into_cc(f, e["c"][0], tainted) or _ptr_into_cc(f, e["c"][1], tainted)
    if k == "un" and e["op"] == "&":
        return _chain_hits(f, ex.skip(f, e["c"][0]), "cc_channel") or _rooted_tainted(f, e["c"][0], tainted)
    if k in ("mem", "idx") and "arr" in e:
        return _chain_hits(f, j, "cc_channel") or _rooted_tainted(f, j, tainted)
    if k == "cond":
        return _ptr_into_cc(f, e["c"][1], tainted) or _ptr_into_cc(f, e["c"][2], tainted)
    return False


def _rooted_tainted(f, node, tainted):
    r = ex.root(f, node)
    return r is not None and f.exprs[r].get("dk") == "local" and f.exprs[r]["name"] in tainted


def cc_accesses(f):
    """Element nodes of f that read or write caption channel memory."""
    c = f._cache.get("cc_acc")
    if c is not None:
        return c
    tainted = _cc_tainted_locals(f)
    res = []
    parents = set()
    for i, e in enumerate(f.exprs):
        if e["k"] in ("mem", "idx") or (e["k"] == "un" and e["op"] == "*"):
            for ch in e.get("c", [])[:1]:
                parents.add(ex.skip(f, ch))
    pos = flow.elem_pos(f)
    for i, e in enumerate(f.exprs):
        if i not in pos:
            continue
        k = e["k"]
        if k in ("mem", "idx") or (k == "un" and e["op"] == "*"):
            if i in parents and "arr" not in e:
                continue                      # an inner hop of a longer chain
            if _addr_only(f, i):
                continue
            if _chain_hits(f, i, "cc_channel") or (_rooted_tainted(f, i, tainted) and _derefs(f, i)):
                res.append(i)
        elif k == "call" and e.get("callee") in ("memcpy", "memset", "memmove", "__builtin___memcpy_chk",
                                                 "__builtin___memset_chk", "__builtin_memcpy", "__builtin_memset"):
            for a in e.get("c", [])[:2]:
                if _ptr_into_cc(f, a, tainted):
                    res.append(i)
                    break
    f._cache["cc_acc"] = res
    return res


def _derefs(f, i):
    e = f.exprs[i]
    if e["k"] == "un" and e["op"] == "*":
        return True
    if e["k"] == "idx":
        return True
    if e["k"] == "mem":
        return bool(e.get("arrow")) or _derefs(f, ex.skip(f, e["c"][0]))
    return False


def _addr_only(f, i):
    """Node i only has its address taken (&ch->pg[0]): no memory access."""
    c = f._cache.get("addr_of")
    if c is None:
        c = set()
        for j, e in enumerate(f.exprs):
            if e["k"] == "un" and e["op"] == "&":
                c.add(ex.skip(f, e["c"][0]))
            if e["k"] == "cast" and e["ck"] == "ArrayToPointerDecay":
                c.add(ex.skip(f, e["c"][0]))
        f._cache["addr_of"] = c
    return i in c


def chswcd_accesses(f):
    pos = flow.elem_pos(f)
    return [i for i, e in enumerate(f.exprs) if i in pos and e["k"] == "mem" and e.get("in") == "vbi_decoder" and e["member"] == "chswcd"]


def rd_calls(ctx, f):
    """Calls from a decoder.c function into raw_decoder.c / sampling_par.c."""
    if f.unit != "src/decoder.c":
        return []
    res = []
    for bid, i in flow.all_events(f):
        e = f.exprs[i]
        if e["k"] == "call" and e.get("callee"):
            t = ctx.prog.func_for(f, e["callee"])
            if t is not None and t.file in RD_UNITS:
                res.append(i)
    return res


def run(ctx, run):
    P = ctx.prog
    entries = [P.need(n, u) for n, u, th in ENTRIES]
    thread_of = {P.need(n, u).key: th for n, u, th in ENTRIES}

    def is_prot(f):
        return bool(cc_accesses(f)) or bool(chswcd_accesses(f)) or bool(rd_calls(ctx, f))

    res = locks.analyse(ctx, entries, is_prot)
    spec = res.spec
    n_ctx = sum(len(v) for v in res.contexts.values())
    run.extra["contexts"] = n_ctx

    groups = [("cc", CC_MUTEX, cc_accesses, "caption channel memory"),
              ("chswcd", CD_MUTEX, chswcd_accesses, "vbi_decoder.chswcd"),
              ("rd", RD_MUTEX, lambda f: rd_calls(ctx, f), "the raw decoder state (call into raw_decoder.c/sampling_par.c)")]
    counts = {g[0]: 0 for g in groups}
    n_cb = 0
    for fkey, ctxs in sorted(res.contexts.items(), key=lambda kv: str(kv[0])):
        f = locks._func_by_key(P, fkey)
        run.touch(f)
        for S, eng in ctxs.items():
            for gname, mutex, finder, what in groups:
                bad = []
                tot = 0
                for node in finder(f):
                    held = locks.held_before(eng, node)
                    if held is None:
                        continue
                    tot += 1
                    if mutex not in held:
                        bad.append(node)
                if not tot:
                    continue
                counts[gname] += tot
                sdesc = "{%s}" % ", ".join(sorted(S)) if S else "{}"
                cl = locks.callers_of(spec, fkey, S)
                key = "RF-LOCK:%s:%s%s" % (gname, f.name, ("<-" + "+".join(cl)) if cl else "")
                if bad:
                    node = bad[0]
                    origins = locks.unlocked_origins(spec, fkey, S, mutex) if mutex not in S else [f.name]
                    for o in origins or ["?"]:
                        run.violation("RF-LOCK", key + "@" + o, "%s accesses %s without %s (%d of %d access(es), first: `%s`; entered "
                                      "with lockset %s; the unlocked call chain starts in %s())"
                                      % (f.name, what, mutex, len(bad), tot, ex.pretty(f, node)[:60], sdesc, o), ex.loc(f, node),
                                      witness={"function": f.name, "entry_lockset": sorted(S), "unlocked_accesses": len(bad), "origin": o,
                                               "first": ex.pretty(f, node), "lines": sorted({f.exprs[b]["line"] for b in bad})[:12]})
                else:
                    run.holds("RF-LOCK", key + ":" + sdesc, "%d access(es) to %s in %s, all with %s held (entry lockset %s)"
                              % (tot, what, f.name, mutex, sdesc), "%s:%d" % (f.file, f.line))
            # client callbacks
            for bid, i in flow.all_events(f):
                e = f.exprs[i]
                if e["k"] == "call" and "fn" in e and not ctx.sums.resolve_indirect(f, e):
                    held = locks.held_before(eng, i)
                    if held is None:
                        continue
                    n_cb += 1
                    key = "RF-LOCK:callback:%s" % f.name
                    forb = held & {CC_MUTEX, CD_MUTEX, RD_MUTEX}
                    if forb:
                        # one finding per function that calls the callback host with the mutex held
                        direct = locks.callers_of(spec, fkey, S) if (forb & S) else [f.name]
                        holders = sorted({g.name for m in sorted(forb & S) for g, site in locks.acquirers(spec, P, fkey, S, m)}) or [f.name]
                        for d in direct:
                            run.violation("RF-LOCK", "RF-LOCK:callback:%s->%s" % (d, f.name),
                                          "%s calls %s with %s held (taken in %s); %s invokes the client callback `%s` with the mutex "
                                          "still held: a handler that blocks on, or calls back into, the caption API "
                                          "(vbi_fetch_cc_page from a handler is documented as permitted) deadlocks"
                                          % (d, f.name, ", ".join(sorted(forb)), "/".join(holders), f.name, ex.pretty(f, i)[:40]),
                                          ex.loc(f, i), witness={"direct_caller": d, "holders": holders, "held": sorted(forb)})
                    else:
                        run.holds("RF-LOCK", key + ":{%s}" % ",".join(sorted(S)), "client callback invoked holding only %s"
                                  % (sorted(held) or "no library mutex"), ex.loc(f, i))
    # pairing / misuse
    seen = set()
    for f, eid, msg, kind in spec.errors:
        key = "RF-LOCK:pairing:%s:%s" % (f.name, kind)
        if (key, msg) in seen:
            continue
        seen.add((key, msg))
        run.violation("RF-LOCK", key, "%s: %s" % (f.name, msg), ex.loc(f, eid) if eid is not None else "%s:%d" % (f.file, f.line),
                      witness={"function": f.name, "kind": kind})
    n_lock_fns = 0
    for fkey, ctxs in res.contexts.items():
        f = locks._func_by_key(P, fkey)
        has_lock = any(f.exprs[i].get("callee") in (locks.LOCK, locks.TRYLOCK) for bid, i in flow.all_events(f)
                       if f.exprs[i]["k"] == "call")
        if not has_lock:
            continue
        n_lock_fns += 1
        for S, eng in ctxs.items():
            outs = {frozenset(So) for rv, So, ret in eng.outcomes()}
            key = "RF-LOCK:pairing:%s:{%s}" % (f.name, ",".join(sorted(S)))
            if outs == {frozenset(S)}:
                run.holds("RF-LOCK", key, "every exit of %s leaves the lockset as it found it (%s)" % (f.name, sorted(S) or "empty"),
                          "%s:%d" % (f.file, f.line))
            else:
                extra = [sorted(o) for o in outs if o != frozenset(S)]
                k2 = "RF-LOCK:pairing:%s:held-at-exit" % f.name
                if not any(v["key"] == k2 for v in run.violations):
                    run.violation("RF-LOCK", k2, "%s can return with lockset %s (entered with %s): a lock taken here is not "
                                  "released on every path" % (f.name, extra, sorted(S)), "%s:%d" % (f.file, f.line),
                                  witness={"function": f.name, "exit_locksets": extra})
    # lock order
    cyc = locks.order_cycles(spec.order)
    if cyc:
        for c in cyc[:3]:
            run.violation("RF-LOCK", "RF-LOCK:order:" + "->".join(c), "lock-order cycle %s" % " -> ".join(c), None)
    else:
        run.holds("RF-LOCK", "RF-LOCK:order", "lock-order graph acyclic; edges: %s"
                  % (", ".join("%s->%s" % k for k in sorted(spec.order)) or "none (no mutex is taken while another is held)"), None)
    run.floor("caption channel accesses analysed", counts["cc"], 100)
    run.floor("chswcd accesses analysed", counts["chswcd"], 6)
    run.floor("raw decoder calls analysed", counts["rd"], 5)
    run.floor("functions taking a mutex reached from the entry points", n_lock_fns, 8)
    run.floor("client callback sites reached", n_cb, 1)

    # atomic regions: the snapshot copy and the decode call are inside one region
    f = P.need("vbi_fetch_cc_page", "src/caption.c")
    eng = res.contexts[f.key][frozenset()]
    acc = cc_accesses(f)
    _single_region(run, f, eng, acc, CC_MUTEX, "snapshot copy and dirty reset of vbi_fetch_cc_page")

    _publish_after_complete(ctx, run)
    # notes: the unnamed operations
    for n, u in NOTE_ENTRIES:
        g = P.func(n, u)
        if g is None:
            continue
        r2 = locks.analyse(ctx, [g], is_prot)
        # pairing is claimed for these too: a mutex they keep blocks every named operation on the same object for ever
        for ff, eid, msg, kind in r2.spec.errors:
            k2 = "RF-LOCK:pairing:%s:%s" % (ff.name, kind)
            if not any(v["key"] == k2 for v in run.violations):
                run.violation("RF-LOCK", k2, "%s: %s (the raw decoder mutex stays locked: the next vbi_raw_decode() or service "
                              "change on this decoder blocks for ever)" % (ff.name, msg),
                              ex.loc(ff, eid) if eid is not None else "%s:%d" % (ff.file, ff.line), witness={"function": ff.name, "kind": kind})
        if not r2.spec.errors:
            run.holds("RF-LOCK", "RF-LOCK:pairing:%s" % n, "every exit of %s releases the mutex it took" % n, "%s:%d" % (g.file, g.line))
        for fkey, ctxs in r2.contexts.items():
            h = locks._func_by_key(P, fkey)
            for S, eng in ctxs.items():
                for node in rd_calls(ctx, h):
                    held = locks.held_before(eng, node)
                    if held is not None and RD_MUTEX not in held:
                        run.note("%s (not a named operation): call `%s` without the raw decoder mutex" % (n, ex.pretty(h, node)[:50]))
    f = P.need("vbi_raw_decode", "src/decoder.c")
    pre = [i for i, e in enumerate(f.exprs) if i in flow.elem_pos(f) and e["k"] == "mem" and e.get("in") == "vbi_raw_decoder"
           and e["member"] in ("count", "start")]
    eng = res.contexts[f.key][frozenset()]
    unl = [i for i in pre if RD_MUTEX not in (locks.held_before(eng, i) or set())]
    if unl:
        run.note("vbi_raw_decode reads rd->count[] before taking the mutex (races with vbi_raw_decoder_resize only, which the "
                 "statement does not name)")


def _single_region(run, f, eng, nodes, mutex, what):
    """All accesses lie between one lock and its unlock: no unlock of `mutex`
    is reachable from the first access before the last one."""
    if not nodes:
        raise AnalysisBroken("%s: no accesses found" % f.name)
    pos = flow.elem_pos(f)
    blocks = [pos[n][0] for n in nodes]
    unlocks = [i for bid, i in flow.all_events(f) if f.exprs[i]["k"] == "call" and f.exprs[i].get("callee") == locks.UNLOCK
               and locks.mutex_id(f, f.exprs[i]["c"][0]) == mutex]
    locks_ = [i for bid, i in flow.all_events(f) if f.exprs[i]["k"] == "call" and f.exprs[i].get("callee") == locks.LOCK
              and locks.mutex_id(f, f.exprs[i]["c"][0]) == mutex]
    key = "RF-LOCK:atomic:%s" % f.name
    if len(locks_) == 1 and len(unlocks) >= 1 and all(mutex in (locks.held_before(eng, n) or set()) for n in nodes):
        run.holds("RF-LOCK", key, "%s: %d accesses inside the single lock region of %s" % (what, len(nodes), mutex),
                  "%s:%d" % (f.file, f.line))
    else:
        run.violation("RF-LOCK", key, "%s is not inside one lock region of %s (%d lock call(s)): the snapshot can be torn"
                      % (what, mutex, len(locks_)), "%s:%d" % (f.file, f.line))


def _publish_after_complete(ctx, run):
    """RF-DEP: the caption decoder announces a changed page with an event; caption_send_event()
    drops the caption mutex around the client callback, so a fetch from another thread can run
    right there.  Whatever a command changes on the displayed page is therefore written *before*
    the announcing call (render, roll_up ...): no update() - the copy of the edited row into the
    displayed page - is reachable after such a call within the same command.  Otherwise the
    fetched snapshot shows a state (scrolled, bottom row not yet blanked) that no sequential
    decode boundary has."""
    P = ctx.prog
    unit = "src/caption.c"
    senders = {"caption_send_event"}
    changed = True
    while changed:
        changed = False
        for f in P.funcs:
            if f.file != unit or f.name in senders:
                continue
            if any(e["k"] == "call" and e.get("callee") in senders for e in f.exprs):
                # only leaf announcers: functions whose job is to mark dirty + send (no decoding of their own)
                if f.name in ("render", "roll_up", "clear"):
                    senders.add(f.name)
                    changed = True
    n = 0
    for f in P.funcs:
        if f.file != unit or f.name in senders:
            continue
        calls = [(b, i) for b, i in flow.all_events(f) if f.exprs[i]["k"] == "call" and f.exprs[i].get("callee") in senders - {"caption_send_event"}]
        ups = [(b, i) for b, i in flow.all_events(f) if f.exprs[i]["k"] == "call" and f.exprs[i].get("callee") == "update"]
        if not calls or not ups:
            continue
        run.touch(f)
        pos = flow.elem_pos(f)
        for cb, ci in calls:
            n += 1
            reach = flow.reach_from(f, cb)
            later = [(ub, ui) for ub, ui in ups if (ub == cb and pos[ui][1] > pos[ci][1]) or (ub != cb and ub in reach and ub in
                     {s for s in flow.reach_from(f, cb)} and any(s in flow.reach_from(f, x) for x, _ in f.edges(cb) for s in [ub]))]
            key = "RF-DEP:%s:publish-after-complete@%d" % (f.name, f.exprs[ci]["line"])
            if later:
                ub, ui = later[0]
                run.violation("RF-DEP", key, "%s(): `%s` (line %d) changes the displayed page after `%s` has announced it - the "
                              "announcement drops the caption mutex around the callback, so vbi_fetch_cc_page() in another thread "
                              "can return the page between the two: a snapshot no sequential execution ever shows"
                              % (f.name, ex.pretty(f, ui)[:30], f.exprs[ui]["line"], ex.pretty(f, ci)[:40]), ex.loc(f, ci))
            else:
                run.holds("RF-DEP", key, "no update() of the displayed page follows `%s`" % ex.pretty(f, ci)[:40], ex.loc(f, ci))
    run.floor("announcing calls in functions that also update the displayed page", n, 1)
