"""C11 — event handler list: removal during traversal, single mask writer,
Teletext gating, event_mutex discipline."""
from .. import atoms, ex, flow, locks, loops, typestate
from ..prog import AnalysisBroken

CLAUSE = ("in vbi_event_handler_register/_add every free() of a handler record is preceded on its path by the unlink "
          "(*ehp = eh->next) and, unless vbi->next_handler != eh is known on that path, by the cursor patch "
          "vbi->next_handler = eh->next (path-sensitive typestate: no removed record stays the traversal cursor); the mask handed "
          "to vbi_event_enable is OR-accumulated over every handler that stays on the list; vbi_send_event advances the cursor "
          "before the callback and does not read the handler record after the callback returned (it may have been freed); "
          "vbi->event_mask is written only by vbi_event_enable, on every path through it, with the mask it was given; Teletext "
          "packet assembly is behind the `event_mask & VBI_EVENT_TTX_PAGE` test; event_mutex is released on every path that "
          "took it (trylock result correlated), allocation-failure exits excepted.")
CLAUSE = CLAUSE + (" In vbi_event_handler_add (which removes *every* record of a handler function) the list walk continues "
                   "after a record was freed - the code behind the loop is reachable from the free only through the loop head; "
                   "every Teletext (re)activation in vbi_event_enable reaches vbi_teletext_desync (through "
                   "vbi_teletext_channel_switched or directly), so no page in progress from before the handler was removed is "
                   "completed with rows received after it was registered again.")
CLAUSE = CLAUSE + (" (RF-WHO) a handler record's callback and user pointer are written only into a record allocated on the same "
                   "path (never into one reached through the list); (RF-UAF) no function continues a walk from a successor pointer it "
                   "read before calling something that may free handler records.")
CLAUSE = CLAUSE + (" Every free of a deferred-trigger node follows the store that unlinks it; every send of the persistent "
                   "network record follows, in the same block, the store of its type.")
NOT_DECIDED = "delivery order and exactly-once delivery as such, nested re-entrancy depth, user-pointer identity (values)."

UNIT = "src/vbi.c"
F_NEXT = "vbi_decoder.next_handler"
F_MASK = "vbi_decoder.event_mask"


class _PatchSpec:
    """State: for the record currently in `eh`: 'unknown' (it may be the
    traversal cursor), 'safe' (known not to be, or the cursor was patched)."""

    def __init__(self, ehname):
        self.eh = ehname
        self.memo = {}
        self.frees = []          # (eid, state)

    def call(self, eng, f, eid, e, S, K):
        if e.get("callee") == "free" and e.get("c"):
            a = f.exprs[ex.skip(f, e["c"][0])]
            while a["k"] == "cast":
                a = f.exprs[ex.skip(f, a["c"][0])]
            if a["k"] == "ref" and a["name"] == self.eh:
                self.frees.append((eid, S))
        return [(S, None)]

    def store(self, eng, f, eid, lhs, var, op, rhs, S, K):
        if lhs is None:
            return S
        l = f.exprs[ex.skip(f, lhs)]
        if l["k"] == "ref" and l["name"] == self.eh:
            return "unknown"                 # next record
        if l["k"] == "mem" and "%s.%s" % (l.get("in"), l["member"]) == F_NEXT and op == "=" and rhs is not None:
            r = f.exprs[ex.skip(f, rhs)]
            if r["k"] == "mem" and r["member"] == "next":
                b = f.exprs[ex.skip(f, r["c"][0])]
                if b["k"] == "ref" and b["name"] == self.eh:
                    return "safe"
        return S

    def branch(self, eng, f, cond, truth, S, K):
        for a in atoms.atoms_of(f, cond, truth):
            if a.rel == "!=" and a.R is not None and a.eq_field(F_NEXT, "!="):
                o = a.R if a.L.has(F_NEXT) else a.L
                if self.eh in o.locals and not o.fields:
                    return "safe"
        return S


def run(ctx, run):
    P = ctx.prog
    n_free = 0
    for name in ("vbi_event_handler_register", "vbi_event_handler_add"):
        f = P.need(name, UNIT)
        run.touch(f)
        # the node variable: the local passed to free ()
        ehs = set()
        for bid, i in flow.all_events(f):
            e = f.exprs[i]
            if e["k"] == "call" and e.get("callee") == "free" and e.get("c"):
                a = f.exprs[ex.skip(f, e["c"][0])]
                while a["k"] == "cast":
                    a = f.exprs[ex.skip(f, a["c"][0])]
                if a["k"] == "ref":
                    ehs.add(a["name"])
        if len(ehs) != 1:
            raise AnalysisBroken("%s: expected exactly one freed node variable, found %s" % (name, sorted(ehs)))
        eh = sorted(ehs)[0]
        sp = _PatchSpec(eh)
        typestate.Engine(ctx, sp, f, ["unknown"]).run()
        seen = {}
        for eid, S in sp.frees:
            seen.setdefault(eid, set()).add(S)
        for eid, states in seen.items():
            n_free += 1
            key = "RF-CORR:%s:cursor-patch-before-free" % name
            if "unknown" in states:
                run.violation("RF-CORR", key, "a path reaches `%s` with the record possibly still being vbi->next_handler: neither "
                              "`vbi->next_handler != %s` is known nor was `vbi->next_handler = %s->next` executed on it; vbi_send_event "
                              "then calls the freed handler" % (ex.pretty(f, eid), eh, eh), ex.loc(f, eid),
                              witness={"function": name, "free": ex.pretty(f, eid)})
            else:
                run.holds("RF-CORR", key, "every path to `%s` has patched the traversal cursor or knows it points elsewhere"
                          % ex.pretty(f, eid), ex.loc(f, eid))
            # unlink before free
            ok = _unlinked_before(f, eid, eh)
            key = "RF-DOM:%s:unlink-before-free" % name
            if ok:
                run.holds("RF-DOM", key, "`*ehp = %s->next` precedes the free on its path" % eh, ex.loc(f, eid))
            else:
                run.violation("RF-DOM", key, "`%s` is not preceded by the unlink `*ehp = %s->next`: the list keeps a pointer to the "
                              "freed record" % (ex.pretty(f, eid), eh), ex.loc(f, eid))
        _mask_accumulation(ctx, run, f, eh)
    run.floor("handler record frees in register/add", n_free, 2)

    _send_event(ctx, run, P.need("vbi_send_event", UNIT))
    _event_mask(ctx, run)
    _ttx_gate(ctx, run, P.need("vbi_decode_teletext", "src/packet.c"))
    _mutex(ctx, run)
    _walk_goes_on(ctx, run, P.need("vbi_event_handler_add", UNIT))
    _walk_goes_on(ctx, run, P.need("vbi_event_handler_register", UNIT))
    _mask_from_complete_walk(ctx, run, P.need("vbi_event_handler_add", UNIT))
    _mask_from_complete_walk(ctx, run, P.need("vbi_event_handler_register", UNIT))
    _activation_desyncs(ctx, run)
    _gate_mask_agreement(ctx, run)
    _identity_written_at_creation(ctx, run)
    _no_cached_successor_across_free(ctx, run)
    _trigger_unlinked_before_free(ctx, run)
    _network_event_typed_at_send(ctx, run)


def _unlinked_before(f, free_eid, eh):
    bid, n = flow.elem_pos(f)[free_eid]

    def is_unlink(i):
        for lhs, var, op, rhs in flow.stores(f, i):
            if lhs is None or rhs is None or op != "=":
                continue
            l = f.exprs[ex.skip(f, lhs)]
            r = f.exprs[ex.skip(f, rhs)]
            if l["k"] == "un" and l["op"] == "*" and r["k"] == "mem" and r["member"] == "next":
                b = f.exprs[ex.skip(f, r["c"][0])]
                if b["k"] == "ref" and b["name"] == eh:
                    return True
        return False
    for i in f.blocks[bid].elems[:n]:
        if flow.is_event(f, i) and is_unlink(i):
            return True
    # a dominating block
    for b2 in f.blocks:
        if b2 != bid and flow.dominates(f, b2, bid):
            if any(flow.is_event(f, i) and is_unlink(i) for i in f.blocks[b2].elems):
                # and eh is not reassigned in between
                return True
    return False


def _mask_accumulation(ctx, run, f, eh):
    # the argument of vbi_event_enable
    calls = [i for bid, i in flow.all_events(f) if f.exprs[i]["k"] == "call" and f.exprs[i].get("callee") == "vbi_event_enable"]
    if len(calls) != 1:
        raise AnalysisBroken("%s: vbi_event_enable call not found" % f.name)
    arg = f.exprs[ex.skip(f, f.exprs[calls[0]]["c"][1])]
    key = "RF-CORR:%s:mask-is-union" % f.name
    if arg["k"] != "ref" or arg.get("dk") != "local":
        run.violation("RF-CORR", key, "vbi_event_enable is not handed the accumulated mask variable", ex.loc(f, calls[0]))
        return
    m = arg["name"]
    # the traversal loop
    L = loops.natural_loops(f)
    if not L:
        raise AnalysisBroken("%s: traversal loop vanished" % f.name)
    head, body = max(L.items(), key=lambda kv: len(kv[1]))
    acc = set()
    frees = set()
    for b in body:
        for i in flow.events(f, b):
            e = f.exprs[i]
            if e["k"] == "asg" and e["op"] == "|=":
                l = f.exprs[ex.skip(f, e["c"][0])]
                ro = atoms.Operand(f, e["c"][1])
                if l["k"] == "ref" and l["name"] == m and "event_handler.event_mask" in ro.fields:
                    acc.add(b)
                elif l["k"] == "ref" and l["name"] == m and len(ro.locals) == 1 and not ro.fields and not ro.calls:
                    # `eh->event_mask = x; mask |= x;`: the value just stored into the record
                    x = sorted(ro.locals)[0]
                    pos_i = flow.elem_pos(f)[i][1]
                    for j in flow.events(f, b):
                        if flow.elem_pos(f)[j][1] >= pos_i:
                            break
                        for lhs, var, op, rhs in flow.stores(f, j):
                            if lhs is not None and rhs is not None and op == "=" and atoms.store_to_field("event_handler.event_mask")(f, j) \
                                    and atoms.Operand(f, rhs).locals == {x} and not atoms.Operand(f, rhs).fields:
                                acc.add(b)
            if e["k"] == "call" and e.get("callee") == "free":
                frees.add(b)
    # a path round the loop that neither frees the node nor adds its mask?
    seen = set()
    st = [s for s, lab in f.edges(head) if s in body]
    bad = False
    while st:
        n = st.pop()
        if n in seen or n in acc or n in frees or n not in body:
            continue
        if n == head:
            bad = True
            break
        seen.add(n)
        st.extend(s for s, _ in f.edges(n))
    if bad or not acc:
        run.violation("RF-CORR", key, "a path round the traversal loop keeps a handler on the list without OR-ing its event_mask into "
                      "`%s`: services that handler needs are switched off" % m, "%s:%d" % (f.file, f.line))
    else:
        run.holds("RF-CORR", key, "every iteration either frees the node or does `%s |= eh->event_mask`; vbi_event_enable receives `%s`"
                  % (m, m), ex.loc(f, calls[0]))


def _send_event(ctx, run, f):
    run.touch(f)
    cbs = [i for bid, i in flow.all_events(f) if f.exprs[i]["k"] == "call" and "fn" in f.exprs[i]]
    run.floor("callback sites in vbi_send_event", len(cbs), 1)
    for call in cbs:
        fe = f.exprs[ex.skip(f, f.exprs[call]["fn"])]
        if fe["k"] == "un":
            fe = f.exprs[ex.skip(f, fe["c"][0])]
        base = f.exprs[ex.skip(f, fe["c"][0])] if fe["k"] == "mem" else None
        if base is None or base["k"] != "ref":
            raise AnalysisBroken("vbi_send_event: handler call shape changed")
        eh, did = base["name"], base.get("did")
        # (a) cursor advanced before the call, in the same iteration
        bid, n = flow.elem_pos(f)[call]
        adv = None
        for b2 in f.blocks:
            if flow.dominates(f, b2, bid):
                for i in f.blocks[b2].elems:
                    if b2 == bid and flow.elem_pos(f)[i][1] >= n:
                        break
                    if flow.is_event(f, i) and atoms.store_to_field(F_NEXT)(f, i):
                        lhs, var, op, rhs = flow.stores(f, i)[0]
                        r = f.exprs[ex.skip(f, rhs)] if rhs is not None else None
                        if r is not None and r["k"] == "mem" and r["member"] == "next":
                            if loops.innermost(f, b2) == loops.innermost(f, bid):
                                adv = i
        key = "RF-TYPESTATE:vbi_send_event:advance-before-callback"
        if adv is not None:
            run.holds("RF-TYPESTATE", key, "`%s` dominates the callback inside the same iteration" % ex.pretty(f, adv), ex.loc(f, call))
        else:
            run.violation("RF-TYPESTATE", key, "the traversal cursor vbi->next_handler is not set to %s->next before the callback: a "
                          "handler that unregisters itself frees the record the loop is about to read" % eh, ex.loc(f, call))
        # (b) no read of the record after the callback until eh is reassigned
        from ..neg import _is_read, _is_redef
        bad = None
        work = [(bid, n + 1)]
        seen = set()
        while work and bad is None:
            b, k = work.pop()
            stop = False
            for x in f.blocks[b].elems[k:]:
                if _is_redef(f, x, eh, did):
                    stop = True
                    break
                if _is_read(f, x, eh, did):
                    bad = x
                    break
            if stop or bad is not None:
                continue
            for s, _ in f.edges(b):
                if s not in seen:
                    seen.add(s)
                    work.append((s, 0))
        key = "RF-TYPESTATE:vbi_send_event:no-use-after-callback"
        if bad is None:
            run.holds("RF-TYPESTATE", key, "`%s` is not read after the callback until it is reloaded from vbi->next_handler" % eh,
                      ex.loc(f, call))
        else:
            run.violation("RF-TYPESTATE", key, "`%s` is read after the callback returned (%s); the callback may have unregistered and "
                          "freed that handler" % (eh, ex.pretty(f, bad)), ex.loc(f, bad))
        # the loop reloads eh from the cursor field
        reload = False
        for b2 in f.blocks:
            for i in flow.events(f, b2):
                for lhs, var, op, rhs in flow.stores(f, i):
                    if lhs is None or rhs is None:
                        continue
                    l = f.exprs[ex.skip(f, lhs)]
                    if l["k"] == "ref" and l["name"] == eh and F_NEXT in atoms.Operand(f, rhs).fields:
                        reload = True
        key = "RF-TYPESTATE:vbi_send_event:reload-from-cursor"
        if reload:
            run.holds("RF-TYPESTATE", key, "the loop continues with %s = vbi->next_handler" % eh, ex.loc(f, call), nontrivial=False)
        else:
            run.violation("RF-TYPESTATE", key, "the loop does not continue from vbi->next_handler", ex.loc(f, call))


def _event_mask(ctx, run):
    P = ctx.prog
    writers = []
    for g in P.funcs:
        if not g.unit.startswith("src/"):
            continue
        for bid, i in flow.all_events(g):
            if atoms.store_to_field(F_MASK)(g, i):
                writers.append((g, i))
    run.floor("stores to vbi->event_mask", len(writers), 1)
    for g, i in writers:
        key = "RF-WHO:event_mask:%s" % g.name
        if g.name == "vbi_event_enable":
            run.holds("RF-WHO", key, "written by its owner", ex.loc(g, i), nontrivial=False)
        else:
            run.violation("RF-WHO", key, "vbi->event_mask is written outside vbi_event_enable: the union-of-handler-masks invariant "
                          "has a second writer", ex.loc(g, i))
    f = P.need("vbi_event_enable", UNIT)
    run.touch(f)
    pname = f.params[1]["name"]

    def stores_param(ff, i):
        for lhs, var, op, rhs in flow.stores(ff, i):
            if lhs is None or rhs is None or op != "=":
                continue
            l = ff.exprs[ex.skip(ff, lhs)]
            r = ff.exprs[ex.skip(ff, rhs)]
            if l["k"] == "mem" and "%s.%s" % (l.get("in"), l["member"]) == F_MASK and r["k"] == "ref" and r["name"] == pname:
                return True
        return False
    from .C13 import _must_pass_from_entry
    key = "RF-CORR:vbi_event_enable:mask-stored-on-every-path"
    if _must_pass_from_entry(f, stores_param):
        run.holds("RF-CORR", key, "every path through vbi_event_enable stores vbi->event_mask = %s" % pname, "%s:%d" % (f.file, f.line))
    else:
        run.violation("RF-CORR", key, "a path through vbi_event_enable returns without storing the new mask: after the last handler "
                      "for an event type is removed the decoder keeps acquiring that service (and a later re-registration skips the "
                      "decoder reset)", "%s:%d" % (f.file, f.line), witness={"function": f.name})


def _ttx_gate(ctx, run, f):
    run.touch(f)
    sw = [bid for bid, b in f.blocks.items() if b.term and b.term["kind"] == "SwitchStmt"
          and any(isinstance(lab, tuple) and lab[1] <= 26 <= lab[2] for s, lab in f.edges(bid))]
    if not sw:
        raise AnalysisBroken("vbi_decode_teletext: packet switch not found")
    bsw = sw[0]
    gate = None
    for bid, b in f.blocks.items():
        t = b.term
        if not t or "cond" not in t:
            continue
        o = atoms.Operand(f, t["cond"])
        if F_MASK not in o.fields:
            continue
        # the edge on which the mask bit is clear must not reach the dispatch ...
        clear_ok = False
        for s, lab in f.edges(bid):
            ats = atoms.edge_atoms(f, bid, lab)
            if any(a.rel == "==" and a.R is not None and a.R.const == 0 and a.L.has(F_MASK) for a in ats):
                if bsw not in flow.reach_from(f, s):
                    clear_ok = True
        if not clear_ok:
            continue
        # ... and the dispatch is reachable around this test only for packets >= 30
        # (8/30 broadcast service data is decoded for other event types too)
        seen = set()
        st = [f.entry]
        around = False
        while st:
            n = st.pop()
            if n in seen or n == bid:
                continue
            seen.add(n)
            if n == bsw:
                around = True
                break
            for s2, lab in f.edges(n):
                ats = atoms.edge_atoms(f, n, lab)
                if any(a.rel == ">=" and a.R is not None and a.R.const == 30 and not a.L.fields for a in ats):
                    continue          # the packet >= 30 bypass
                st.append(s2)
        if not around:
            gate = bid
    key = "RF-DOM:vbi_decode_teletext:ttx-gate"
    if gate is not None:
        run.holds("RF-DOM", key, "the packet dispatch is dominated by the `event_mask & TTX_EVENTS` test; its failing edge returns",
                  "%s:%d" % (f.file, f.blocks[gate].term["line"]))
    else:
        run.violation("RF-DOM", key, "Teletext packet assembly is no longer behind the `vbi->event_mask & VBI_EVENT_TTX_PAGE` test: "
                      "pages are acquired although no handler asked for them", "%s:%d" % (f.file, f.line))


def _mutex(ctx, run):
    P = ctx.prog
    fs = [P.need(n, UNIT) for n in ("vbi_event_handler_register", "vbi_event_handler_add", "vbi_send_event")]
    class _NoAllocFailure(locks.LockSpec):
        """Allocation failure is outside C11's quantifier: edges on which calloc / malloc returned NULL are not followed
        (however the result reaches the test - directly, through a local, or through the result of an inlined helper)."""
        pruned = 0

        def branch(self, eng, f, cond, truth, S, K):
            for a in atoms.atoms_of(f, cond, truth, None, None):
                if a.call_cmp("calloc", "==", 0) or _null_alloc(f, a, any_pos=True):
                    _NoAllocFailure.pruned += 1
                    return None
            return S
    for f in fs:
        spec = _NoAllocFailure(ctx, set())
        _NoAllocFailure.pruned = 0
        eng = typestate.Engine(ctx, spec, f, [frozenset()]).run()
        if _NoAllocFailure.pruned:
            run.note("%s: the calloc-failure exit keeps event_mutex (allocation failure is outside C11's quantifier; that edge "
                     "is not followed)" % f.name)
        n_exit = 0
        for bid, ret, S, K in eng.exit_states():
            n_exit += 1
            if not S:
                continue
            # allocation failure exits are outside the property's quantifier
            ats = atoms.dominating_atoms(f, bid)
            if any(a.call_cmp("calloc", "==", 0) or ("calloc" in a.L.calls) or _null_alloc(f, a) for a in ats):
                run.note("%s: the calloc-failure exit keeps event_mutex (allocation failure is outside C11's quantifier)" % f.name)
                continue
            line = f.exprs[ret]["line"] if ret is not None else f.endline
            run.violation("RF-LOCK", "RF-LOCK:%s:event_mutex-held-at-exit" % f.name, "%s returns at line %d holding %s: the next "
                          "vbi_send_event blocks forever" % (f.name, line, sorted(S)), "%s:%d" % (f.file, line))
        for g, eid, msg, kind in spec.errors:
            run.violation("RF-LOCK", "RF-LOCK:%s:%s" % (f.name, kind), msg, ex.loc(g, eid))
        if not any(v["key"].startswith("RF-LOCK:%s:" % f.name) for v in run.violations):
            run.holds("RF-LOCK", "RF-LOCK:%s:event_mutex" % f.name, "event_mutex: every exit state (%d) releases what the function took "
                      "(trylock result correlated with the conditional unlock)" % n_exit, "%s:%d" % (f.file, f.line))


def _null_alloc(f, a, any_pos=False):
    """!(eh = calloc (...)) style atom."""
    n = a.L.node
    if n is None:
        return False
    for x in ex.walk(f, n):
        if f.exprs[x]["k"] == "call" and f.exprs[x].get("callee") in ("calloc", "malloc"):
            return a.rel == "==" and a.R is not None and a.R.const == 0
    # `eh = calloc (...); if (NULL == eh)`: the tested local was last assigned the allocation
    if a.rel == "==" and a.R is not None and a.R.const == 0 and len(a.L.locals) == 1 and not a.L.fields and not a.L.calls:
        nm = sorted(a.L.locals)[0]
        for bid, i in flow.all_events(f):
            for lhs, var, op, rhs in flow.stores(f, i):
                who = var["name"] if var is not None else (f.exprs[ex.skip(f, lhs)].get("name") if lhs is not None and
                                                           f.exprs[ex.skip(f, lhs)]["k"] == "ref" else None)
                if who == nm and rhs is not None:
                    r = f.exprs[ex.skip(f, rhs)]
                    while r["k"] == "cast":
                        r = f.exprs[ex.skip(f, r["c"][0])]
                    if r["k"] == "call" and r.get("callee") in ("calloc", "malloc") and \
                            (any_pos or (a.src is not None and (bid == a.src or flow.dominates(f, bid, a.src)))):
                        return True
        # the result of an inlined helper that hands the allocation back: a local that is only ever NULL or a copy of a
        # local holding the allocation
        if any_pos and _holds_only_allocation(f, nm, 0):
            return True
    return False


def _holds_only_allocation(f, nm, depth):
    if depth > 3:
        return False
    seen_alloc = False
    for bid, i in flow.all_events(f):
        for lhs, var, op, rhs in flow.stores(f, i):
            who = var["name"] if var is not None else (f.exprs[ex.skip(f, lhs)].get("name") if lhs is not None and
                                                       f.exprs[ex.skip(f, lhs)]["k"] == "ref" else None)
            if who != nm:
                continue
            if rhs is None:
                if var is not None:
                    continue            # declaration without initialiser
                return False
            if op != "=":
                return False
            r = f.exprs[ex.skip(f, rhs)]
            while r["k"] == "cast":
                r = f.exprs[ex.skip(f, r["c"][0])]
            if ex.is_null(f, rhs) or r.get("v") == 0:
                continue
            if r["k"] == "call" and r.get("callee") in ("calloc", "malloc"):
                seen_alloc = True
            elif r["k"] == "ref" and r.get("dk") == "local" and r["name"] != nm and _holds_only_allocation(f, r["name"], depth + 1):
                seen_alloc = True
            else:
                return False
    return seen_alloc


def _mask_from_complete_walk(ctx, run, f):
    """vbi_event_handler_register / _add hand vbi_event_enable() the union of the masks of all records left on the list;
    the union is accumulated while walking the list.  The call must therefore not be reachable from inside the walk
    loop except through the loop test that found the end of the list: a walk left early (break after an update) hands
    over a union that misses - or, computed from the old union, still contains - the events of the records behind."""
    from .. import loops
    run.touch(f)
    L = loops.natural_loops(f)
    calls = [(b, i) for b, i in flow.all_events(f) if f.exprs[i]["k"] == "call" and f.exprs[i].get("callee") == "vbi_event_enable"]
    n = 0
    for head, body in L.items():
        t = f.blocks[head].term
        if not t or "cond" not in t:
            continue
        # the list walk: its test reads the list link (`eh = *ehp`, `NULL != (eh = *ehp)`, `*ehp`, `eh`)
        # the list walk: its body (or test) reads the link field of a handler record
        walks = False
        for b2 in body:
            for x in [i2 for i2 in f.blocks[b2].elems] + ([f.blocks[b2].term["cond"]] if f.blocks[b2].term and "cond" in f.blocks[b2].term else []):
                for n2 in ex.walk(f, x):
                    e2 = f.exprs[n2]
                    if e2["k"] == "mem" and e2["member"] == "next" and "event_handler" in str(e2.get("in")):
                        walks = True
        if not walks:
            continue
        stay = [s2 for s2, lab in f.edges(head) if s2 in body]
        if not stay:
            continue
        n += 1
        for cb, ci in calls:
            if cb in body:
                continue
            key = "RF-CORR:%s:mask-from-complete-walk" % f.name
            reach = set()
            for s2 in stay:
                reach |= flow.reach_from(f, s2, avoid={head})
            if cb in reach:
                run.violation("RF-CORR", key, "`%s` is reachable from inside the list walk without passing the end-of-list test: the "
                              "event mask it installs was not accumulated over every registered handler, so events dropped by a "
                              "handler stay enabled (or events of the records behind are switched off)" % ex.pretty(f, ci)[:50],
                              ex.loc(f, ci), witness={"function": f.name})
            else:
                run.holds("RF-CORR", key, "vbi_event_enable() is reached from the list walk only through its end-of-list test", ex.loc(f, ci))
    run.floor("list walks in front of vbi_event_enable in %s" % f.name, n, 1)


def _walk_goes_on(ctx, run, f):
    from .. import loops
    run.touch(f)
    L = loops.natural_loops(f)
    n = 0
    for bid, i in flow.all_events(f):
        e = f.exprs[i]
        if not (e["k"] == "call" and e.get("callee") == "free"):
            continue
        # the loop this free() sits in syntactically: the innermost loop head that dominates it (a
        # block that leaves the loop with `break` is not part of the natural loop body any more)
        head = None
        for h in L:
            if flow.dominates(f, h, bid) and h != bid and (head is None or flow.dominates(f, head, h)):
                head = h
        if head is None:
            continue
        n += 1
        body = L[head] | {bid}
        # from the free: can we leave the loop without passing the loop head?
        seen, stack, leaves = set(), [s for s, _ in f.edges(bid)], None
        while stack:
            b = stack.pop()
            if b in seen or b == head:
                continue
            seen.add(b)
            if b not in body:
                leaves = b
                break
            stack.extend(s for s, _ in f.edges(b))
        key = "RF-CORR:%s:walk-continues-after-removal" % f.name
        if leaves is None:
            run.holds("RF-CORR", key, "after `%s` the walk returns to the loop test: the remaining records are visited (further "
                      "records of the same function are removed, all others contribute to the event mask)" % ex.pretty(f, i), ex.loc(f, i))
        else:
            run.violation("RF-CORR", key, "after `%s` control leaves the list walk: records behind the removed one are neither "
                          "removed (same handler function, other user data) nor counted into the event mask - their service is "
                          "switched off although they are still registered" % ex.pretty(f, i), ex.loc(f, i), witness={"function": f.name})
    run.floor("record frees inside the removal walk of %s" % f.name, n, 1)


def _must_call(ctx, f, target, depth=0, memo=None):
    """Every path through f calls `target` (directly or through a callee that must)."""
    memo = {} if memo is None else memo
    if f.key in memo:
        return memo[f.key]
    memo[f.key] = False
    hit = set()
    for bid, i in flow.all_events(f):
        e = f.exprs[i]
        if e["k"] == "call" and e.get("callee"):
            if e["callee"] == target:
                hit.add(bid)
            elif depth < 3:
                t = ctx.prog.func_for(f, e["callee"])
                if t is not None and _must_call(ctx, t, target, depth + 1, memo):
                    hit.add(bid)
    reach = flow.reach_from(f, f.entry, avoid=hit)
    memo[f.key] = f.exit not in reach
    return memo[f.key]


def _activation_desyncs(ctx, run):
    P = ctx.prog
    f = P.need("vbi_event_enable", UNIT)
    run.touch(f)
    n = 0
    for bid, i in flow.all_events(f):
        e = f.exprs[i]
        if e["k"] == "call" and e.get("callee") == "vbi_teletext_channel_switched":
            n += 1
            t = P.func_for(f, e["callee"])
            ok = t is not None and _must_call(ctx, t, "vbi_teletext_desync")
            if not ok:
                # or the caller itself does it on every path from here
                ok, _ = atoms.must_pass(f, i, lambda ff, j: ff.exprs[j]["k"] == "call" and ff.exprs[j].get("callee") == "vbi_teletext_desync")
            key = "RF-CORR:vbi_event_enable:ttx-activation-desyncs"
            if ok:
                run.holds("RF-CORR", key, "activating VBI_EVENT_TTX_PAGE reaches vbi_teletext_desync() on every path", ex.loc(f, i))
            else:
                run.violation("RF-CORR", key, "activating VBI_EVENT_TTX_PAGE does not reach vbi_teletext_desync(): the pages in progress "
                              "when the last Teletext handler was removed are still open and are completed with rows received "
                              "after a handler was registered again - a page that was never transmitted is stored and announced",
                              ex.loc(f, i), witness={"function": f.name})
    run.floor("Teletext activation sites in vbi_event_enable", n, 1)


def _gate_mask_agreement(ctx, run):
    """packet.c gates Teletext assembly with `event_mask & TTX_EVENTS`; vbi_event_enable resets the
    Teletext decoder when `activate & M`.  Every bit that opens the gate must be one whose
    activation resets the decoder, or assembly runs on state nobody reset."""
    P = ctx.prog
    f = P.need("vbi_event_enable", UNIT)
    reset_mask = 0
    for bid, i in flow.all_events(f):
        e = f.exprs[i]
        if e["k"] == "call" and e.get("callee") == "vbi_teletext_channel_switched":
            for a in atoms.atoms_at(f, i):
                if a.rel == "!=" and a.R is not None and a.R.const == 0 and a.L.node is not None:
                    m = _and_mask(f, a.L.node)
                    if m is not None:
                        reset_mask |= m
    if not reset_mask:
        raise AnalysisBroken("vbi_event_enable: the mask under which vbi_teletext_channel_switched runs was not found")
    n = 0
    for g in P.funcs:
        if g.file != "src/packet.c":
            continue
        for bid, b in g.blocks.items():
            t = b.term
            if not t or "cond" not in t:
                continue
            for node in ex.walk(g, t["cond"]):
                e = g.exprs[node]
                if e["k"] == "bin" and e["op"] == "&" and "event_mask" in ex.pretty(g, node):
                    m = _and_mask(g, node)
                    if m is None or not (m & reset_mask or "TTX" in ex.pretty(g, node)):
                        continue
                    if not (m & reset_mask):
                        continue
                    n += 1
                    run.touch(g)
                    key = "RF-TAB:%s:ttx-gate-mask" % g.name
                    extra = m & ~reset_mask
                    if extra:
                        run.violation("RF-TAB", key, "the Teletext gate `%s` also opens for event bit(s) %#x, whose activation does not "
                                      "reset the Teletext decoder in vbi_event_enable (only %#x does): pages are assembled and cached "
                                      "with no Teletext handler registered, on state no one desynchronised"
                                      % (ex.pretty(g, node)[:60], extra, reset_mask), ex.loc(g, node),
                                      witness={"gate": m, "reset": reset_mask})
                    else:
                        run.holds("RF-TAB", key, "gate mask %#x is within the activation mask %#x that resets the Teletext decoder"
                                  % (m, reset_mask), ex.loc(g, node))
    run.floor("Teletext gates on the event mask in packet.c", n, 1)


def _and_mask(f, node):
    j = ex.skip(f, node)
    e = f.exprs[j]
    while e["k"] == "cast":
        j = ex.skip(f, e["c"][0])
        e = f.exprs[j]
    if e["k"] == "bin" and e["op"] == "&":
        for x in e["c"]:
            c = ex.const(f, x)
            if c is not None:
                return c
    return None


ALLOCATORS = ("calloc", "malloc", "vbi_malloc", "realloc")


def _identity_written_at_creation(ctx, run):
    """RF-WHO: a handler record's identity (the callback and its user pointer) is written only
    into a record the same function has just allocated.  A store into a record reached through
    the list changes the user pointer an already registered handler is called with - and the
    key vbi_event_handler_unregister() looks it up by."""
    P = ctx.prog
    n = 0
    for f in P.funcs:
        if not f.file.startswith("src/"):
            continue
        for bid, i in flow.all_events(f):
            for lhs, var, op, rhs in flow.stores(f, i):
                if lhs is None:
                    continue
                l = f.exprs[ex.skip(f, lhs)]
                if l["k"] != "mem" or l.get("in") != "event_handler" or l["member"] not in ("user_data", "handler"):
                    continue
                n += 1
                run.touch(f)
                r = ex.root(f, lhs)
                name = f.exprs[r]["name"] if r is not None else None
                pos = flow.elem_pos(f)
                fresh = False
                for b2, j in flow.all_events(f):
                    for l2, v2, o2, r2 in flow.stores(f, j):
                        if r2 is None or o2 != "=":
                            continue
                        tgt = v2["name"] if v2 is not None else (f.exprs[ex.skip(f, l2)].get("name") if f.exprs[ex.skip(f, l2)]["k"] == "ref" else None)
                        if tgt != name:
                            continue
                        rr = f.exprs[ex.skip(f, r2)]
                        while rr["k"] == "cast":
                            rr = f.exprs[ex.skip(f, rr["c"][0])]
                        if rr["k"] == "call" and rr.get("callee") in ALLOCATORS:
                            if (b2 == bid and pos[j][1] < pos[i][1]) or (b2 != bid and flow.dominates(f, b2, bid)):
                                fresh = True
                key = "RF-WHO:%s:%s-at-creation" % (f.name, l["member"])
                if fresh:
                    run.holds("RF-WHO", key, "`%s` writes a record allocated just before in the same function" % ex.pretty(f, i)[:60],
                              ex.loc(f, i))
                else:
                    run.violation("RF-WHO", key, "`%s` overwrites the %s of a handler record that is already in the list (the record "
                                  "was not allocated on this path): the registered handler is from now on called with another "
                                  "user pointer and vbi_event_handler_unregister (handler, its_pointer) no longer finds it"
                                  % (ex.pretty(f, i)[:60], l["member"]), ex.loc(f, i))
    run.floor("stores to a handler record's identity", n, 4)


def _no_cached_successor_across_free(ctx, run):
    """RF-UAF: a function that walks the handler list and calls something that may free records
    (vbi_event_handler_add/_remove/_register/_unregister free every matching record, not only
    the one at hand) must not continue from a successor pointer it read before the call."""
    P = ctx.prog
    direct = set()
    for f in P.funcs:
        if f.file != UNIT:
            continue
        for bid, i in flow.all_events(f):
            e = f.exprs[i]
            if e["k"] == "call" and e.get("callee") == "free" and e.get("c"):
                a = f.exprs[ex.skip(f, e["c"][0])]
                while a["k"] == "cast":
                    a = f.exprs[ex.skip(f, a["c"][0])]
                if "event_handler" in (a.get("t") or ""):
                    direct.add(f.name)
    if not direct:
        raise AnalysisBroken("no function frees a handler record any more")
    freers = set(direct)
    changed = True
    while changed:
        changed = False
        for f in P.funcs:
            if f.file != UNIT or f.name in freers:
                continue
            if any(e["k"] == "call" and e.get("callee") in freers for e in f.exprs):
                freers.add(f.name)
                changed = True
    n = 0
    for f in P.funcs:
        if not f.file.startswith("src/"):
            continue
        calls = [(b, i) for b, i in flow.all_events(f) if f.exprs[i]["k"] == "call" and f.exprs[i].get("callee") in freers]
        if not calls:
            continue
        run.touch(f)
        # locals holding a successor read from a record
        for bid, i in flow.all_events(f):
            for lhs, var, op, rhs in flow.stores(f, i):
                if rhs is None or op != "=":
                    continue
                name = var["name"] if var is not None else (f.exprs[ex.skip(f, lhs)].get("name")
                                                             if f.exprs[ex.skip(f, lhs)]["k"] == "ref" else None)
                if name is None:
                    continue
                r = f.exprs[ex.skip(f, rhs)]
                if not (r["k"] == "mem" and r.get("in") == "event_handler" and r["member"] == "next"):
                    continue
                n += 1
                # call reachable from the read, then a read of `name` reachable from the call, `name` not re-assigned
                pos = flow.elem_pos(f)
                for cb, ci in calls:
                    if not _reach_wo_redef(f, (bid, i), (cb, ci), name):
                        continue
                    use = _use_after(f, (cb, ci), name)
                    if use is not None:
                        run.violation("RF-UAF", "RF-UAF:%s:cached-successor:%s" % (f.name, name),
                                      "%s() reads `%s` before calling %s(), which may free every record of that handler function - "
                                      "including the one `%s` points to - and continues the walk from it afterwards (`%s`): a freed "
                                      "handler record is read" % (f.name, ex.pretty(f, i)[:40], f.exprs[ci].get("callee"), name,
                                                                  ex.pretty(f, use)[:40]), ex.loc(f, use),
                                      witness={"cached_at": f.exprs[i]["line"], "freeing_call": f.exprs[ci]["line"]})
                        break
                else:
                    run.holds("RF-UAF", "RF-UAF:%s:cached-successor:%s" % (f.name, name),
                              "`%s` is not used after a call that may free records" % ex.pretty(f, i)[:40], ex.loc(f, i))
    run.extra["handler_record_freers"] = sorted(freers)
    run.note("functions that may free handler records: %s; %d cached successor reads examined" % (", ".join(sorted(freers)), n))


def _writes_local(f, i, name):
    for lhs, var, op, rhs in flow.stores(f, i):
        if var is not None and var["name"] == name:
            return True
        if lhs is not None:
            l = f.exprs[ex.skip(f, lhs)]
            if l["k"] == "ref" and l.get("name") == name:
                return True
    return False


def _reach_wo_redef(f, a, b, name):
    """event b reachable from just after event a without `name` being re-assigned."""
    pos = flow.elem_pos(f)
    (ab, ai), (bb, bi) = a, b
    seen = set()
    # scan rest of a's block
    def scan(bid, start):
        for j in f.blocks[bid].elems[start:]:
            if j == bi:
                return "hit"
            if flow.is_event(f, j) and _writes_local(f, j, name):
                return "dead"
        return "go"
    r = scan(ab, pos[ai][1] + 1)
    if r == "hit":
        return True
    if r == "dead":
        return False
    st = [s for s, _ in f.edges(ab)]
    while st:
        n = st.pop()
        if n in seen:
            continue
        seen.add(n)
        r = scan(n, 0)
        if r == "hit":
            return True
        if r == "dead":
            continue
        st.extend(s for s, _ in f.edges(n))
    return False


def _use_after(f, c, name):
    """first read of local `name` reachable from just after event c without re-assignment."""
    pos = flow.elem_pos(f)
    cb, ci = c
    seen = set()

    def scan(bid, start):
        for j in f.blocks[bid].elems[start:]:
            e = f.exprs[j]
            if e["k"] == "cast" and e["ck"] == "LValueToRValue":
                x = f.exprs[e["c"][0]]
                if x["k"] == "ref" and x.get("name") == name:
                    return j
            if flow.is_event(f, j) and _writes_local(f, j, name):
                return "dead"
        return None
    r = scan(cb, pos[ci][1] + 1)
    if r == "dead":
        return None
    if r is not None:
        return r
    st = [s for s, _ in f.edges(cb)]
    while st:
        n = st.pop()
        if n in seen:
            continue
        seen.add(n)
        r = scan(n, 0)
        if r == "dead":
            continue
        if r is not None:
            return r
        st.extend(s for s, _ in f.edges(n))
    return None


def _trigger_unlinked_before_free(ctx, run):
    """RF-UAF: the deferred-trigger list hangs off vbi->triggers; it is walked on every frame
    (vbi_deferred_trigger) and flushed when the TRIGGER service is re-activated by a handler
    registration or on a channel switch.  Every free() of a list node is preceded, in the same
    step, by the store that takes the node out of the list (`... = t->next` into the link that
    pointed at it): a flush that frees the nodes but keeps the head lets the next frame walk
    freed records."""
    P = ctx.prog
    n = 0
    for f in P.funcs:
        if f.file != "src/trigger.c":
            continue
        for bid, i in flow.all_events(f):
            e = f.exprs[i]
            if not (e["k"] == "call" and e.get("callee") == "free" and e.get("c")):
                continue
            a = f.exprs[ex.skip(f, e["c"][0])]
            while a["k"] == "cast":
                a = f.exprs[ex.skip(f, a["c"][0])]
            if a["k"] != "ref" or "vbi_trigger" not in (a.get("t") or ""):
                continue
            n += 1
            run.touch(f)
            node = a["name"]
            ok = False
            blk = f.blocks[bid].elems
            for j in blk[:blk.index(i)]:
                if not flow.is_event(f, j):
                    continue
                for lhs, var, op, rhs in flow.stores(f, j):
                    if lhs is None or rhs is None or op != "=":
                        continue
                    r = f.exprs[ex.skip(f, rhs)]
                    while r["k"] == "cast":
                        r = f.exprs[ex.skip(f, r["c"][0])]
                    l = f.exprs[ex.skip(f, lhs)]
                    if r["k"] == "mem" and r["member"] == "next" and f.exprs[ex.skip(f, r["c"][0])].get("name") == node \
                            and l["k"] in ("mem", "un"):
                        ok = True       # link (a field or *tp) := node->next
            key = "RF-UAF:%s:trigger-unlinked-before-free" % f.name
            if ok:
                run.holds("RF-UAF", key, "`%s` follows the store that takes the node out of the list" % ex.pretty(f, i), ex.loc(f, i))
            else:
                run.violation("RF-UAF", key, "%s() frees a deferred-trigger node (`%s`) without first storing its successor into the "
                              "link that points at it: the list (vbi->triggers) keeps a pointer to the freed record and "
                              "vbi_deferred_trigger() reads it on the next frame" % (f.name, ex.pretty(f, i)), ex.loc(f, i))
    run.floor("frees of deferred-trigger nodes", n, 3)


def _network_event_typed_at_send(ctx, run):
    """RF-DEP: vbi->network is one persistent event record used for both NETWORK and NETWORK_ID
    announcements (and zeroed by resets and re-activations).  Every vbi_send_event (vbi,
    &vbi->network) is preceded, with no other send in between, by the store that gives it its
    type in the same basic block - otherwise it goes out with whatever type the record had last
    (0 after a reset: delivered to nobody; NETWORK after a change: to the wrong handlers)."""
    P = ctx.prog
    n = 0
    for f in P.funcs:
        if not f.file.startswith("src/"):
            continue
        for bid, b in f.blocks.items():
            typed = False
            for i in b.elems:
                if not flow.is_event(f, i):
                    continue
                for lhs, var, op, rhs in flow.stores(f, i):
                    if lhs is not None and ex.pretty(f, lhs).replace(" ", "").endswith("->network.type"):
                        typed = True
                e = f.exprs[i]
                if e["k"] == "call" and e.get("callee") == "vbi_send_event" and len(e.get("c", [])) > 1 \
                        and ex.pretty(f, e["c"][1]).replace(" ", "").endswith("&vbi->network"):
                    n += 1
                    run.touch(f)
                    key = "RF-DEP:%s:network-event-typed@%d" % (f.name, f.exprs[i]["line"])
                    if typed:
                        run.holds("RF-DEP", key, "the record's type is stored right before the send", ex.loc(f, i))
                    else:
                        run.violation("RF-DEP", key, "%s() sends the persistent network record without having set its type since the "
                                      "previous send (or at all on this path): the event goes out with a stale type - 0 after a "
                                      "reset, so no handler receives it" % f.name, ex.loc(f, i))
                    typed = False
    run.floor("sends of the persistent network record", n, 6)
