"""C19 — proxy daemon vs. faulty clients; single token holder."""
from .. import absint, atoms, ex, flow, ivl, loops, typestate
from ..prog import AnalysisBroken

CLAUSE = ("(RF-TAB) vbi_proxyd_check_msg has an explicit case for every VBIPROXY_MSG_TYPE enumerator; every type it can accept is "
          "dispatched by vbi_proxyd_take_message and vice versa; for each accepted type the union member whose sizeof is "
          "validated is at least as large as every body member the handler reads; (RF-TAINT/RF-IVL) a client-supplied strictness "
          "reaches the per-strictness service array only through a clamp to [VBI_MIN_STRICT, VBI_MAX_STRICT] at every call of "
          "vbi_proxyd_take_service_req; in vbi_proxy_msg_handle_read an illegal length cannot reach the second read phase (its "
          "assertion and its recv length); (RF-STATE) every store of a non-NONE token state is made on an object whose prior state "
          "is known to be non-NONE on that path (it already is the unique owner), except the one grant site, where the previous "
          "owner is set to NONE on every path on which there is one; (RF-DOM) a protocol error (read error, bad message, message "
          "in the wrong state) reaches vbi_proxyd_close for that client; a client's queued frames are drained before a service "
          "update that may stop acquisition and free the queue.")
CLAUSE = CLAUSE + (" (RF-STATE) a client known to be in a holder state (GRANTED, RECLAIM, RELEASE) is moved to a state in which the "
                   "token counts as free only in the confirmed handlers of that client's own messages; (RF-LOCK) every daemon "
                   "function releases what it locked, never locks a mutex it holds, and the lock order is acyclic.")
CLAUSE = CLAUSE + (" (RF-NULL) every call of a capture function that asserts or dereferences its context is made with p_capture "
                   "under a dominating p_capture != NULL test (p_capture is NULL while no client has requested a service).")
CLAUSE = CLAUSE + (" vbi_proxy_queue_release_all resets the queue cursor only of clients of its own device; the token states at or "
                   "above REQ_TOKEN_GRANTED (REQ_CONTROLS_CHN) are exactly GRANTED and RETURNED.")
NOT_DECIDED = "service to the other clients after a fault (liveness), timeouts, the scheduler's fairness."

UNIT = "daemon/proxyd.c"
F_TOK = "VBIPROXY_CHN_STATE.token_state"


def run(ctx, run):
    P = ctx.prog
    chk = P.need("vbi_proxyd_check_msg", UNIT)
    take = P.need("vbi_proxyd_take_message", UNIT)
    _tables(ctx, run, chk, take)
    _strict(ctx, run, take)
    _handle_read(ctx, run, P.need("vbi_proxy_msg_handle_read", "src/proxy-msg.c"))
    _schedule_candidates(ctx, run, P.need("vbi_proxyd_channel_schedule", "daemon/proxyd.c"))
    _owner_states(ctx, run, P.need("vbi_proxyd_get_token_owner", "daemon/proxyd.c"))
    _idle_means_nothing_received(ctx, run, P.need("vbi_proxy_msg_is_idle", "src/proxy-msg.c"))
    _partial_read_asserts(ctx, run)
    _token_states(ctx, run)
    _grant_site(ctx, run, P.need("vbi_proxyd_token_grant", UNIT))
    _errors_close(ctx, run, P.need("vbi_proxyd_handle_client_sockets", UNIT))
    _drain_before_update(ctx, run, take)
    _holder_leaves_by_own_message(ctx, run)
    _capture_null_discipline(ctx, run)
    _release_all_own_device(ctx, run)
    _controls_channel_set(ctx, run)
    _one_message_per_idle_pass(ctx, run, P.need("vbi_proxyd_handle_client_sockets", UNIT))
    _removed_client_reschedules(ctx, run, P.need("vbi_proxyd_handle_client_sockets", UNIT))
    _force_free_spares_nobody(ctx, run, P.need("vbi_proxy_queue_force_free", UNIT))
    _started_read_is_finished_first(ctx, run, P.need("vbi_proxyd_get_fd_set", UNIT))
    # 'nor stops serving': a mutex taken twice or kept at a return blocks the daemon for everybody (shared with C18)
    from . import C18
    C18.lock_discipline(ctx, run)


# --------------------------------------------------------------------------
    from .. import sweep, fieldinv
    inv = fieldinv.Invariants(ctx, [
        dict(rec="PROXY_CLNT_s", field="dev_idx", lo=0, hi=3, why="index into proxy.dev[SRV_MAX_DEVICES]"),
        dict(rec="global:proxy", field="dev_count", lo=0, hi=4, why="number of used entries of proxy.dev[SRV_MAX_DEVICES]")])
    if inv.missing:
        raise AnalysisBroken("declared daemon invariants on vanished fields: %s" % inv.missing)
    inv.install()
    inv.verify(run)
    sweep.run(ctx, run, [UNIT, "src/proxy-msg.c"], {}, 70)

def _switch_on(f, field_member):
    for bid, b in f.blocks.items():
        t = b.term
        if t and t["kind"] == "SwitchStmt":
            o = atoms.Operand(f, t["cond"])
            if any(x.endswith("." + field_member) for x in o.fields):
                return bid
    return None


def _case_targets(f, bid):
    """{value: successor block} and the default successor of a switch block."""
    cases, default = {}, None
    for s, lab in f.edges(bid):
        if isinstance(lab, tuple):
            for v in range(lab[1], lab[2] + 1):
                cases[v] = s
        else:
            default = s
    return cases, default


def _tables(ctx, run, chk, take):
    P = ctx.prog
    run.touch(chk)
    run.touch(take)
    en = P.enums.get("VBIPROXY_MSG_TYPE")
    if not en:
        raise AnalysisBroken("enum VBIPROXY_MSG_TYPE not found")
    names = {v: k for k, v in en["enumerators"].items()}
    top = max(names)
    if names[top].endswith("_COUNT"):
        del names[top]                 # the sentinel that counts the enumerators is not a message type
    sw = _switch_on(chk, "type")
    sw2 = _switch_on(take, "type")
    if sw is None or sw2 is None:
        raise AnalysisBroken("message type switch not found")
    cases, default = _case_targets(chk, sw)
    missing = [names[v] for v in sorted(names) if v not in cases]
    key = "RF-TAB:check_msg:exhaustive"
    if missing:
        run.violation("RF-TAB", key, "vbi_proxyd_check_msg has no explicit case for %s: a new message type is silently rejected or "
                      "accepted unchecked" % ", ".join(missing), "%s:%d" % (chk.file, chk.line))
    else:
        run.holds("RF-TAB", key, "explicit case for all %d message types" % len(names), "%s:%d" % (chk.file, chk.line))
    # types that can be accepted: the case's code can store a non-zero `result`
    an = ctx.analysis(chk)
    accepted = {}
    for v, blk in cases.items():
        if _may_accept(chk, blk, sw):
            accepted[v] = _validated_member(chk, blk, sw)
    cases2, default2 = _case_targets(take, sw2)
    for v in sorted(accepted):
        key = "RF-TAB:dispatch:%s" % names[v]
        if v not in cases2:
            # falls into take_message's default: FALSE, the connection is closed - safe; (MSG_TYPE_DAEMON_PID_CNF is
            # accepted by check_msg for the daemon's own --kill client)
            run.note("%s passes vbi_proxyd_check_msg and is rejected by the default case of vbi_proxyd_take_message" % names[v])
            continue
        # union members read by the handler
        reads = _body_members_read(take, cases2[v], sw2)
        vm = accepted[v]
        sz = lambda m: (P.field("VBIPROXY_MSG_BODY", m) or {}).get("size")
        bad = [m for m in reads if vm is None or (sz(m) or 0) > (sz(vm) or 0)]
        if bad:
            run.violation("RF-TAB", key, "%s: the handler reads body.%s (%s bytes) but vbi_proxyd_check_msg validated the length "
                          "against %s (%s bytes): fields beyond the received message are read"
                          % (names[v], bad[0], sz(bad[0]), "body.%s" % vm if vm else "the header only", sz(vm) if vm else 0),
                          "%s:%d" % (take.file, take.line))
        else:
            run.holds("RF-TAB", key, "%s: length validated against %s, handler reads %s" % (names[v], "body." + vm if vm else "header only",
                      ", ".join("body." + m for m in sorted(reads)) or "no body field"), "%s:%d" % (take.file, take.line))
    for v in sorted(cases2):
        if v not in accepted:
            run.violation("RF-TAB", "RF-TAB:dispatch:%s:unchecked" % names.get(v, v), "vbi_proxyd_take_message handles %s which "
                          "vbi_proxyd_check_msg never accepts (dead or unchecked path)" % names.get(v, v), "%s:%d" % (take.file, take.line))
    run.floor("message types accepted by check_msg", len(accepted), 9)


def _case_region(f, blk, sw):
    """Blocks of one case body: from the case label until a break leaves the switch."""
    seen = set()
    st = [blk]
    while st:
        n = st.pop()
        if n in seen:
            continue
        seen.add(n)
        b = f.blocks[n]
        if b.term and b.term["kind"] == "BreakStmt":
            continue
        for s, lab in f.edges(n):
            if s == f.exit:
                continue
            st.append(s)
        if len(seen) > 400:
            break
    return seen


def _may_accept(f, blk, sw):
    for b in _case_region(f, blk, sw):
        for i in flow.events(f, b):
            for lhs, var, op, rhs in flow.stores(f, i):
                if lhs is None or rhs is None:
                    continue
                l = f.exprs[ex.skip(f, lhs)]
                if l["k"] == "ref" and l["name"] == "result":
                    v = ex.const(f, rhs)
                    if v is None or v != 0:
                        return True
    return False


def _validated_member(f, blk, sw):
    """Union member whose sizeof appears in the length comparison of the case."""
    best = None
    for b in _case_region(f, blk, sw):
        for i in f.blocks[b].elems:
            e = f.exprs[i]
            if e["k"] == "sizeof" and "uneval" in e:
                u = f.exprs[ex.skip(f, e["uneval"])]
                if u["k"] == "mem" and u.get("in") == "VBIPROXY_MSG_BODY":
                    best = u["member"]
            if e["k"] == "mem" and e.get("in") == "VBIPROXY_MSG_BODY" and best is None:
                best = e["member"]
    return best


def _body_members_read(f, blk, sw):
    res = set()
    for b in _case_region(f, blk, sw):
        for i in f.blocks[b].elems:
            e = f.exprs[i]
            if e["k"] == "mem" and e.get("in") == "VBIPROXY_MSG_BODY":
                # reads through the received message (pBody / pMsg), not the reply buffer being filled
                r = ex.root(f, i)
                if r is not None and f.exprs[r].get("dk") in ("local", "param") and "msg_buf" not in (ex.path(f, i) or ""):
                    res.add(e["member"])
    return res


# --------------------------------------------------------------------------

def _strict(ctx, run, take):
    P = ctx.prog
    an = ctx.analysis(take)
    lo = P.enum_consts.get("VBI_MIN_STRICT")
    hi = P.enum_consts.get("VBI_MAX_STRICT")
    tsr = P.need("vbi_proxyd_take_service_req", UNIT)
    # bounds of the service array from its declaration
    fld = P.field("PROXY_CLNT_s", "services")
    if not fld or "arr" not in fld:
        raise AnalysisBroken("PROXY_CLNT.services array not found")
    n = fld["arr"][0]
    # the access inside take_service_req: *(req->services + new_strict - VBI_MIN_STRICT); derive the
    # admissible range of the parameter from the constant offset and the array length
    off = None
    pname = tsr.params[2]["name"]
    for node, nn, base, terms in ivl.pointer_subscripts(tsr):
        if tsr.exprs[base].get("member") != "services":
            continue
        k, has_param = 0, False
        for sign, t in terms:
            c = ex.const(tsr, t)
            te = tsr.exprs[ex.skip(tsr, t)]
            while te["k"] == "cast":
                te = tsr.exprs[ex.skip(tsr, te["c"][0])]
            if c is not None:
                k += sign * c
            elif te.get("name") == pname and sign > 0:
                has_param = True
            else:
                has_param = None
                break
        if has_param:
            off = k
            n = nn
    for node, nn, base in ivl.subscripts(tsr):
        pass
    if off is None:
        raise AnalysisBroken("vbi_proxyd_take_service_req: the access services + strict - MIN was not found")
    allowed = (-off, n - 1 - off)
    calls = [i for b, i in flow.all_events(take) if take.exprs[i]["k"] == "call" and take.exprs[i].get("callee") == "vbi_proxyd_take_service_req"]
    run.floor("vbi_proxyd_take_service_req call sites", len(calls), 2)
    for i in calls:
        st = an.state_before_expr(i)
        arg = take.exprs[i]["c"][2]
        iv = an.eval(st, arg)
        o = atoms.Operand(take, arg)
        member = sorted(x for x in o.fields if x.startswith("VBIPROXY_") and x.endswith(".strict"))
        key = "RF-TAINT:take_message:%s" % (member[0] if member else ex.pretty(take, arg))
        if absint.within(iv, allowed):
            run.holds("RF-TAINT", key, "`%s` is in %s at the call (clamped), services[] admits %s" % (ex.pretty(take, arg), iv, allowed), ex.loc(take, i))
        else:
            run.violation("RF-TAINT", key, "the client-supplied `%s` reaches vbi_proxyd_take_service_req with interval %s; it indexes "
                          "req->services[strict - %d] (%d elements, admissible %s): out-of-bounds read-modify-write chosen by the client"
                          % (ex.pretty(take, arg), iv, -off, n, allowed), ex.loc(take, i),
                          witness={"argument": ex.pretty(take, arg), "interval": iv, "admissible": allowed})


def _removed_client_reschedules(ctx, run, f):
    """A closed connection may have held the channel token.  Between the unlink of its record and the free of the
    record the channel scheduler runs (vbi_proxyd_channel_update) on every path - the only way around it is the edge on
    which the device is not open (p_capture == NULL).  In particular it does not depend on whether the client had any
    services: a pure channel-control client holds the token with services == 0."""
    run.touch(f)
    frees = [(b, i) for b, i in flow.all_events(f) if f.exprs[i]["k"] == "call" and f.exprs[i].get("callee") == "free"]
    n = 0
    for fb, fi in frees:
        # the CLOSED branch this free belongs to
        ats = atoms.atoms_at(f, fi)
        if not any(a.cmp_const("==", "PROXY_CLNT_s.state", ctx.prog.enum_consts.get("REQ_STATE_CLOSED")) for a in ats):
            continue
        n += 1
        head = None
        for src, lab, cond in flow.dominating_edges(f, fb):
            if cond is not None and any(a.cmp_const("==", "PROXY_CLNT_s.state", ctx.prog.enum_consts.get("REQ_STATE_CLOSED"))
                                         for a in atoms.atoms_of(f, cond, lab == "T", src, lab)):
                head = [s2 for s2, l2 in f.edges(src) if l2 == lab][0]
        if head is None:
            continue
        upd = {b for b, i in flow.all_events(f) if f.exprs[i]["k"] == "call" and f.exprs[i].get("callee") == "vbi_proxyd_channel_update"}
        seen, st, reached = set(), [head], False
        while st:
            b = st.pop()
            if b in seen or b in upd:
                continue
            seen.add(b)
            if b == fb:
                reached = True
                break
            for s2, lab in f.edges(b):
                if lab in ("T", "F") and any(a.rel == "==" and a.R is not None and a.R.const == 0 and a.L.has("PROXY_DEV.p_capture")
                                              for a in atoms.edge_atoms(f, b, lab)):
                    continue
                st.append(s2)
        key = "RF-DOM:%s:removed-client-reschedules" % f.name
        if reached:
            run.violation("RF-DOM", key, "a closed connection is removed (`%s`) on a path that by-passes vbi_proxyd_channel_update() "
                          "although the device is open: when the client held the channel token - e.g. a channel-control client "
                          "without services - the token is never passed on and the waiting clients starve"
                          % ex.pretty(f, fi)[:40], ex.loc(f, fi), witness={"function": f.name})
        else:
            run.holds("RF-DOM", key, "between the CLOSED test and `%s` every path runs the channel scheduler unless the device is closed"
                      % ex.pretty(f, fi)[:40], ex.loc(f, fi))
    run.floor("removals of closed connections", n, 1)


def _one_message_per_idle_pass(ctx, run, f):
    """vbi_proxy_msg_write() asserts that no message is being written (writeLen == 0).  Once a client's connection was
    found idle the daemon queues at most one message for it - a reclaim request, a token indication, a channel change
    indication or a frame - before it goes on to the next client: no path from the idle test reaches a second write.
    Path-sensitive exploration of the region behind the idle test; flags (locals that are only assigned literals) which
    carry the mutual exclusion are followed."""
    run.touch(f)
    WRITERS = ("vbi_proxy_msg_write", "vbi_proxyd_send_sliced")
    n = sum(1 for b, i in flow.all_events(f) if f.exprs[i]["k"] == "call" and f.exprs[i].get("callee") in WRITERS)
    run.floor("message writes in vbi_proxyd_handle_client_sockets", n, 3)
    starts = []
    for bid, b in f.blocks.items():
        t = b.term
        if t and "cond" in t and any(f.exprs[m]["k"] == "call" and f.exprs[m].get("callee") == "vbi_proxy_msg_is_idle"
                                      for m in ex.walk(f, t["cond"])):
            for s2, lab in f.edges(bid):
                if any(a.call_cmp("vbi_proxy_msg_is_idle", "!=", 0) for a in atoms.edge_atoms(f, bid, lab)):
                    starts.append(s2)
    if not starts:
        raise AnalysisBroken("vbi_proxyd_handle_client_sockets: the idle test was not found")
    # the loop variable: first argument of the idle call
    loopv = None
    for m, e in enumerate(f.exprs):
        if e["k"] == "call" and e.get("callee") == "vbi_proxy_msg_is_idle" and e.get("c"):
            r = ex.root(f, e["c"][0])
            loopv = f.exprs[r]["name"] if r is not None else None

    def stores_loopv(i):
        return any(lhs is not None and f.exprs[ex.skip(f, lhs)]["k"] == "ref" and f.exprs[ex.skip(f, lhs)].get("name") == loopv
                   for lhs, var, op, rhs in flow.stores(f, i))
    region = set()
    st = list(starts)
    while st:
        b = st.pop()
        if b in region:
            continue
        region.add(b)
        if any(stores_loopv(i) for i in flow.events(f, b)):
            continue
        st.extend(s2 for s2, _ in f.edges(b))
    lit, other = set(), set()
    for b in region:
        for i in flow.events(f, b):
            for lhs, var, op, rhs in flow.stores(f, i):
                nm = var["name"] if var is not None else None
                if nm is None and lhs is not None and f.exprs[ex.skip(f, lhs)]["k"] == "ref" and f.exprs[ex.skip(f, lhs)].get("dk") == "local":
                    nm = f.exprs[ex.skip(f, lhs)]["name"]
                if nm is None:
                    continue
                (lit if (rhs is not None and op == "=" and ex.const(f, rhs) is not None) else other).add(nm)
    flags = sorted(lit - other)[:6]
    second = None
    seen = set()
    work = [(s0, 0, frozenset()) for s0 in starts]
    steps = 0
    while work and second is None and steps < 200000:
        steps += 1
        b, cnt, fv = work.pop()
        if (b, cnt, fv) in seen or b not in region:
            continue
        seen.add((b, cnt, fv))
        vals = dict(fv)
        ended = False
        for i in flow.events(f, b):
            e = f.exprs[i]
            if e["k"] == "call" and e.get("callee") in WRITERS:
                if cnt >= 1:
                    second = i
                    break
                # vbi_proxyd_send_sliced() writes and flushes: when it returns unblocked the message is gone and the
                # next frame may follow (the forwarding loop); a plain vbi_proxy_msg_write() leaves the message queued
                if e.get("callee") == "vbi_proxy_msg_write":
                    cnt = 1
            if stores_loopv(i):
                ended = True
                break
            for lhs, var, op, rhs in flow.stores(f, i):
                nm = var["name"] if var is not None else None
                if nm is None and lhs is not None and f.exprs[ex.skip(f, lhs)]["k"] == "ref":
                    nm = f.exprs[ex.skip(f, lhs)]["name"]
                if nm in flags and rhs is not None:
                    vals[nm] = ex.const(f, rhs)
        if second is not None or ended:
            continue
        t = f.blocks[b].term
        for s2, lab in f.edges(b):
            if t and "cond" in t and lab in ("T", "F"):
                skip_edge = False
                for nm in flags:
                    ft = atoms._flag_test(f, t["cond"], nm)
                    if ft is not None and nm in vals and vals[nm] is not None:
                        truth = bool(vals[nm]) == ft
                        if truth != (lab == "T"):
                            skip_edge = True
                if skip_edge:
                    continue
            work.append((s2, cnt, frozenset(vals.items())))
    key = "RF-STATE:%s:one-message-per-idle-pass" % f.name
    if second is not None:
        run.violation("RF-STATE", key, "a path from the idle test queues a message and then reaches `%s` as well: the second "
                      "vbi_proxy_msg_write() fails its assertion writeLen == 0 and the daemon aborts - every client is cut off"
                      % ex.pretty(f, second)[:70], ex.loc(f, second), witness={"function": f.name, "second_write": ex.pretty(f, second)[:80]})
    else:
        run.holds("RF-STATE", key, "no path from the idle test queues two messages for one client (%d blocks, flags %s)"
                  % (len(region), flags), "%s:%d" % (f.file, f.line))


def _handle_read(ctx, run, f):
    run.touch(f)
    # the edge on which the length was found illegal
    bad_edges = []
    for bid, b in f.blocks.items():
        t = b.term
        if not t or "cond" not in t:
            continue
        for s, lab in f.edges(bid):
            for a in atoms.edge_atoms(f, bid, lab):
                if a.L.has("VBIPROXY_MSG_STATE.readLen") and a.rel in (">", "<") and a.R is not None and \
                        (a.R.const is not None or a.R.locals):
                    # the failing edge of an assert on the length is a sink, not the validation
                    if any(f.exprs[x]["k"] == "call" and f.exprs[x].get("callee") == "__assert_fail" for x in f.blocks[s].elems):
                        continue
                    bad_edges.append((bid, s, a))
    if not bad_edges:
        raise AnalysisBroken("vbi_proxy_msg_handle_read: length validation not found")
    # sinks of phase two: recv with a length computed from readLen, and the assertion on readLen
    sinks = []
    for bid, i in flow.all_events(f):
        e = f.exprs[i]
        if e["k"] == "call" and e.get("callee") == "recv" and len(e.get("c", [])) >= 3:
            if "VBIPROXY_MSG_STATE.readLen" in atoms.Operand(f, e["c"][2]).fields:
                sinks.append((bid, i, "recv (..., readLen - readOff)"))
    for bid, i, msg in ivl.assert_sites(f):
        cond, lab = ivl.assert_condition(f, bid)
        if cond is not None and "VBIPROXY_MSG_STATE.readLen" in atoms.Operand(f, cond).fields and "max_read_len" in ex.pretty(f, cond):
            sinks.append((bid, i, "assert (%s)" % msg))
    # the accepted upper bound is the capacity itself, the very value phase two asserts
    ups = [(src, a) for src, s2, a in bad_edges if a.rel == ">"]
    if not ups:
        raise AnalysisBroken("vbi_proxy_msg_handle_read: upper length test not found")
    for src, a in ups:
        j = ex.skip(f, a.R.node) if a.R.node is not None else None
        while j is not None and f.exprs[j]["k"] == "cast":
            j = ex.skip(f, f.exprs[j]["c"][0])
        key = "RF-TAB:vbi_proxy_msg_handle_read:length-bound-is-capacity"
        if j is not None and f.exprs[j]["k"] == "ref" and f.exprs[j].get("dk") == "param":
            run.holds("RF-TAB", key, "the length is rejected when it exceeds `%s`, the same bound the second read phase asserts"
                      % f.exprs[j]["name"], ex.loc(f, a.L.node))
        else:
            run.violation("RF-TAB", key, "phase one accepts lengths up to `%s` but phase two asserts readLen <= max_read_len (the "
                          "size of the message buffer): a client announcing a length in between aborts the daemon"
                          % ex.pretty(f, a.R.node)[:60], ex.loc(f, a.L.node), witness={"accepted_bound": ex.pretty(f, a.R.node)})
    run.floor("phase-two sinks of the message length", len(sinks), 2)
    # From the store of the client's length every path to a sink has to take an edge on which the length is known to
    # be legal (readLen <= capacity and readLen >= header size).  Decided by cutting those edges out of the CFG: the
    # sinks must then be unreachable from the store.  (An edge-cut, not "the failing edge cannot reach the sink": the
    # test may as well be evaluated into a flag first and branched on later.)
    F_LEN = "VBIPROXY_MSG_STATE.readLen"
    stores_len = [(b_, i_) for b_, i_ in flow.all_events(f) for lhs, var, op, rhs in flow.stores(f, i_)
                  if lhs is not None and rhs is not None and f.exprs[ex.skip(f, lhs)]["k"] == "mem"
                  and f.exprs[ex.skip(f, lhs)]["member"] == "readLen" and ex.const(f, rhs) is None]
    if not stores_len:
        raise AnalysisBroken("vbi_proxy_msg_handle_read: the store of the received length was not found")

    def cut_reach(start, need_upper):
        seen, st = set(), [start]
        while st:
            n = st.pop()
            if n in seen:
                continue
            seen.add(n)
            for s2, lab in f.edges(n):
                ats = atoms.edge_atoms(f, n, lab) if lab in ("T", "F") else []
                up = any(a.L.has(F_LEN) and a.rel in ("<=", "<") and a.R is not None and (a.R.locals or a.R.const is not None) for a in ats)
                lo = any(a.L.has(F_LEN) and a.rel in (">=", ">") and a.R is not None and a.R.const is not None and a.R.const >= 1 for a in ats)
                if (up if need_upper else lo):
                    continue
                st.append(s2)
        return seen
    for bid, i, what in sinks:
        reach = None
        for sb, si in stores_len:
            for need_upper in (True, False):
                if bid in cut_reach(sb, need_upper):
                    reach = "readLen <= capacity" if need_upper else "readLen >= header size"
        key = "RF-TAINT:vbi_proxy_msg_handle_read:%s" % what.split(" ")[0]
        if reach is not None:
            run.violation("RF-TAINT", key, "a path from the store of the client's length reaches `%s` without passing an edge on "
                          "which `%s` holds: an oversized length aborts the daemon, an undersized one makes readLen - readOff wrap "
                          "and recv() write past the message buffer" % (what, reach), ex.loc(f, i),
                          witness={"sink": what, "missing_fact": reach})
        else:
            run.holds("RF-TAINT", key, "`%s` is reachable from the store of the received length only through edges on which the "
                      "length is within [header size, capacity]" % what, ex.loc(f, i))


def _partial_read_asserts(ctx, run):
    """The I/O helpers that assert 'no message is half read' may be called by
    the daemon only where that is established: a client decides when the
    second half of its message arrives."""
    P = ctx.prog
    F_OFF, F_LEN = "VBIPROXY_MSG_STATE.readOff", "VBIPROXY_MSG_STATE.readLen"
    guarded = {}
    for g in P.funcs:
        if g.file != "src/proxy-msg.c":
            continue
        for bid, i, msg in ivl.assert_sites(g):
            cond, lab = ivl.assert_condition(g, bid)
            if cond is None:
                continue
            full = g.blocks[[b for b in g.blocks if g.blocks[b].term and g.blocks[b].term.get("cond") == cond][0]].term.get("cond_full", cond) \
                if any(g.blocks[b].term and g.blocks[b].term.get("cond") == cond for b in g.blocks) else cond
            o = atoms.Operand(g, full)
            if F_OFF in o.fields and F_LEN in o.fields and g.name != "vbi_proxy_msg_handle_read":
                guarded[g.name] = msg
    n = 0
    for f in P.funcs:
        if f.unit != UNIT:
            continue
        for bid, i in flow.all_events(f):
            e = f.exprs[i]
            if e["k"] == "call" and e.get("callee") in guarded:
                n += 1
                run.touch(f)
                ats = atoms.atoms_at(f, i)
                ok = any(a.rel == "==" and a.R is not None and ((a.L.has(F_OFF) and a.R.has(F_LEN)) or (a.L.has(F_LEN) and a.R.has(F_OFF)))
                         for a in ats)
                key = "RF-TAINT:%s:%s-while-half-read" % (f.name, e["callee"])
                if ok:
                    run.holds("RF-TAINT", key, "%s () is called only after `readOff == readLen` was established" % e["callee"], ex.loc(f, i))
                else:
                    run.violation("RF-TAINT", key, "%s () asserts `%s`, but %s calls it for every client on every pass: a client that "
                                  "has sent only part of a message aborts the daemon" % (e["callee"], guarded[e["callee"]], f.name),
                                  ex.loc(f, i), witness={"assert": guarded[e["callee"]], "caller": f.name})
    run.extra["half_read_asserting_helpers"] = sorted(guarded)
    if not guarded:
        run.holds("RF-TAINT", "RF-TAINT:proxy-msg:no-half-read-asserts", "no proxy-msg.c helper asserts on the read progress of a "
                  "connection any more: a half-read message is an ordinary state", "src/proxy-msg.c", nontrivial=False)


# --------------------------------------------------------------------------

def _token_states(ctx, run):
    P = ctx.prog
    NONE = P.enum_consts.get("REQ_TOKEN_NONE")
    GRANT = P.enum_consts.get("REQ_TOKEN_GRANT")
    names = {v: k for k, v in P.enums.get("REQ_TOKEN_STATE", {"enumerators": {}})["enumerators"].items()}
    n = 0
    grant_sites = 0
    for f in P.funcs:
        if f.unit != UNIT:
            continue
        for bid, i in flow.all_events(f):
            for lhs, var, op, rhs in flow.stores(f, i):
                if lhs is None:
                    continue
                l = f.exprs[ex.skip(f, lhs)]
                if not (l["k"] == "mem" and "%s.%s" % (l.get("in"), l["member"]) == F_TOK):
                    continue
                v = ex.const(f, rhs) if rhs is not None else None
                if v == NONE:
                    continue
                n += 1
                run.touch(f)
                path = ex.path(f, lhs)
                ats = atoms.atoms_at(f, i)
                prior = []
                for a in ats:
                    if a.L.node is not None and ex.path(f, a.L.node) == path and a.R is not None and a.R.const is not None:
                        prior.append((a.rel, a.R.const))
                nonnone = any((rel == "==" and c != NONE) or (rel == "!=" and c == NONE) or (rel == ">" and c >= NONE) or (rel == ">=" and c > NONE)
                              for rel, c in prior)
                is_none = any(rel == "==" and c == NONE for rel, c in prior)
                owner_obj = _is_token_owner_result(f, lhs)
                key = "RF-STATE:%s:%s->%s" % (f.name, "/".join(sorted({names.get(c, str(c)) for rel, c in prior if rel == "=="})) or
                                              ("owner" if owner_obj else "?"), names.get(v, str(v)))
                if is_none and v == GRANT and f.name == "vbi_proxyd_token_grant":
                    grant_sites += 1
                    run.holds("RF-STATE", key, "the grant site (NONE -> GRANT), checked separately", ex.loc(f, i), nontrivial=False)
                elif nonnone or owner_obj:
                    run.holds("RF-STATE", key, "`%s`: the object already is the (unique) non-NONE client on this path" % ex.pretty(f, i)[:60],
                              ex.loc(f, i))
                else:
                    run.violation("RF-STATE", key, "`%s` makes a client a token owner (state %s) without knowing that it already is the "
                                  "owner (no dominating test of its token_state): a second non-NONE client appears and "
                                  "vbi_proxyd_get_token_owner() asserts" % (ex.pretty(f, i)[:70], names.get(v, v)), ex.loc(f, i),
                                  witness={"function": f.name, "store": ex.pretty(f, i), "prior_known": prior})
    run.floor("non-NONE token state stores", n, 8)
    run.floor("grant sites", grant_sites, 1)


def _is_token_owner_result(f, lhs):
    """The object is a local assigned from vbi_proxyd_get_token_owner () and
    tested non-NULL on the path."""
    r = ex.root(f, lhs)
    if r is None:
        return False
    name = f.exprs[r].get("name")
    ok = False
    for bid, i in flow.all_events(f):
        for l2, var, op, rhs in flow.stores(f, i):
            nm = var["name"] if var is not None else (f.exprs[ex.skip(f, l2)].get("name") if l2 is not None and f.exprs[ex.skip(f, l2)]["k"] == "ref" else None)
            if nm == name and rhs is not None:
                rr = f.exprs[ex.skip(f, rhs)]
                if rr["k"] == "call" and rr.get("callee") == "vbi_proxyd_get_token_owner":
                    ok = True
                else:
                    return False
    return ok


class _GrantSpec:
    """After `req->token_state = GRANT` (prior NONE): the previous owner must be
    reset to NONE unless it is known to be NULL."""

    def __init__(self, owner):
        self.owner = owner
        self.memo = {}

    def call(self, eng, f, eid, e, S, K):
        return [(S, None)]

    def store(self, eng, f, eid, lhs, var, op, rhs, S, K):
        if lhs is None:
            return S
        l = f.exprs[ex.skip(f, lhs)]
        if l["k"] == "mem" and "%s.%s" % (l.get("in"), l["member"]) == F_TOK:
            r = ex.root(f, lhs)
            who = f.exprs[r].get("name") if r is not None else None
            v = ex.const(f, rhs) if rhs is not None else None
            if who != self.owner and v == self.GRANT and S == "idle":
                # only the NONE -> GRANT transition creates a new owner
                path = ex.path(f, lhs)
                prior_none = any(a.rel == "==" and a.R is not None and a.R.const == self.NONE and a.L.node is not None
                                 and ex.path(f, a.L.node) == path for a in atoms.atoms_at(f, eid))
                if prior_none:
                    # no previous owner on this path: the lookup result was found NULL in front of the store
                    if any(a.rel == "==" and a.R is not None and a.R.const == 0 and a.L.locals == {self.owner} and not a.L.fields
                           and not a.L.calls for a in atoms.atoms_at(f, eid)):
                        return "done"
                    return "granted"
            if who == self.owner and v == self.NONE and S == "granted":
                return "done"
        return S

    def branch(self, eng, f, cond, truth, S, K):
        if S == "granted":
            for a in atoms.atoms_of(f, cond, truth):
                if a.rel == "==" and a.R is not None and a.R.const == 0 and self.owner in a.L.locals and not a.L.fields:
                    return "done"
        return S


def _grant_site(ctx, run, f):
    P = ctx.prog
    run.touch(f)
    owner = None
    for bid, i in flow.all_events(f):
        for lhs, var, op, rhs in flow.stores(f, i):
            if rhs is not None and f.exprs[ex.skip(f, rhs)].get("callee") == "vbi_proxyd_get_token_owner":
                owner = var["name"] if var is not None else f.exprs[ex.skip(f, lhs)].get("name")
    if owner is None:
        raise AnalysisBroken("vbi_proxyd_token_grant: owner lookup not found")
    sp = _GrantSpec(owner)
    sp.NONE = P.enum_consts.get("REQ_TOKEN_NONE")
    sp.GRANT = P.enum_consts.get("REQ_TOKEN_GRANT")
    eng = typestate.Engine(ctx, sp, f, ["idle"])
    # the owner may be NULL: seed the knowledge split at the branch itself (learned from the conditions)
    eng.run()
    bad = [ret for rv, S, ret in eng.outcomes() if S == "granted"]
    # a path that knows p_owner == NULL when granting is fine: handled by branch(); but the test usually precedes the store:
    # re-check with the dominating atoms of the store
    key = "RF-STATE:vbi_proxyd_token_grant:previous-owner-reset"
    if bad:
        # was p_owner == NULL already known at the grant store?
        run.violation("RF-STATE", key, "a path grants the token (req: NONE -> GRANT) and returns while the previous owner `%s` may be "
                      "non-NULL and keeps its non-NONE state: two clients hold the channel-control token" % owner,
                      "%s:%d" % (f.file, f.line), witness={"function": f.name, "owner_variable": owner})
    else:
        run.holds("RF-STATE", key, "on every path that grants the token the previous owner is NULL or is set to NONE before the "
                  "function returns", "%s:%d" % (f.file, f.line))


# --------------------------------------------------------------------------

def _errors_close(ctx, run, f):
    run.touch(f)
    n = 0
    for callee in ("vbi_proxy_msg_handle_read", "vbi_proxyd_check_msg", "vbi_proxyd_take_message", "vbi_proxy_msg_handle_write"):
        for bid, b in f.blocks.items():
            t = b.term
            if not t or "cond" not in t:
                continue
            for s, lab in f.edges(bid):
                for a in atoms.edge_atoms(f, bid, lab):
                    if a.call_cmp(callee, "==", 0):
                        n += 1
                        # first event on the failing edge must be the close of this client (before anything else uses it)
                        hit = atoms.reaches(f, s, atoms.call_to("vbi_proxyd_close"), avoid=())
                        ok = hit is not None and _straight_to(f, s, hit)
                        key = "RF-DOM:handle_client_sockets:%s-failure-closes" % callee
                        if ok:
                            run.holds("RF-DOM", key, "the failing edge of %s () leads straight to vbi_proxyd_close (req)" % callee, ex.loc(f, hit))
                        else:
                            run.violation("RF-DOM", key, "a failure of %s () does not close that client's connection: the daemon keeps "
                                          "a half-read or desynchronised message stream" % callee, "%s:%d" % (f.file, t.get("line", f.line)))
    run.floor("protocol-error edges in vbi_proxyd_handle_client_sockets", n, 4)


def _straight_to(f, blk, call):
    """From block blk the call is reached without passing another branch."""
    pos = flow.elem_pos(f)[call][0]
    n = blk
    for _ in range(6):
        if n == pos:
            return True
        es = f.edges(n)
        if len(es) != 1:
            return False
        n = es[0][0]
    return False


def _drain_before_update(ctx, run, f):
    P = ctx.prog
    FORWARD = P.enum_consts.get("REQ_STATE_FORWARD")
    calls = [(b, i) for b, i in flow.all_events(f) if f.exprs[i]["k"] == "call" and f.exprs[i].get("callee") == "vbi_proxyd_take_service_req"]
    n = 0
    for b, i in calls:
        ats = atoms.atoms_at(f, i)
        if not any(a.cmp_const("==", "PROXY_CLNT_s.state", FORWARD) for a in ats):
            continue          # a client that is only now connecting has no queued frames
        n += 1
        ok = False
        for head, body in loops.natural_loops(f).items():
            t = f.blocks[head].term
            if not t or "cond" not in t or "PROXY_CLNT_s.p_sliced" not in atoms.Operand(f, t["cond"]).fields:
                continue
            if not any(f.exprs[x]["k"] == "call" and f.exprs[x].get("callee") == "vbi_proxy_queue_release_sliced"
                       for bb in body for x in flow.events(f, bb)):
                continue
            # the loop exit dominates the call
            for s, lab in f.edges(head):
                if s not in body and (s == b or flow.dominates(f, s, b)):
                    ok = True
        key = "RF-DOM:take_message:drain-before-service-update"
        if ok:
            run.holds("RF-DOM", key, "the client's frame queue is drained (`while (req->p_sliced) release`) before "
                      "vbi_proxyd_take_service_req, which may stop acquisition and free every queued buffer", ex.loc(f, i))
        else:
            run.violation("RF-DOM", key, "vbi_proxyd_take_service_req is called for a forwarding client whose frame queue has not been "
                          "drained first: if the update stops acquisition the queue buffers are freed while req->p_sliced still points "
                          "at them (use after free)", ex.loc(f, i), witness={"function": f.name})
    run.floor("service updates of forwarding clients", n, 1)


def _schedule_candidates(ctx, run, f):
    """The scheduler may select (and thereby hand the channel token to) only clients of that device
    that hold a valid channel request at background priority."""
    run.touch(f)
    n = 0
    need = [("same device (dev_idx == dev_idx)", lambda a: a.rel == "==" and any(x.endswith(".dev_idx") for x in a.L.fields)),
            ("a valid channel request (chn_profile.is_valid)", lambda a: a.rel == "!=" and a.R is not None and a.R.const == 0
             and any(x.endswith(".is_valid") for x in a.L.fields)),
            ("background priority", lambda a: a.rel == "==" and any(x.endswith(".chn_prio") for x in a.L.fields))]
    for bid, i in flow.all_events(f):
        e = f.exprs[i]
        if e["k"] != "asg" or e["op"] != "=":
            continue
        l = f.exprs[ex.skip(f, e["c"][0])]
        if not (l["k"] == "ref" and l.get("name") == "p_sched") or ex.is_null(f, e["c"][1]):
            continue
        n += 1
        ats = atoms.atoms_at(f, i)
        missing = [nm for nm, p in need if not any(p(a) for a in ats)]
        key = "RF-DOM:vbi_proxyd_channel_schedule:candidate"
        if missing:
            run.violation("RF-DOM", key, "`%s` selects a client for the channel token without: %s - a client that never asked for "
                          "channel control (or withdrew its request) is granted the token and the real requesters are refused"
                          % (ex.pretty(f, i), "; ".join(missing)), ex.loc(f, i), witness={"dominating": [repr(a) for a in ats]})
        else:
            run.holds("RF-DOM", key, "selection dominated by same device, valid request, background priority", ex.loc(f, i))
    run.floor("scheduler selection sites", n, 5)


def _owner_states(ctx, run, f):
    P = ctx.prog
    run.touch(f)
    states = {k: v for k, v in P.enum_consts.items() if k.startswith("REQ_TOKEN_")}
    if len(states) < 5:
        raise AnalysisBroken("token state enumerators not found")
    none = states["REQ_TOKEN_NONE"]
    store = None
    for bid, i in flow.all_events(f):
        e = f.exprs[i]
        if e["k"] == "asg" and e["op"] == "=" and f.exprs[ex.skip(f, e["c"][0])].get("name") == "p_owner" and not ex.is_null(f, e["c"][1]):
            store = (bid, i)
    if store is None:
        raise AnalysisBroken("vbi_proxyd_get_token_owner: the owner assignment was not found")
    bid, i = store
    vals = set()
    for sb, b in f.blocks.items():
        t = b.term
        if t and t.get("kind") == "SwitchStmt" and "token_state" in ex.pretty(f, t["cond"]):
            for succ, lab in f.edges(sb):
                if isinstance(lab, tuple) and bid in flow.reach_from(f, succ, avoid=(sb,)):
                    vals.update(range(lab[1], lab[2] + 1))
    want = set(states.values()) - {none}
    key = "RF-TAB:vbi_proxyd_get_token_owner:owner-states"
    if vals == want:
        run.holds("RF-TAB", key, "a client is the token owner in every state but NONE (%d states)" % len(vals), ex.loc(f, i))
    else:
        names = {v: k for k, v in states.items()}
        run.violation("RF-TAB", key, "the token owner is recognised in states %s; missing %s, unexpected %s: a holder in a missing state "
                      "is invisible, the token is granted again and two clients control the channel"
                      % (sorted(names.get(v, v) for v in vals), sorted(names.get(v, v) for v in want - vals),
                         sorted(names.get(v, v) for v in vals - want)), ex.loc(f, i))


def _idle_means_nothing_received(ctx, run, f):
    run.touch(f)
    flds = set()
    for bid, i in flow.all_events(f):
        e = f.exprs[i]
        if e["k"] == "ret" and e.get("c"):
            flds |= {x.split(".")[-1] for x in atoms.Operand(f, e["c"][0]).fields}
    key = "RF-DEP:vbi_proxy_msg_is_idle:reads-readOff"
    if "readOff" in flds and "writeLen" in flds:
        run.holds("RF-DEP", key, "idle = nothing being written and no byte of a message received yet (readOff)", "%s:%d" % (f.file, f.line))
    else:
        run.violation("RF-DEP", key, "vbi_proxy_msg_is_idle decides on %s: readLen is only set once the whole 8 byte header has "
                      "arrived, so a connection holding 1 ... 7 header bytes counts as idle and the next write to it trips "
                      "vbi_proxy_msg_write's assertion - the daemon aborts" % sorted(flds), "%s:%d" % (f.file, f.line))


# a client in one of these states has the token in its hands (GRANTED), or is about to be / has
# been asked to give it back (RECLAIM, RELEASE); in the others it does not hold it
HOLDER = ("REQ_TOKEN_GRANTED", "REQ_TOKEN_RECLAIM", "REQ_TOKEN_RELEASE")
GIVEN_UP = {("vbi_proxyd_take_message", "REQ_TOKEN_RELEASE", "REQ_TOKEN_NONE"):
            "CHN_RECLAIM_CNF from that client: it confirms that it gave the token back",
            ("vbi_proxyd_token_grant", "REQ_TOKEN_RELEASE", "REQ_TOKEN_GRANT"):
            "the holder itself asks for the token again while its release is pending"}


def _holder_leaves_by_own_message(ctx, run):
    """RF-STATE: a client known to be in a holder state (GRANTED, RECLAIM, RELEASE) is moved to
    a state in which the scheduler treats the token as free (NONE, RETURNED, GRANT) only where a
    message from that very client is being handled (the confirmed instances above).  Doing it
    where the daemon merely *sent* the reclaim request hands the token to the next client while
    the holder is still silent - two clients hold it."""
    P = ctx.prog
    names = {v: k for k, v in P.enums.get("REQ_TOKEN_STATE", {"enumerators": {}})["enumerators"].items()}
    n = 0
    used = set()
    for f in P.funcs:
        if f.unit != UNIT:
            continue
        for bid, i in flow.all_events(f):
            for lhs, var, op, rhs in flow.stores(f, i):
                if lhs is None:
                    continue
                l = f.exprs[ex.skip(f, lhs)]
                if not (l["k"] == "mem" and "%s.%s" % (l.get("in"), l["member"]) == F_TOK):
                    continue
                new = names.get(ex.const(f, rhs)) if rhs is not None else None
                path = ex.path(f, lhs)
                prior = {names.get(a.R.const) for a in atoms.atoms_at(f, i)
                         if a.rel == "==" and a.L.node is not None and ex.path(f, a.L.node) == path and a.R is not None
                         and a.R.const is not None}
                prior = {p for p in prior if p in HOLDER}
                if not prior or new is None or new in HOLDER:
                    continue
                n += 1
                run.touch(f)
                for p in sorted(prior):
                    key = "RF-STATE:%s:holder:%s->%s" % (f.name, p, new)
                    why = GIVEN_UP.get((f.name, p, new))
                    if why:
                        used.add((f.name, p, new))
                        run.holds("RF-STATE", key, "confirmed instance: %s" % why, ex.loc(f, i))
                    else:
                        run.violation("RF-STATE", key, "%s() moves a client from %s (it has the token) to %s, a state in which the "
                                      "scheduler gives the token to the next client, at a place where no message of that client is "
                                      "being handled: the token is granted again while the holder has neither returned it nor "
                                      "confirmed the reclaim" % (f.name, p, new), ex.loc(f, i),
                                      witness={"function": f.name, "from": p, "to": new})
    for k in GIVEN_UP:
        if k not in used:
            raise AnalysisBroken("confirmed token transition %s -> %s in %s() no longer found" % (k[1], k[2], k[0]))
    run.floor("holder -> free transitions of the token state", n, 2)


CAPTURE_RUNNING = {"vbi_proxyd_forward_data": "called only for a device whose descriptor is in the select set or from its acquisition "
                   "thread; both exist only between vbi_proxy_start_acquisition and vbi_proxy_stop_acquisition, i.e. while "
                   "p_capture is non-NULL"}


def _capture_null_discipline(ctx, run):
    """RF-NULL (contradiction rule): PROXY_DEV.p_capture is NULL whenever no client has requested a
    service - a state any client can produce and keep while sending requests.  The capture API is
    split into functions that tolerate a NULL context (vbi_capture_fd, _get_scanning, _delete)
    and functions that assert or dereference it; each call of the latter kind with p_capture is
    dominated by a p_capture != NULL test (some sites test, so the others must)."""
    P = ctx.prog

    def tolerant(g):
        pn = g.params[0]["name"]
        pos = flow.elem_pos(g)
        for i, e in enumerate(g.exprs):
            if e["k"] == "mem" and pos.get(i):
                r = ex.root(g, i)
                if r is not None and g.exprs[r].get("name") == pn:
                    if not any(a.rel == "!=" and a.R is not None and a.R.const == 0 and pn in a.L.locals and not a.L.fields
                               for a in atoms.atoms_at(g, i)):
                        return False
        return not any(g.exprs[i]["k"] == "call" and g.exprs[i].get("callee") == "__assert_fail" for _, i in flow.all_events(g))
    n = n_intol = 0
    used = set()
    for f in P.funcs:
        if f.unit != UNIT:
            continue
        for bid, i in flow.all_events(f):
            e = f.exprs[i]
            if not (e["k"] == "call" and (e.get("callee") or "").startswith("vbi_capture_") and e.get("c")
                    and ex.pretty(f, e["c"][0]).endswith("p_capture")):
                continue
            n += 1
            g = P.func_for(f, e["callee"])
            if g is None:
                raise AnalysisBroken("%s: definition not found" % e["callee"])
            if tolerant(g):
                continue
            n_intol += 1
            run.touch(f)
            key = "RF-NULL:%s:%s" % (f.name, e["callee"])
            guarded = any(a.rel == "!=" and a.R is not None and a.R.const == 0 and a.L.has("PROXY_DEV.p_capture")
                          for a in atoms.atoms_at(f, i))
            if guarded:
                run.holds("RF-NULL", key, "`%s` is dominated by p_capture != NULL" % ex.pretty(f, i)[:50], ex.loc(f, i))
            elif f.name in CAPTURE_RUNNING:
                used.add(f.name)
                run.holds("RF-NULL", key, "TRUSTED: %s" % CAPTURE_RUNNING[f.name], ex.loc(f, i), nontrivial=False)
            else:
                run.violation("RF-NULL", key, "%s() calls %s (p_capture) without a dominating p_capture != NULL test; %s asserts / "
                              "dereferences its context, and p_capture is NULL while no client has a service (a client that "
                              "connected with services == 0 can trigger this request): the daemon aborts for all clients"
                              % (f.name, e["callee"], e["callee"]), ex.loc(f, i), witness={"function": f.name, "callee": e["callee"]})
    run.floor("capture API calls on p_capture in the daemon", n, 12)
    run.floor("calls of NULL-intolerant capture functions", n_intol, 6)


def _release_all_own_device(ctx, run):
    """RF-DOM: vbi_proxy_queue_release_all (dev_idx) returns the frames queued on *one* device to
    its free list; only the clients of that device may lose their queue cursor (`req->p_sliced =
    NULL` under req->dev_idx == dev_idx).  Resetting the cursor of another device's client orphans
    the frames it had not been sent yet (non-zero ref_count, never released) - frames are lost
    and vbi_proxy_queue_release_sliced() later asserts."""
    P = ctx.prog
    f = P.need("vbi_proxy_queue_release_all", UNIT)
    run.touch(f)
    pn = f.params[0]["name"]
    n = 0
    for bid, i in flow.all_events(f):
        for lhs, var, op, rhs in flow.stores(f, i):
            if lhs is None:
                continue
            l = f.exprs[ex.skip(f, lhs)]
            if not (l["k"] == "mem" and l["member"] == "p_sliced" and l.get("in") in ("PROXY_CLNT_s", "PROXY_CLNT")):
                continue
            n += 1
            ok = any(a.rel == "==" and a.L.has("PROXY_CLNT_s.dev_idx") or (a.rel == "==" and a.R is not None and a.R.has("PROXY_CLNT_s.dev_idx"))
                     for a in atoms.atoms_at(f, i))
            key = "RF-DOM:vbi_proxy_queue_release_all:own-device"
            if ok:
                run.holds("RF-DOM", key, "`%s` only for clients of device %s" % (ex.pretty(f, i)[:40], pn), ex.loc(f, i))
            else:
                run.violation("RF-DOM", key, "`%s` is not confined to the clients of device `%s`: a flush on one device takes the queue "
                              "cursor away from the clients of every other device; their undelivered frames are orphaned (lost "
                              "frames, then a failed assertion in vbi_proxy_queue_release_sliced)" % (ex.pretty(f, i)[:40], pn),
                              ex.loc(f, i))
    run.floor("client cursor resets in vbi_proxy_queue_release_all", n, 1)


def _controls_channel_set(ctx, run):
    """RF-TAB: REQ_CONTROLS_CHN (X) is `X >= REQ_TOKEN_GRANTED`: it depends on the order of the
    REQ_TOKEN_STATE enumerators.  The states at or above GRANTED are exactly {GRANTED, RETURNED}
    (the client switched or may switch the channel); RECLAIM and RELEASE - holders that have been
    or will be asked to give the token back - lie below, or the scheduler counts them as active,
    vbi_proxyd_channel_stopped() resets them to NONE and the token is granted again while the
    holder has not confirmed."""
    P = ctx.prog
    en = P.enums.get("REQ_TOKEN_STATE")
    if not en:
        raise AnalysisBroken("enum REQ_TOKEN_STATE not found")
    vals = en["enumerators"]
    g = vals.get("REQ_TOKEN_GRANTED")
    if g is None:
        raise AnalysisBroken("REQ_TOKEN_GRANTED not found")
    above = {k for k, v in vals.items() if v >= g}
    key = "RF-TAB:REQ_TOKEN_STATE:controls-channel"
    want = {"REQ_TOKEN_GRANTED", "REQ_TOKEN_RETURNED"}
    if above == want:
        run.holds("RF-TAB", key, "states >= REQ_TOKEN_GRANTED: %s" % sorted(above), UNIT)
    else:
        run.violation("RF-TAB", key, "the enumerators at or above REQ_TOKEN_GRANTED are %s, expected %s: REQ_CONTROLS_CHN (X) = "
                      "(X >= REQ_TOKEN_GRANTED) now also holds for %s, so the scheduler treats a holder that is being asked to give "
                      "the token back as the active client and frees the token without its confirmation"
                      % (sorted(above), sorted(want), sorted(above - want) or sorted(want - above)), UNIT,
                      witness={"enum": vals})


def _force_free_spares_nobody(ctx, run, f):
    """When the pool of frame buffers is exhausted the daemon takes the oldest frame away from *every* client that still
    has to read it; that is what keeps one stalled or hostile client from starving the others.  Inside the client loop of
    vbi_proxy_queue_force_free() the release may therefore depend on nothing but 'this client's cursor stands on the head
    frame'.  A further condition (socket state, pending write, client state) spares some client, which then pins the head
    buffer for as long as it likes: no buffer is ever free again and all clients stop receiving data."""
    run.touch(f)
    L = loops.natural_loops(f)
    n = 0
    for bid, i in flow.all_events(f):
        e = f.exprs[i]
        if not (e["k"] == "call" and e.get("callee") == "vbi_proxy_queue_release_sliced"):
            continue
        head = loops.innermost(f, bid)
        if head is None:
            continue
        body = L[head]
        n += 1
        extra = []
        for a in atoms.atoms_at(f, i):
            if a.src is None or a.src not in body or a.src == head:
                continue
            flds = set(a.L.fields) | (set(a.R.fields) if a.R is not None else set())
            calls = set(a.L.calls) | (set(a.R.calls) if a.R is not None else set())
            if not calls and flds and all(x.endswith(".p_sliced") for x in flds):
                continue
            extra.append(repr(a))
        key = "RF-DOM:vbi_proxy_queue_force_free:spares-nobody"
        if extra:
            run.violation("RF-DOM", key, "inside the client loop `%s` also depends on %s: a client for which that does not hold keeps "
                          "its reference to the head frame, the forced release frees nothing and - with the pool exhausted - no "
                          "client receives data any more" % (ex.pretty(f, i)[:50], "; ".join(extra)[:120]), ex.loc(f, i),
                          witness={"function": f.name, "extra_conditions": extra})
        else:
            run.holds("RF-DOM", key, "the forced release depends only on the client's cursor standing on the head frame", ex.loc(f, i))
    run.floor("forced releases inside the client loop of vbi_proxy_queue_force_free", n, 1)


def _started_read_is_finished_first(ctx, run, f):
    """One message at a time per client: when the first part of a request has been received, the daemon finishes
    reading it before it writes to that client again - the main loop then selects that socket for reading only.  In
    vbi_proxyd_get_fd_set() every store into the write set is therefore dominated by `vbi_proxy_msg_read_idle (&req->io)`
    having said "idle".  If queued data takes precedence, a client that stalls in the middle of a request is served
    frames for ever and its half-read request (token release, close) is never acted on."""
    run.touch(f)
    if len(f.params) < 2:
        raise AnalysisBroken("vbi_proxyd_get_fd_set: signature changed")
    wr = f.params[1]["name"]
    n = 0
    def base_of(node, depth=0):
        """(is the write set, [(cond node, truth)]) for the object an lvalue designates."""
        j = ex.skip(f, node)
        e = f.exprs[j]
        if depth > 12:
            return False, []
        if e["k"] == "ref":
            return (e.get("name") == wr and e.get("dk") == "param"), []
        if e["k"] == "cond" and len(e.get("c", [])) == 3:
            a1, c1 = base_of(e["c"][1], depth + 1)
            a2, c2 = base_of(e["c"][2], depth + 1)
            if a1 and not a2:
                return True, c1 + [(e["c"][0], True)]
            if a2 and not a1:
                return True, c2 + [(e["c"][0], False)]
            return (a1 and a2), []
        if e.get("c"):
            return base_of(e["c"][0], depth + 1)
        return False, []
    for bid, i in flow.all_events(f):
        hit, conds = False, []
        for lhs, var, op, rhs in flow.stores(f, i):
            if lhs is None:
                continue
            h, cs = base_of(lhs)
            if h:
                hit, conds = True, cs
        if not hit:
            continue
        n += 1
        ats = list(atoms.atoms_at(f, i))
        for cnode, truth in conds:
            ats.extend(atoms.atoms_of(f, cnode, truth, bid, None))
        ok = any(a.call_cmp("vbi_proxy_msg_read_idle", "!=", 0) for a in ats)
        key = "RF-DOM:vbi_proxyd_get_fd_set:write-set-only-when-read-idle@%d" % n
        if ok:
            run.holds("RF-DOM", key, "the client socket enters the write set only when no message read is in progress", ex.loc(f, i))
        else:
            run.violation("RF-DOM", key, "a client socket is put into the write set although a read of a message may be in progress "
                          "(not dominated by vbi_proxy_msg_read_idle () != FALSE): the daemon keeps writing to a client whose "
                          "request it has received only in part, and that request is never completed", ex.loc(f, i),
                          witness={"function": f.name})
    run.floor("stores into the write fd_set in vbi_proxyd_get_fd_set", n, 1)
