"""C06 — DVB VBI mux/demux: data-unit table agreement (RF-TAB), frame boundary
for sliced units, rejected frames leave no output state behind."""
from .. import atoms, ex, flow, loops
from ..prog import AnalysisBroken

CLAUSE = ("(RF-TAB) the data-unit table the multiplexer writes (insert_sliced_data_units: service mask -> data_unit_id, unit size, "
          "payload byte count, bit reversal) and the table the demultiplexer reads (extract_data_units: data_unit_id -> service, "
          "minimum data_unit_length, payload byte count, bit reversal) are extracted from the code and agree: every id the mux "
          "emits has a demux case whose service intersects the mux's mask, copies the same number of payload bytes with the same "
          "bit order, and requires at most the length the mux writes; (RF-DOM) in line_address a sliced data unit whose line "
          "number does not exceed the last one never joins the current frame (only a continuing raw segment may); (RF-CORR) every "
          "failing exit of vbi_dvb_mux_cor after generate_pes_packet clears the pending-output window (cor_end), and vbi_dvb_mux_feed "
          "calls the output callback only after generate_pes_packet succeeded with the whole frame consumed.")
CLAUSE = CLAUSE + (" In generate_pes_packet, once raw_samples_left was set from the caller's line length (before anything was "
                   "copied into the multiplexer's own sample buffer) every path to an exit - the failing ones included - assigns "
                   "it again (to 0 or to what was really saved): a rejected raw line leaves no claim on stale samples, so the "
                   "multiplexer stays usable; on the demultiplexer side every constant offset read through the header pointer in "
                   "the PES header validation is below the look-ahead the wrap-around buffer guarantees (PES_HEADER_LOOKAHEAD), "
                   "so a header split across input chunks is judged on bytes that have arrived.")
CLAUSE = CLAUSE + (" (RF-DEP, path-sensitive zero-ness valuations) in demux_ts_packet every copy that may bring ts_pes_todo to zero "
                   "(PES packet complete) is followed by the header examination or an explicit discard before the collecting cursor is "
                   "rewound for the next PES packet - also when the whole TS packet was already in the synchronisation buffer.")
CLAUSE = CLAUSE + (" samples_pointer() advances a second-field row of a sequential raw frame by count[0], the size of the first field.")
CLAUSE = CLAUSE + (" Every advance of the PES collecting cursor ts_pes_bp is paired, in the same step, with the countdown of ts_pes_todo by the same amount.")
CLAUSE = CLAUSE + (" (bit provenance) every PTS bit is stored by encode_timestamp at exactly the (byte, bit) decode_timestamp takes it from (formerly: same shift per byte, same mask on byte "
                   "0); last_line follows only lines with a known position (s->line > 0).")
CLAUSE = CLAUSE + (" The demultiplexer's own frame buffer takes every line address a frame can carry (line_offset mask x field parity).")
CLAUSE = CLAUSE + (" A refused vbi_dvb_mux_set_data_identifier() call has stored nothing through mx; the demultiplexer's line-order state "
                   "(last_frame_line) is only ever reset or set to the number of a transmitted line.")
NOT_DECIDED = ("PES/TS header layout, PTS encoding, size rounding to 184 and stuffing arithmetic, that demux (mux (x)) == x as values, "
               "conformance to EN 300 472 / EN 301 775 beyond the table.")

MUX, DEMUX = "src/dvb_mux.c", "src/dvb_demux.c"


def run(ctx, run):
    P = ctx.prog
    fm = P.need("insert_sliced_data_units", MUX)
    fd = P.need("extract_data_units", DEMUX)
    run.touch(fm)
    run.touch(fd)
    M = _mux_table(ctx, fm)
    D = _demux_table(ctx, fd)
    names = {v: k for k, v in P.enum_consts.items() if k.startswith("DATA_UNIT_")}
    run.extra["mux_table"] = {names.get(k, hex(k)): v for k, v in M.items()}
    run.extra["demux_table"] = {names.get(k, hex(k)): v for k, v in D.items()}
    run.floor("data unit ids written by the multiplexer", len(M), 4)
    run.floor("data unit ids handled by the demultiplexer", len(D), 6)
    for uid, m in sorted(M.items()):
        nm = names.get(uid, hex(uid))
        key = "RF-TAB:data-unit:%s" % nm
        d = D.get(uid)
        if d is None:
            run.violation("RF-TAB", key, "the multiplexer emits data_unit_id %s but extract_data_units has no case for it" % nm,
                          "%s:%d" % (fd.file, fd.line))
            continue
        problems = []
        if not (d["services"] and any(s & m["mask"] for s in d["services"])):
            problems.append("demux assigns service(s) %s, mux encodes services in mask 0x%x" % ([hex(x) for x in d["services"]], m["mask"]))
        if d["bytes"] != m["bytes"]:
            problems.append("mux copies %d payload bytes, demux copies %d" % (m["bytes"], d["bytes"]))
        if d["rev8"] != m["rev8"]:
            problems.append("bit order: mux %s vbi_rev8, demux %s" % ("applies" if m["rev8"] else "does not apply", "applies" if d["rev8"] else "does not apply"))
        if m.get("du_size") is not None and d.get("min_len") is not None and d["min_len"] > m["du_size"] - 2:
            problems.append("demux requires data_unit_length >= %d, mux writes %d" % (d["min_len"], m["du_size"] - 2))
        if m.get("du_size") is not None and m["du_size"] - 2 < 1 + m["bytes"] + m.get("extra", 0):
            problems.append("mux unit size %d cannot hold line byte + %d payload bytes" % (m["du_size"], m["bytes"]))
        if d.get("min_len") is not None and d["min_len"] < 1 + d["bytes"] + d.get("extra", 0):
            problems.append("demux reads %d payload bytes but accepts data_unit_length >= %d only" % (d["bytes"], d["min_len"]))
        if problems:
            run.violation("RF-TAB", key, "%s: %s" % (nm, "; ".join(problems)), "%s:%d" % (fd.file, fd.line),
                          witness={"mux": m, "demux": d})
        else:
            run.holds("RF-TAB", key, "%s: mask 0x%x <-> service %s, %d payload byte(s), %s, unit length %s >= demux minimum %s"
                      % (nm, m["mask"], [hex(x) for x in d["services"]], m["bytes"], "bit-reversed" if m["rev8"] else "plain",
                         m.get("du_size") and m["du_size"] - 2, d.get("min_len")), "%s:%d" % (fm.file, fm.line))
    _frame_boundary(ctx, run, P.need("line_address", DEMUX))
    _cor_failure(ctx, run, P.need("vbi_dvb_mux_cor", MUX))
    _feed_callback(ctx, run, P.need("vbi_dvb_mux_feed", MUX))
    _raw_left_consistent(ctx, run, P.need("generate_pes_packet", MUX))
    _data_identifier_sets(ctx, run)
    _frame_capacity(ctx, run)
    _header_lookahead(ctx, run)
    _rejection_traceless(ctx, run, P.need("vbi_dvb_mux_feed", MUX))
    _refused_setter_traceless(ctx, run)
    _line_order_state(ctx, run)
    _second_field_offset(ctx, run, P.need("samples_pointer", MUX))
    _timestamp_layout(ctx, run)
    _last_line_under_positive(ctx, run, fm)
    # TS round trip: a completed PES packet is examined on every path (rule shared with C07)
    from . import C07
    C07._complete_packet_examined(ctx, run, P.need("demux_ts_packet", DEMUX))
    C07._cursor_and_count_together(ctx, run, P.need("demux_ts_packet", DEMUX))


def _store_idx(f, lhs, base_name):
    """(const index | ('loop', offset, var)) when lhs is base[...]; else None."""
    l = f.exprs[ex.skip(f, lhs)]
    if l["k"] != "idx":
        return None
    b = f.exprs[ex.skip(f, l["c"][0])]
    while b["k"] == "cast":
        b = f.exprs[ex.skip(f, b["c"][0])]
    if base_name is not None and not (b["k"] in ("ref",) and b.get("name") == base_name):
        if not (b["k"] == "mem" and b.get("member") == base_name):
            return None
    k = ex.const(f, l["c"][1])
    if k is not None:
        return k
    ie = f.exprs[ex.skip(f, l["c"][1])]
    if ie["k"] == "bin" and ie["op"] == "+":
        c = ex.const(f, ie["c"][0])
        v = f.exprs[ex.skip(f, ie["c"][1])]
        if c is None:
            c = ex.const(f, ie["c"][1])
            v = f.exprs[ex.skip(f, ie["c"][0])]
        if c is not None and v["k"] == "ref":
            return ("loop", c, v["name"])
    if ie["k"] == "ref":
        return ("loop", 0, ie["name"])
    return None


def _loop_bound(f, bid, var):
    h = loops.innermost(f, bid)
    if h is None:
        return None
    t = f.blocks[h].term
    if not t or "cond" not in t:
        return None
    c = f.exprs[ex.skip(f, t["cond"])]
    if c["k"] == "bin" and c["op"] == "<" and f.exprs[ex.skip(f, c["c"][0])].get("name") == var:
        return ex.const(f, c["c"][1])
    return None


def _payload_stores(f, blocks, dst_base, src_member):
    """Count payload bytes stored into dst_base[...] from <x>->src_member[...] (or
    the other way round) in the given blocks.  Returns (bytes, rev8, first_index)."""
    n, rev, first = 0, None, None
    for b in blocks:
        for i in flow.events(f, b):
            e = f.exprs[i]
            for lhs, var, op, rhs in flow.stores(f, i):
                if lhs is None or rhs is None:
                    continue
                k = _store_idx(f, lhs, dst_base)
                if k is None:
                    continue
                o = atoms.Operand(f, rhs)
                if not any(x.endswith("." + src_member) for x in o.fields) and src_member not in o.locals:
                    continue
                r8 = "vbi_rev8" in o.calls
                if isinstance(k, tuple):
                    nb = _loop_bound(f, b, k[2])
                    if nb is None:
                        raise AnalysisBroken("%s: loop bound of a payload copy not found" % f.name)
                    n += nb
                    first = k[1] if first is None else min(first, k[1])
                else:
                    n += 1
                    first = k if first is None else min(first, k)
                rev = r8 if rev is None else (rev and r8)
            if e["k"] == "call" and e.get("callee") in ("memcpy", "__builtin___memcpy_chk", "__builtin_memcpy"):
                od, os_ = atoms.Operand(f, e["c"][0]), atoms.Operand(f, e["c"][1])
                dst_ok = any(x.endswith("." + dst_base) for x in od.fields) or dst_base in od.locals
                src_ok = any(x.endswith("." + src_member) for x in os_.fields) or src_member in os_.locals
                if dst_ok and src_ok:
                    c = ex.const(f, e["c"][2])
                    if c is not None:
                        n += c
                        rev = False if rev is None else False
    return n, bool(rev), first


def _dominated_by_edge(f, src, lab):
    res = set()
    for b in f.blocks:
        for s2, l2, c2 in flow.dominating_edges(f, b):
            if s2 == src and l2 == lab:
                res.add(b)
    return res


def _mux_table(ctx, f):
    P = ctx.prog
    pbase = None
    table = {}
    # du_size per service case
    du = {}
    size_var = None
    for bid, i in flow.all_events(f):
        for lhs, var, op, rhs in flow.stores(f, i):
            if lhs is not None and rhs is not None and _store_idx(f, lhs, None) == 1:
                r = f.exprs[ex.skip(f, rhs)]
                while r["k"] == "cast":
                    r = f.exprs[ex.skip(f, r["c"][0])]
                if r["k"] == "bin" and r["op"] == "-" and ex.const(f, r["c"][1]) == 2:
                    size_var = f.exprs[ex.skip(f, r["c"][0])].get("name")
    if size_var is None:
        raise AnalysisBroken("insert_sliced_data_units: `p[1] = du_size - 2` not found")
    for bid, b in f.blocks.items():
        t = b.term
        if t and t["kind"] == "SwitchStmt" and "vbi_sliced.id" in atoms.Operand(f, t["cond"]).fields:
            from .C19 import _case_targets, _case_region
            cases, default = _case_targets(f, bid)
            for v, blk in cases.items():
                for rb in _case_region(f, blk, bid):
                    for i in flow.events(f, rb):
                        for lhs, var, op, rhs in flow.stores(f, i):
                            if lhs is not None and f.exprs[ex.skip(f, lhs)]["k"] == "ref" and op == "=" and ex.const(f, rhs) is not None \
                                    and f.exprs[ex.skip(f, lhs)].get("name") == size_var:
                                du.setdefault(v, ex.const(f, rhs))
    for bid, i in flow.all_events(f):
        for lhs, var, op, rhs in flow.stores(f, i):
            if lhs is None or rhs is None or op != "=":
                continue
            if _store_idx(f, lhs, None) != 0:
                continue
            v = ex.const(f, rhs)
            mac = f.exprs[ex.skip(f, rhs)].get("mac", "") or ""
            if v is None or not any(k.startswith("DATA_UNIT_") and val == v for k, val in P.enum_consts.items()):
                continue
            l = f.exprs[ex.skip(f, lhs)]
            pbase = f.exprs[ex.skip(f, l["c"][0])].get("name")
            # the branch: (s->id & MASK) != 0
            mask, edge = None, None
            for a in atoms.atoms_at(f, i):
                if a.rel == "!=" and a.R is not None and a.R.const == 0 and a.L.has("vbi_sliced.id"):
                    ne = f.exprs[a.L.node]
                    if ne["k"] == "bin" and ne["op"] == "&":
                        c = ex.const(f, ne["c"][0])
                        c = c if c is not None else ex.const(f, ne["c"][1])
                        if c is not None:
                            mask, edge = c, (a.src, a.lab)
                            break
            if mask is None:
                raise AnalysisBroken("insert_sliced_data_units: service test of data unit 0x%x not found" % v)
            region = _dominated_by_edge(f, edge[0], edge[1])
            nbytes, rev, first = _payload_stores(f, region, pbase, "data")
            # framing code byte etc. written before the payload
            extra = (first - 3) if first is not None else 0
            sizes = {s for cv, s in du.items() if cv & mask}
            table[v] = {"mask": mask, "bytes": nbytes, "rev8": rev, "extra": extra,
                        "du_size": (sizes.pop() if len(sizes) == 1 else None)}
    return table


def _demux_table(ctx, f):
    P = ctx.prog
    from .C19 import _case_targets, _case_region
    sw = None
    for bid, b in f.blocks.items():
        t = b.term
        if t and t["kind"] == "SwitchStmt" and "data_unit_id" in atoms.Operand(f, t["cond"]).locals:
            sw = bid
    if sw is None:
        raise AnalysisBroken("extract_data_units: switch (data_unit_id) not found")
    cases, default = _case_targets(f, sw)
    table = {}
    by_blk = {}
    for v, blk in cases.items():
        by_blk.setdefault(blk, []).append(v)
    for blk, vals in by_blk.items():
        region = _case_region(f, blk, sw)
        services = set()
        min_len = None
        for rb in region:
            t = f.blocks[rb].term
            if t and "cond" in t:
                for s, lab in f.edges(rb):
                    for a in atoms.edge_atoms(f, rb, lab):
                        if a.rel == "<" and a.R is not None and a.R.const is not None and "data_unit_length" in a.L.locals and not a.L.fields:
                            min_len = a.R.const if min_len is None else max(min_len, a.R.const)
            for i in flow.events(f, rb):
                for lhs, var, op, rhs in flow.stores(f, i):
                    if lhs is None or rhs is None:
                        continue
                    l = f.exprs[ex.skip(f, lhs)]
                    if l["k"] == "mem" and l.get("in") == "vbi_sliced" and l["member"] == "id":
                        for n in ex.walk(f, rhs):
                            e = f.exprs[n]
                            if "v" in e and e["k"] != "cond" and e["v"] not in (0,) and e["v"] > 1:
                                services.add(e["v"])
        nbytes, rev, first = _payload_stores(f, region, "data", "p")
        for v in vals:
            table[v] = {"services": sorted(services), "bytes": nbytes, "rev8": rev, "min_len": min_len,
                        "extra": 1 if (first is None and False) else 0}
    return table


def _frame_boundary(ctx, run, f):
    run.touch(f)
    rpp = f.params[2]["name"]
    # the accept: f->sp++ (the line joins the current frame)
    acc = [b for b, i in flow.all_events(f) if f.exprs[i]["k"] == "un" and f.exprs[i]["op"] == "++"
           and "frame.sp" in atoms.Operand(f, f.exprs[i]["c"][0]).fields]
    if not acc:
        raise AnalysisBroken("line_address: f->sp++ not found")
    # the edge `frame_line <= f->last_frame_line`
    starts = []
    for bid, b in f.blocks.items():
        t = b.term
        if not t or "cond" not in t:
            continue
        for s, lab in f.edges(bid):
            for a in atoms.edge_atoms(f, bid, lab):
                if a.rel == "<=" and a.R is not None and a.R.has("frame.last_frame_line") and a.L.locals and not a.L.fields:
                    starts.append(s)
    if not starts:
        raise AnalysisBroken("line_address: `frame_line <= last_frame_line` test not found")
    bad = False
    for s0 in starts:
        seen = set()
        st = [s0]
        while st:
            n = st.pop()
            if n in seen:
                continue
            seen.add(n)
            if n in acc:
                bad = True
                break
            for s, lab in f.edges(n):
                ats = atoms.edge_atoms(f, n, lab)
                if any(a.rel == "!=" and a.R is not None and a.R.const == 0 and rpp in a.L.locals and not a.L.fields for a in ats):
                    continue        # only a raw-VBI segment may continue a line
                st.append(s)
    key = "RF-DOM:line_address:sliced-line-order"
    if bad:
        run.violation("RF-DOM", key, "a sliced data unit (rpp == NULL) whose line number does not exceed the last line of the frame can "
                      "still be appended to the current frame: consecutive frames that carry the same single line (WSS, VPS, caption) are "
                      "merged into one", "%s:%d" % (f.file, f.line), witness={"function": f.name})
    else:
        run.holds("RF-DOM", key, "with frame_line <= last_frame_line the line is appended only on a path that established rpp != NULL "
                  "(continuing raw segment); sliced units start a new frame or are rejected", "%s:%d" % (f.file, f.line))


def _cor_failure(ctx, run, f):
    run.touch(f)
    calls = [(b, i) for b, i in flow.all_events(f) if f.exprs[i]["k"] == "call" and f.exprs[i].get("callee") == "generate_pes_packet"]
    run.floor("generate_pes_packet calls in vbi_dvb_mux_cor", len(calls), 1)
    rets = [(b, i) for b, i in flow.all_events(f) if f.exprs[i]["k"] == "ret" and f.exprs[i].get("c") and ex.const(f, f.exprs[i]["c"][0]) == 0]
    clear = {b for b in f.blocks for i in flow.events(f, b) if atoms.store_to_field("_vbi_dvb_mux.cor_end", 0)(f, i)}
    n = 0
    for cb, ci in calls:
        for rb, ri in rets:
            if rb not in flow.reach_from(f, cb):
                continue
            n += 1
            # a path call -> return FALSE that avoids every clear?
            seen = set()
            st = [s for s, _ in f.edges(cb)] if cb != rb else []
            leak = cb == rb and cb not in clear
            while st and not leak:
                x = st.pop()
                if x in seen or x in clear:
                    continue
                seen.add(x)
                if x == rb:
                    leak = True
                    break
                st.extend(s for s, _ in f.edges(x))
            key = "RF-CORR:vbi_dvb_mux_cor:failure-clears-window:%d" % n
            if leak:
                run.violation("RF-CORR", key, "a failing exit of vbi_dvb_mux_cor after generate_pes_packet does not reset mx->cor_end: the "
                              "partial packet of the rejected frame stays pending and is emitted in place of the next frame's data",
                              ex.loc(f, ri), witness={"function": f.name})
            else:
                run.holds("RF-CORR", key, "FALSE exit after generate_pes_packet passes `mx->cor_end = 0`", ex.loc(f, ri))
    run.floor("failing exits of vbi_dvb_mux_cor after packet generation", n, 1)


def _feed_callback(ctx, run, f):
    run.touch(f)
    cbs = [i for b, i in flow.all_events(f) if f.exprs[i]["k"] == "call" and "fn" in f.exprs[i]]
    run.floor("callback sites in vbi_dvb_mux_feed", len(cbs), 1)
    for i in cbs:
        ats = atoms.atoms_at(f, i)
        ok_err = any(a.rel == "==" and a.R is not None and a.R.const == 0 and (("generate_pes_packet" in a.L.calls) or
                                                                                _assigned_from(f, a.L, "generate_pes_packet")) for a in ats)
        key = "RF-DOM:vbi_dvb_mux_feed:callback-after-success"
        if ok_err:
            run.holds("RF-DOM", key, "the output callback is reached only when generate_pes_packet returned 0", ex.loc(f, i))
        else:
            run.violation("RF-DOM", key, "the output callback can be reached although generate_pes_packet failed: a rejected frame "
                          "produces output", ex.loc(f, i), witness={"dominating": [repr(a) for a in ats]})


def _assigned_from(f, operand, callee):
    if not operand.locals or operand.fields:
        return False
    name = sorted(operand.locals)[0]
    for bid, i in flow.all_events(f):
        for lhs, var, op, rhs in flow.stores(f, i):
            nm = var["name"] if var is not None else (f.exprs[ex.skip(f, lhs)].get("name") if lhs is not None else None)
            if nm == name and rhs is not None:
                r = f.exprs[ex.skip(f, rhs)]
                if r["k"] == "call" and r.get("callee") == callee:
                    return True
    return False


def _raw_left_consistent(ctx, run, f):
    run.touch(f)
    FLD = "raw_samples_left"

    def st(ff, i):
        for lhs, var, op, rhs in flow.stores(ff, i):
            if lhs is not None:
                l = ff.exprs[ex.skip(ff, lhs)]
                if l["k"] == "mem" and l["member"] == FLD:
                    return True
        return False
    n = 0
    for bid, i in flow.all_events(f):
        e = f.exprs[i]
        if e["k"] == "asg" and e["op"] == "=" and st(f, i):
            c = ex.const(f, e["c"][1])
            o = atoms.Operand(f, e["c"][1])
            if c is not None or not o.fields:
                continue            # only the store from the caller's sampling parameters (sp->...)
            n += 1
            ok, _ = atoms.must_pass(f, i, st)
            key = "RF-CORR:generate_pes_packet:raw-left-settled"
            if ok:
                run.holds("RF-CORR", key, "after `%s` every path to an exit assigns raw_samples_left again" % ex.pretty(f, i)[:60], ex.loc(f, i))
            else:
                run.violation("RF-CORR", key, "a path from `%s` (the line length of the *caller's* buffer) reaches an exit without "
                              "assigning raw_samples_left again: after a rejected raw line the multiplexer believes it has saved "
                              "samples to continue with, and rejects every later frame until it is reset" % ex.pretty(f, i)[:70],
                              ex.loc(f, i), witness={"function": f.name})
    run.floor("raw_samples_left set from the caller's line", n, 1)


def _max_read_offset(ctx, f, pname, depth=0):
    """Largest constant offset read through pointer parameter `pname` in f and its callees
    (None when there is none)."""
    best = None

    def is_p(node):
        j = ex.skip(f, node)
        e = f.exprs[j]
        while e["k"] == "cast":
            j = ex.skip(f, e["c"][0])
            e = f.exprs[j]
        return e["k"] == "ref" and e.get("name") == pname

    def off(node):
        """constant k when node is `p + k` / `p`"""
        j = ex.skip(f, node)
        e = f.exprs[j]
        while e["k"] == "cast":
            j = ex.skip(f, e["c"][0])
            e = f.exprs[j]
        if e["k"] == "ref" and e.get("name") == pname:
            return 0
        if e["k"] == "bin" and e["op"] == "+":
            for x, y in ((e["c"][0], e["c"][1]), (e["c"][1], e["c"][0])):
                k = ex.const(f, y)
                if k is not None and is_p(x):
                    return k
        return None
    for i, e in enumerate(f.exprs):
        if e["k"] == "idx":
            k0 = off(e["c"][0])
            c = ex.const(f, e["c"][1])
            if k0 is not None and c is not None:
                best = max(best or 0, k0 + c)
        elif e["k"] == "un" and e["op"] == "*":
            k0 = off(e["c"][0])
            if k0 is not None:
                best = max(best or 0, k0)
        elif e["k"] == "call" and e.get("callee") and depth < 3:
            t = ctx.prog.func_for(f, e["callee"])
            if t is None:
                continue
            for n, a in enumerate(e.get("c", [])):
                k0 = off(a)
                if k0 is not None and n < len(t.params):
                    sub = _max_read_offset(ctx, t, t.params[n]["name"], depth + 1)
                    if sub is not None:
                        best = max(best or 0, k0 + sub)
    return best


def _data_identifier_sets(ctx, run):
    """Every data_identifier the multiplexer can be set to is accepted by the demultiplexer's PES header validation.
    Decided by value partitioning: both functions are analysed once for each of the 256 values (the mux parameter, the
    header byte p[9 + 36] fixed to that value; everything else unconstrained) and a value is *accepted* when a TRUE
    return stays reachable."""
    from .. import absint, ivl
    P = ctx.prog
    setter = P.need("vbi_dvb_mux_set_data_identifier", MUX)
    valid = P.need("valid_vbi_pes_packet_header", DEMUX)
    run.touch(setter)
    run.touch(valid)
    par = setter.params[1]["name"]
    bufp = valid.params[1]["name"]
    # which header byte holds the identifier: the constant subscript of the validator's buffer that feeds the range test
    idx = None
    for n, e in enumerate(valid.exprs):
        if e["k"] == "idx" and ex.const(valid, e["c"][1]) is not None and valid.exprs[ex.skip(valid, e["c"][0])].get("name") == bufp:
            v = ex.const(valid, e["c"][1])
            if v is not None and v >= 40:
                idx = v
    if idx is None:
        raise AnalysisBroken("valid_vbi_pes_packet_header: the data_identifier byte was not found")

    def true_reachable(f, an):
        for b, i in flow.all_events(f):
            e = f.exprs[i]
            if e["k"] == "ret" and e.get("c"):
                st = an.state_before(i)
                if st is None:
                    continue
                v = an.eval(st, e["c"][0])
                if v != (0, 0):
                    return True
        return False
    acc_m, acc_d = set(), set()
    for v in range(256):
        if true_reachable(setter, absint.Analysis(ctx, setter, {par: (v, v)}).run()):
            acc_m.add(v)
        hits, missing = ivl.returns_reachable(ctx, valid, {"%s[%d]" % (bufp, idx): (v, v)}, want_true=True, persistent=True)
        if hits:
            acc_d.add(v)
    key = "RF-TAB:data_identifier:mux-subset-of-demux"
    if not acc_m or not acc_d or len(acc_d) == 256:
        raise AnalysisBroken("data_identifier value partitioning failed (mux %d, demux %d accepted values)" % (len(acc_m), len(acc_d)))
    lost = sorted(acc_m - acc_d)
    if lost:
        run.violation("RF-TAB", key, "vbi_dvb_mux_set_data_identifier accepts %s, which valid_vbi_pes_packet_header refuses: every "
                      "PES packet multiplexed with such an identifier is silently skipped by the demultiplexer"
                      % ", ".join("0x%02X" % x for x in lost), "%s:%d" % (valid.file, valid.line),
                      witness={"mux_only": lost, "mux": len(acc_m), "demux": len(acc_d)})
    else:
        run.holds("RF-TAB", key, "the %d data_identifier values the multiplexer accepts are among the %d the demultiplexer accepts"
                  % (len(acc_m), len(acc_d)), "%s:%d" % (valid.file, valid.line))


def _frame_capacity(ctx, run):
    """One frame holds at most one line per (field_parity, line_offset) address the data unit format can
    express; the demultiplexer's own frame buffer has to take them all (plus nothing else: a full buffer is
    what makes line_address() give up the frame).  The address width is read off lofp_to_line(): the mask
    applied to the line_offset / field_parity byte and the field parity bit tested there."""
    P = ctx.prog
    f = P.need("lofp_to_line", DEMUX)
    run.touch(f)
    par = None
    for p in f.params:
        if "it" in p and not p.get("t", "").rstrip().endswith("*"):
            par = p["name"]
    lines, fields = None, 1
    for n, e in enumerate(f.exprs):
        if e["k"] == "bin" and e["op"] == "&":
            a, b = ex.skip(f, e["c"][0]), ex.skip(f, e["c"][1])
            if f.exprs[a]["k"] == "ref" and f.exprs[a].get("dk") == "param":
                k = ex.const(f, b)
                if k is None:
                    continue
                if k & (k + 1) == 0:
                    lines = max(lines or 0, k + 1)
                elif k & (k - 1) == 0:
                    fields = 2
    rec = P.record("_vbi_dvb_demux")
    fl = P.field("_vbi_dvb_demux", "sliced")
    if lines is None or fl is None or not fl.get("arr"):
        raise AnalysisBroken("anchor vanished: line_offset mask in lofp_to_line or _vbi_dvb_demux.sliced[]")
    cap = fl["arr"][0]
    need = lines * fields
    key = "RF-TAB:_vbi_dvb_demux.sliced:frame-capacity"
    if cap >= need:
        run.holds("RF-TAB", key, "dx->sliced[%d] takes the %d x %d lines a frame can address" % (cap, fields, lines),
                  "%s:%d" % (f.file, f.line))
    else:
        run.violation("RF-TAB", key, "dx->sliced[] has %d elements but a frame can carry %d x %d = %d distinct line addresses "
                      "(line_offset mask %d, field parity bit): line_address() gives up a conformant frame with more than %d "
                      "lines as 'buffer full' and nothing of it is delivered" % (cap, fields, lines, need, lines - 1, cap),
                      "%s:%d" % (f.file, f.line), witness={"capacity": cap, "addressable": need})


def _header_lookahead(ctx, run):
    P = ctx.prog
    f = P.need("valid_vbi_pes_packet_header", DEMUX)
    run.touch(f)
    need = _max_read_offset(ctx, f, f.params[1]["name"])
    if need is None:
        raise AnalysisBroken("valid_vbi_pes_packet_header reads nothing through its header pointer")
    # the look-ahead the PES wrap buffer is asked for between packets
    vals = []
    for g in P.funcs:
        if g.file != DEMUX:
            continue
        for bid, i in flow.all_events(g):
            e = g.exprs[i]
            if e["k"] == "asg" and e["op"] == "=":
                l = ex.pretty(g, e["c"][0])
                c = ex.const(g, e["c"][1])
                if l.endswith("pes_wrap.lookahead") and c is not None:
                    vals.append((c, g, i))
    if not vals:
        raise AnalysisBroken("no constant look-ahead is stored into pes_wrap.lookahead")
    c, g, i = min(vals, key=lambda x: x[0])
    key = "RF-IVL:dvb_demux:pes-header-lookahead"
    if c > need:
        run.holds("RF-IVL", key, "the PES header validation reads up to byte %d of the header; the wrap-around buffer guarantees %d "
                  "bytes of look-ahead" % (need, c), ex.loc(g, i))
    else:
        run.violation("RF-IVL", key, "the PES header validation reads byte %d of the header (the data_identifier) but only %d bytes of "
                      "look-ahead are requested: when a chunk boundary falls inside the header the byte is read before it has "
                      "arrived and the whole packet is discarded" % (need, c), ex.loc(g, i), witness={"max_offset": need, "lookahead": c})


def _rejection_traceless(ctx, run, f):
    """A frame vbi_dvb_mux_feed rejects must leave no trace in the transport stream state: on the
    paths to `return FALSE` nothing but generate_pes_packet itself may touch the multiplexer - in
    particular not vbi_dvb_mux_reset (), which steps the continuity counter back."""
    run.touch(f)
    P = ctx.prog
    rets = [(b, i) for b, i in flow.all_events(f) if f.exprs[i]["k"] == "ret" and f.exprs[i].get("c") and ex.const(f, f.exprs[i]["c"][0]) == 0]
    if not rets:
        raise AnalysisBroken("vbi_dvb_mux_feed has no FALSE exit")
    n = 0
    for b, i in rets:
        # events in the blocks dominated by a failing test and leading only to this return: the return's own block
        n += 1
        bad = None
        for j in flow.events(f, b):
            e = f.exprs[j]
            if e["k"] == "call" and e.get("callee") and e["callee"] not in ("generate_pes_packet", "valid_sampling_par", "_vbi_log_printf"):
                t = P.func_for(f, e["callee"])
                if t is not None and any(tk != "ALL" and tk[0] == "fld" and tk[1] == "_vbi_dvb_mux" for tk in ctx.sums.writes.get(t.key, set())):
                    bad = j
            for lhs, var, op, rhs in flow.stores(f, j) if flow.is_event(f, j) else []:
                if lhs is not None:
                    l = f.exprs[ex.skip(f, lhs)]
                    if l["k"] == "mem" and l.get("in") == "_vbi_dvb_mux" and l["member"] in ("continuity_counter", "packet"):
                        bad = j
        key = "RF-NOWRITE:vbi_dvb_mux_feed:rejection-traceless:%d" % n
        if bad is None:
            run.holds("RF-NOWRITE", key, "the failing exit touches no transport stream state", ex.loc(f, i))
        else:
            run.violation("RF-NOWRITE", key, "on a rejection path `%s` modifies the multiplexer (continuity counter / packet state): the "
                          "next accepted frame starts with a repeated continuity counter and a conforming demultiplexer drops it"
                          % ex.pretty(f, bad)[:60], ex.loc(f, bad), witness={"function": f.name})
    run.floor("failing exits of vbi_dvb_mux_feed", n, 3)


def _second_field_offset(ctx, run, f):
    """RF-UNIT: in a sequential (non-interlaced) raw frame the rows of the second field follow
    the count[0] rows of the first; samples_pointer() therefore advances a second-field row by
    sp->count[0] - the constant subscript 0, not the field the line belongs to.  With count[1]
    the data units of a raw line carry the samples of another row whenever the two fields differ
    in size (and of a row behind the buffer when the second field is the larger one)."""
    run.touch(f)
    n = 0
    for bid, i in flow.all_events(f):
        for lhs, var, op, rhs in flow.stores(f, i):
            if lhs is None or op not in ("+=", "=") or rhs is None:
                continue
            l = f.exprs[ex.skip(f, lhs)]
            if l["k"] != "ref" or l.get("name") != "row":
                continue
            for j in ex.walk(f, rhs):
                x = f.exprs[j]
                if x["k"] != "idx":
                    continue
                b = f.exprs[ex.skip(f, x["c"][0])]
                while b["k"] == "cast":
                    b = f.exprs[ex.skip(f, b["c"][0])]
                if not (b["k"] == "mem" and b["member"] == "count"):
                    continue
                if op != "+=":
                    continue
                n += 1
                key = "RF-UNIT:samples_pointer:first-field-rows"
                if ex.const(f, x["c"][1]) == 0:
                    run.holds("RF-UNIT", key, "`%s`: the second field starts after the count[0] rows of the first" % ex.pretty(f, i)[:40],
                              ex.loc(f, i))
                else:
                    run.violation("RF-UNIT", key, "`%s` skips `%s` rows to reach the second field of a sequential raw frame; the rows "
                                  "before it are the first field's (count[0]): with fields of different size the raw data units carry "
                                  "the samples of another line" % (ex.pretty(f, i)[:40], ex.pretty(f, j)[:30]), ex.loc(f, i))
    run.floor("row offsets by a field size in samples_pointer", n, 1)


def _timestamp_layout(ctx, run):
    """RF-BITS: the 33 bit PTS is spread over five header bytes (ISO 13818-1: bits 32..30, 29..22, 21..15, 14..7, 6..0).
    encode_timestamp() of the multiplexer and decode_timestamp() of the demultiplexer are two renderings of that one
    table.  Decided by bit provenance (zsa/bits.py): for every PTS bit the encoder places it at exactly one (byte, bit),
    and the decoder takes that PTS bit from exactly that (byte, bit) - however the shifts and masks are written."""
    from .. import bits
    P = ctx.prog
    enc = P.need("encode_timestamp", MUX)
    dec = P.need("decode_timestamp", DEMUX)
    run.touch(enc)
    run.touch(dec)
    bp, vp, mp = enc.params[0]["name"], enc.params[1]["name"], enc.params[2]["name"]
    est = bits.Eval(ctx, enc, bind={mp: ("bits", bits.const_bits(0x21))}).run_true()
    dst = bits.Eval(ctx, dec).run_true()
    dp = dec.params[3]["name"]
    out = dec.params[1]["name"]
    if est is None or dst is None:
        raise AnalysisBroken("timestamp codec: no exit state")
    dv = dst.get(("M", "*" + out))
    if dv is None:
        raise AnalysisBroken("decode_timestamp: the store of *%s was not found" % out)
    placed = {}
    n_bytes = 0
    for k in range(8):
        bv = est.get(("M", "%s[%d]" % (bp, k)))
        if bv is None:
            continue
        n_bytes += 1
        for b in range(8):
            x = bv[b]
            if isinstance(x, tuple) and x[0] == "in" and x[1] == vp:
                placed.setdefault(x[2], []).append((k, b))
            elif x is None:
                run.violation("RF-BITS", "RF-BITS:timestamp:encoder:%d.%d" % (k, b), "bit %d of time stamp byte %d is not a pure copy "
                              "of a PTS bit or a constant (carry or overlap in encode_timestamp)" % (b, k), "%s:%d" % (enc.file, enc.line))
    run.floor("time stamp bytes written by the multiplexer", n_bytes, 5)
    n = 0
    for j in range(33):
        key = "RF-BITS:timestamp:pts.%d" % j
        pl = placed.get(j, [])
        x = dv[j]
        n += 1
        if len(pl) != 1:
            run.violation("RF-BITS", key, "PTS bit %d is stored at %s by encode_timestamp (exactly one place expected)"
                          % (j, pl or "no place"), "%s:%d" % (enc.file, enc.line))
            continue
        k, b = pl[0]
        if x == ("in", "%s[%d]" % (dp, k), b):
            run.holds("RF-BITS", key, "PTS bit %d <-> byte %d bit %d on both sides" % (j, k, b), "%s:%d" % (dec.file, dec.line),
                      nontrivial=(j % 8 == 0))
        elif x is None and getattr(dec, "inlined", None):
            run.undecided("RF-BITS", key, "PTS bit %d: provenance lost in code inlined into decode_timestamp" % j,
                          "%s:%d" % (dec.file, dec.line))
        else:
            run.violation("RF-BITS", key, "PTS bit %d: the multiplexer stores it at byte %d bit %d, the demultiplexer takes it from %s - "
                          "the two sides no longer describe the same bit layout: time stamps are sent or read wrong while the packet "
                          "stays well formed" % (j, k, b, bits._fmt(x)), "%s:%d" % (dec.file, dec.line),
                          witness={"pts_bit": j, "encoder": [k, b], "decoder": bits._fmt(x)})
    for j in range(33, 64):
        if dv[j] != 0:
            run.violation("RF-BITS", "RF-BITS:timestamp:pts.%d" % j, "decode_timestamp can set bit %d of the 33 bit PTS (%s)"
                          % (j, bits._fmt(dv[j])), "%s:%d" % (dec.file, dec.line))
            break
    run.floor("time stamp bits compared", n, 33)


def _last_line_under_positive(ctx, run, f):
    """RF-DOM: last_line - the reference for the ascending-order test and for the field parity
    given to lines of unknown position - follows only lines that *have* a position: every
    `last_line = s->line` is dominated by s->line > 0.  Updated by a line 0 it falls back to 0,
    and the next unknown-position Teletext line of a second-field run is labelled first field:
    the demultiplexer sees the frame end there."""
    run.touch(f)
    n = 0
    for bid, i in flow.all_events(f):
        for lhs, var, op, rhs in flow.stores(f, i):
            if lhs is None or rhs is None or op != "=":
                continue
            l = f.exprs[ex.skip(f, lhs)]
            if l["k"] != "ref" or l.get("name") != "last_line":
                continue
            r = f.exprs[ex.skip(f, rhs)]
            while r["k"] == "cast":
                r = f.exprs[ex.skip(f, r["c"][0])]
            if not (r["k"] == "mem" and r["member"] == "line"):
                continue
            n += 1
            key = "RF-DOM:insert_sliced_data_units:last-line-positive"
            ok = any(a.rel == ">" and a.R is not None and a.R.const == 0 and a.L.has("vbi_sliced.line") for a in atoms.atoms_at(f, i)) \
                or any(a.rel == "!=" and a.R is not None and a.R.const == 0 and a.L.has("vbi_sliced.line") for a in atoms.atoms_at(f, i))
            if ok:
                run.holds("RF-DOM", key, "`%s` only under s->line > 0" % ex.pretty(f, i)[:40], ex.loc(f, i))
            else:
                run.violation("RF-DOM", key, "`%s` also runs for lines whose position is unknown (line 0): last_line falls back to 0, "
                              "the next line-0 Teletext unit after second-field lines gets field_parity = 1 (first field) and the "
                              "ascending-order test forgets the lines before it" % ex.pretty(f, i)[:40], ex.loc(f, i))
    run.floor("updates of last_line from a sliced line", n, 1)


def _refused_setter_traceless(ctx, run):
    """vbi_dvb_mux_set_data_identifier() refuses identifiers outside the two standardised ranges and returns FALSE: a
    refused call must not have changed the multiplexer (RF-NOWRITE: no FALSE exit is reachable after a store through mx).
    Otherwise the next packet is built from a half-applied setting - e.g. data units of variable length under an
    identifier that demands the fixed length."""
    from .. import nowrite
    P = ctx.prog
    n = 0
    for name in ("vbi_dvb_mux_set_data_identifier",):
        f = P.need(name, MUX)
        run.touch(f)
        outs = {f.params[0]["name"]}
        viol, n_false, n_out, sp = nowrite.check(ctx, f, outs)
        for u in sp.unknown:
            raise AnalysisBroken("%s: %s" % (name, u[1]))
        n += n_false
        key = "RF-NOWRITE:%s:refusal-traceless" % name
        if viol:
            first = sp.writes[0] if sp.writes else None
            ret = viol[0][0]
            line = f.exprs[ret]["line"] if ret is not None and ret >= 0 else f.endline
            run.violation("RF-NOWRITE", key, "a path reaches the refusing exit (line %d) after the multiplexer was already modified "
                          "(first write: %s, line %s): a refused identifier leaves a half-applied setting behind, the next packets "
                          "are built under the old identifier with the new one's data unit format"
                          % (line, first[1] if first else "?", f.exprs[first[0]]["line"] if first else "?"),
                          "%s:%d" % (f.file, line), witness={"function": name})
        else:
            run.holds("RF-NOWRITE", key, "%d exit outcome(s), %d refusing; none of them is reachable after a store through %s"
                      % (n_out, n_false, "/".join(sorted(outs))), "%s:%d" % (f.file, f.line), nontrivial=n_false > 0)
    run.floor("refusing exits of the data_identifier setter", n, 1)


def _line_order_state(ctx, run):
    """The demultiplexer checks the ascending line order of a frame against frame.last_frame_line.  EN 301 775 lets
    Teletext data units carry line_offset 0 ("line unknown") between numbered lines; they take no line number, so the
    order state must only ever be reset (0) or set to the number of a line that was transmitted (a plain copy of the
    decoded frame line) - never counted up.  Otherwise `7, 0, 0, 9` collides with line 9 and the frame is cut short."""
    P = ctx.prog
    n = 0
    for f in P.funcs:
        if f.file != DEMUX:
            continue
        for bid, i in flow.all_events(f):
            for lhs, var, op, rhs in flow.stores(f, i):
                if lhs is None:
                    continue
                l = f.exprs[ex.skip(f, lhs)]
                if not (l["k"] == "mem" and l["member"] == "last_frame_line"):
                    continue
                run.touch(f)
                n += 1
                key = "RF-WHO:%s:last_frame_line@%d" % (f.name, n)
                ok = False
                if op == "=" and rhs is not None:
                    r = f.exprs[ex.skip(f, rhs)]
                    while r["k"] == "cast" and r.get("c"):
                        r = f.exprs[ex.skip(f, r["c"][0])]
                    ok = ex.const(f, rhs) == 0 or (r["k"] == "ref" and r.get("dk") in ("local", "param"))
                if ok:
                    run.holds("RF-WHO", key, "`%s` resets the line-order state or sets it to a decoded line number" % ex.pretty(f, i)[:60], ex.loc(f, i))
                else:
                    run.violation("RF-WHO", key, "`%s` advances the line-order state by something that is not the number of a transmitted "
                                  "line: data units with line_offset 0 (line unknown) then collide with the numbered lines that follow "
                                  "and the frame is refused as out of order" % ex.pretty(f, i)[:60], ex.loc(f, i),
                                  witness={"function": f.name, "store": ex.pretty(f, i)})
    run.floor("stores to the demultiplexer's line-order state", n, 2)
