"""C14 — TZ clause: every successful TZ change is followed by a restore on
every path to every exit, restore uses the saved value, nothing else touches
TZ (RF-PAIR + RF-WHO + RF-DEP).  The numeric clauses (nearest year, leap day,
window lengths) are values, not shapes: not decided."""
from .. import ex, flow, typestate
from ..prog import AnalysisBroken

CLAUSE = ("TZ clause: on every path from a successful change_tz()/localtime_tz() to every return of every "
          "library function, exactly one restore_tz() runs; change_tz saves getenv(\"TZ\") before setenv; "
          "restore_tz restores from that saved copy; every path of change_tz/restore_tz that changed the variable calls tzset(); "
          "setenv/unsetenv/putenv/tzset are called nowhere else in libzvbi. Leap-day clause, structural part only: is_leap_year() "
          "receives tm_year + 1900.")
CLAUSE = CLAUSE + (" In valid_pil_lto_to_time every path to the broken-down-time call adds the UTC offset to the reference time "
                   "(the year is chosen in local time for either sign of the offset) and the result takes it out again; the two "
                   "validity-window implementations (UTC offset / TZ string) draw the early-morning line at the same hour (< 4).")
CLAUSE = CLAUSE + (" Every restore_tz() call passes the same saved-copy pointer and the same zone expression as the acquire "
                   "(change_tz / localtime_tz) of its function.")
CLAUSE = CLAUSE + (" is_leap_year() reads the year only through remainders by divisors of 400, and on each of the 400 residue "
                   "classes (a finite congruence domain covering every year) its control flow yields the Gregorian rule.")
CLAUSE = CLAUSE + (" pdc.c takes no remainder of a possibly negative signed value; the indefinite validity window is selected by "
                   "the day-of-month test alone in both window functions.")
CLAUSE = CLAUSE + (' The PIL-to-time conversions return a time only after a successful vbi_pil_is_valid_date().')
NOT_DECIDED = ("year inference, leap-day acceptance, validity-window lengths, overflow checks (numeric); "
               "libc setenv/tzset semantics and restore_tz's own ENOMEM path are trusted/documented exceptions.")

CLEAN, CHANGED, RESTORED = "clean", "changed", "restored"
ENV_FUNCS = ("setenv", "unsetenv", "putenv", "tzset", "_putenv", "_putenv_s", "clearenv")
# frozen after reading pdc.c: the only functions allowed to touch the environment
OWNERS = {"change_tz", "restore_tz"}
# acquire wrapper: TRUE may leave TZ changed (it is the caller's duty to restore), FALSE must not
WRAPPERS = {"localtime_tz"}


class TZSpec:
    def __init__(self, ctx, run):
        self.ctx = ctx
        self.run = run
        self.memo = {}
        self.errors = []
        self.reach = None

    def touches(self, f):
        if self.reach is None:
            P = self.ctx.prog
            roots = [g for g in P.funcs if g.name in OWNERS]
            # reverse reachability: functions that can reach an owner
            rev = {}
            for g in P.funcs:
                for t in self.ctx.sums.callees(g):
                    rev.setdefault(t.key, set()).add(g.key)
            seen = set(r.key for r in roots)
            st = list(seen)
            while st:
                k = st.pop()
                for c in rev.get(k, ()):
                    if c not in seen:
                        seen.add(c)
                        st.append(c)
            self.reach = seen
        return f.key in self.reach

    def call(self, eng, f, eid, e, S, K):
        n = e.get("callee")
        if n == "change_tz":
            if S == CHANGED:
                self.errors.append((f, eid, "change_tz() while TZ is already changed: the saved value is overwritten"))
            return [(CHANGED, 1), (S, 0)]
        if n == "restore_tz":
            # restore_tz (old_tz, tz) is a no-op when tz == NULL
            tzv = eng.value(e["c"][1], K) if len(e.get("c", [])) > 1 else None
            if S == RESTORED and tzv != 0:
                self.errors.append((f, eid, "restore_tz() called twice: the second call finds *old_tz == NULL and unsets TZ"))
            if S == CHANGED:
                if tzv == 0:
                    self.errors.append((f, eid, "restore_tz() called with tz == NULL while TZ is changed: nothing is restored"))
                    return [(S, None)]
                return [(RESTORED, None)]
            return [(S, None)]
        if n:
            t = self.ctx.prog.func_for(f, n)
            if t is not None and self.touches(t):
                return eng.via_summary(t, e, S, K)
        return [(S, None)]

    def store(self, eng, f, eid, lhs, var, op, rhs, S, K):
        return S


def _str_arg(f, i):
    j = ex.skip(f, i)
    e = f.exprs[j]
    while e["k"] == "cast":
        j = ex.skip(f, e["c"][0])
        e = f.exprs[j]
    return e.get("s") if e["k"] == "str" else None


def run(ctx, run):
    P = ctx.prog
    spec = TZSpec(ctx, run)
    lib = [f for f in P.funcs if f.unit.startswith("src/")]

    # ---- RF-WHO: who may touch the environment ----------------------------
    n_env_sites = 0
    for f in lib:
        for bid, i in flow.all_events(f):
            e = f.exprs[i]
            if e["k"] == "call" and e.get("callee") in ENV_FUNCS:
                n_env_sites += 1
                run.touch(f)
                key = "RF-WHO:%s:%s" % (f.name, e["callee"])
                if f.name in OWNERS:
                    run.holds("RF-WHO", key, "%s() called from owner %s" % (e["callee"], f.name), ex.loc(f, i), nontrivial=False)
                else:
                    run.violation("RF-WHO", key, "%s() is called outside change_tz/restore_tz: the process environment "
                                  "is modified with no restore discipline" % e["callee"], ex.loc(f, i))
    run.floor("RF-WHO environment call sites in libzvbi", n_env_sites, 5)

    # ---- RF-DEP: change_tz saves before it sets; restore_tz restores the saved copy
    ch = P.need("change_tz", "src/pdc.c")
    rs = P.need("restore_tz", "src/pdc.c")
    run.touch(ch)
    run.touch(rs)
    _check_change_tz(ctx, run, ch)
    _check_restore_tz(ctx, run, rs)

    # ---- RF-PAIR over every function that can reach change_tz ---------------
    n_roots = 0
    n_acq = 0
    for f in lib:
        if not spec.touches(f) or f.name in OWNERS:
            continue
        run.touch(f)
        eng = typestate.Engine(ctx, spec, f, [CLEAN]).run()
        outs = eng.outcomes()
        acq = [i for _, i in flow.all_events(f) if f.exprs[i]["k"] == "call"
               and f.exprs[i].get("callee") in ("change_tz",) + tuple(WRAPPERS)]
        n_acq += len(acq)
        n_roots += 1
        bad = []
        for rv, S, ret in outs:
            if S == CHANGED and not (f.name in WRAPPERS and rv not in (0,)):
                bad.append((rv, ret))
        key = "RF-PAIR/TZ:%s" % f.name
        if bad:
            for rv, ret in bad:
                line = f.exprs[ret]["line"] if ret is not None and ret >= 0 else f.endline
                run.violation("RF-PAIR/TZ", key + ":exit", "a path from a successful TZ change reaches `%s` (line %d) "
                              "without restore_tz(): TZ stays changed after the call returns"
                              % (ex.pretty(f, ret) if ret is not None and ret >= 0 else "end of function", line),
                              "%s:%d" % (f.file, line),
                              witness={"function": f.name, "acquire_sites": [ex.loc(f, a) for a in acq], "exit_line": line})
        else:
            run.holds("RF-PAIR/TZ", key, "%d acquire site(s); all %d (return value, state) outcomes leave TZ clean/restored%s"
                      % (len(acq), len(outs), " (wrapper: TRUE may hold, FALSE never does)" if f.name in WRAPPERS else ""),
                      "%s:%d" % (f.file, f.line))
    for f, eid, msg in spec.errors:
        run.violation("RF-PAIR/TZ", "RF-PAIR/TZ:%s:order" % f.name, msg, ex.loc(f, eid))
    # the release names the same time zone and the same saved copy as the acquire: restore_tz
    # (old_tz, tz) does nothing when tz == NULL ("caller's zone was used, nothing changed"), so
    # handing it anything but the acquire's own `tz` leaves TZ changed whenever that is NULL
    n_rel = 0
    for f in lib:
        if not spec.touches(f) or f.name in OWNERS:
            continue
        acq_args = {}
        for _, i in flow.all_events(f):
            e = f.exprs[i]
            if e["k"] == "call" and e.get("callee") == "change_tz" and len(e.get("c", [])) >= 2:
                acq_args[(ex.pretty(f, e["c"][0]), ex.pretty(f, e["c"][1]))] = i
            if e["k"] == "call" and e.get("callee") == "localtime_tz" and len(e.get("c", [])) >= 4:
                acq_args[(ex.pretty(f, e["c"][1]), ex.pretty(f, e["c"][3]))] = i
        for _, i in flow.all_events(f):
            e = f.exprs[i]
            if not (e["k"] == "call" and e.get("callee") == "restore_tz" and len(e.get("c", [])) >= 2):
                continue
            n_rel += 1
            got = (ex.pretty(f, e["c"][0]), ex.pretty(f, e["c"][1]))
            key = "RF-PAIR/TZ:%s:same-arguments@%d" % (f.name, f.exprs[i]["line"])
            if got in acq_args:
                run.holds("RF-PAIR/TZ", key, "restore_tz (%s, %s) names the saved copy and the zone of the acquire" % got, ex.loc(f, i))
            else:
                run.violation("RF-PAIR/TZ", key, "`%s` does not pass the arguments of the acquire in %s() (%s): restore_tz() is a "
                              "no-op for a NULL zone and restores from the copy it is given, so TZ stays changed (or is restored "
                              "from the wrong copy) on this path" % (ex.pretty(f, i)[:60], f.name,
                                                                      " / ".join("(%s, %s)" % k for k in acq_args) or "none"),
                              ex.loc(f, i))
    run.floor("restore_tz call sites", n_rel, 8)
    run.floor("RF-PAIR/TZ functions reaching change_tz", n_roots, 4)
    run.floor("RF-PAIR/TZ acquire sites", n_acq, 4)

    # ---- time zone state follows the environment: tzset() after every change ----
    _check_tzset(ctx, run, ch)
    _check_tzset(ctx, run, rs)

    # ---- RF-UNIT: struct tm years are offsets from 1900 -----------------------------
    _check_tm_year(ctx, run)
    _leap_rule(ctx, run)
    _no_signed_remainder(ctx, run)
    _invalid_day_test(ctx, run)
    _conversion_validates(ctx, run)
    _utc_shortcut_only_for_utc(ctx, run)
    _offset_applied(ctx, run)
    _sibling_thresholds(ctx, run)
    _leap_check_after_date(ctx, run)

    # positive example: the engine must see a leak in a known-leaky shape
    _selftest(ctx, run)


def _check_change_tz(ctx, run, f):
    getenv = strdup_store = setenv = None
    svar = None
    for bid, i in flow.all_events(f):
        e = f.exprs[i]
        if e["k"] == "call" and e.get("callee") == "getenv" and _str_arg(f, e["c"][0]) == "TZ":
            getenv = (bid, i)
        if e["k"] == "call" and e.get("callee") == "setenv":
            setenv = (bid, i)
    for bid, i in flow.all_events(f):
        e = f.exprs[i]
        if e["k"] == "asg" and e["op"] == "=":
            r = ex.skip(f, e["c"][1])
            if getenv and r == getenv[1]:
                svar = ex.path(f, e["c"][0])
            re_ = f.exprs[r]
            if re_["k"] == "call" and re_.get("callee") == "strdup" and ex.path(f, e["c"][0]) == "*old_tz":
                if svar is not None and ex.path(f, re_["c"][0]) == svar:
                    strdup_store = (bid, i)
    if strdup_store is None and svar is not None:
        # `saved = strdup (s); ... *old_tz = saved;`: the copy is taken into a local first and published later
        holders = {}
        for bid, i in flow.all_events(f):
            e = f.exprs[i]
            if e["k"] == "asg" and e["op"] == "=":
                re_ = f.exprs[ex.skip(f, e["c"][1])]
                le_ = f.exprs[ex.skip(f, e["c"][0])]
                if re_["k"] == "call" and re_.get("callee") == "strdup" and le_["k"] == "ref" and ex.path(f, re_["c"][0]) == svar:
                    holders[le_["name"]] = (bid, i)
        for bid, i in flow.all_events(f):
            e = f.exprs[i]
            if e["k"] == "asg" and e["op"] == "=" and ex.path(f, e["c"][0]) == "*old_tz":
                re_ = f.exprs[ex.skip(f, e["c"][1])]
                if re_["k"] == "ref" and re_.get("name") in holders:
                    strdup_store = holders[re_["name"]]
    key = "RF-DEP:change_tz:save-before-set"
    if not (getenv and setenv):
        raise AnalysisBroken("change_tz: getenv(\"TZ\")/setenv anchors vanished")
    ok = flow.dominates(f, getenv[0], setenv[0]) and strdup_store is not None
    # the strdup store must be on every path where getenv returned non-NULL: the
    # setenv block must not be reachable from the getenv!=NULL edge while avoiding it
    if ok:
        blocks_avoiding = flow.reach_from(f, getenv[0], avoid=[strdup_store[0]])
        # when s == NULL the save is legitimately skipped (*old_tz = NULL at entry)
        an = ctx.analysis(f)
        skipped_ok = True
        for src, lab, cond in flow.dominating_edges(f, strdup_store[0]):
            pass
        if setenv[0] in blocks_avoiding:
            # allowed only through the `NULL != s` false edge
            doms = flow.dominating_edges(f, strdup_store[0])
            skipped_ok = any(cond is not None and svar in (ex.pretty(f, cond)) for _, _, cond in doms)
        ok = skipped_ok
    a0 = _str_arg(f, f.exprs[setenv[1]]["c"][0])
    a1 = ex.path(f, f.exprs[setenv[1]]["c"][1])
    if a0 != "TZ" or a1 != "tz":
        ok = False
    if ok:
        run.holds("RF-DEP", key, "*old_tz = strdup (getenv (\"TZ\")) dominates setenv (\"TZ\", tz) (skipped only when TZ is unset)",
                  ex.loc(f, setenv[1]))
    else:
        run.violation("RF-DEP", key, "change_tz does not save the previous TZ (strdup of getenv(\"TZ\") into *old_tz) "
                      "before setenv(\"TZ\", tz)", ex.loc(f, setenv[1]))
    # outcome discipline of the primitive itself: TRUE only after a successful setenv
    class Leaf:
        def call(self, eng, f, eid, e, S, K):
            if e.get("callee") == "setenv":
                return [("set", 0), (S, -1)]
            return [(S, None)]

        def store(self, *a):
            return None
    eng = typestate.Engine(ctx, Leaf(), f, ["unset"]).run()
    outs = {(rv, S) for rv, S, _ in eng.outcomes()}
    key = "RF-PAIR/TZ:change_tz:outcomes"
    if outs == {(1, "set"), (0, "unset")}:
        run.holds("RF-PAIR/TZ", key, "change_tz returns TRUE exactly on the paths where setenv succeeded, FALSE otherwise",
                  "%s:%d" % (f.file, f.line))
    else:
        run.violation("RF-PAIR/TZ", key, "change_tz outcome set is %s; expected TRUE<=>setenv succeeded" % sorted(map(str, outs)),
                      "%s:%d" % (f.file, f.line))


def _check_restore_tz(ctx, run, f):
    n = 0
    for bid, i in flow.all_events(f):
        e = f.exprs[i]
        if e["k"] != "call":
            continue
        if e.get("callee") == "setenv":
            n += 1
            a0 = _str_arg(f, e["c"][0])
            a1 = ex.path(f, e["c"][1])
            key = "RF-DEP:restore_tz:setenv-arg"
            if a0 == "TZ" and a1 == "*old_tz":
                run.holds("RF-DEP", key, "restore_tz sets TZ to *old_tz, the copy saved by change_tz", ex.loc(f, i))
            else:
                run.violation("RF-DEP", key, "restore_tz sets %s to %s instead of TZ to the saved *old_tz" % (a0, a1), ex.loc(f, i))
        if e.get("callee") == "unsetenv":
            n += 1
            a = ctx.analysis(f)
            st = a.state_before(i)
            from .. import atoms as _atoms
            pname = f.params[0]["name"]
            ok = _str_arg(f, e["c"][0]) == "TZ" and st is not None and any(
                a_.rel == "==" and a_.R is not None and a_.R.const == 0 and pname in a_.L.locals and not a_.L.calls
                for a_ in _atoms.atoms_at(f, i))
            key = "RF-DEP:restore_tz:unsetenv-guard"
            if ok:
                run.holds("RF-DEP", key, "unsetenv (\"TZ\") only under NULL == *old_tz (TZ was unset before the change)", ex.loc(f, i))
            else:
                run.violation("RF-DEP", key, "unsetenv(\"TZ\") is not guarded by NULL == *old_tz", ex.loc(f, i))
    run.floor("RF-DEP restore_tz environment calls", n, 2)

    # every path with tz != NULL must touch the environment (else nothing is restored)
    class Leaf:
        def call(self, eng, f, eid, e, S, K):
            if e.get("callee") in ("setenv", "unsetenv"):
                return [("touched", 0)] if e["callee"] == "unsetenv" else [("touched", 0), ("touched", -1)]
            return [(S, None)]

        def store(self, *a):
            return None
    eng = typestate.Engine(ctx, Leaf(), f, ["untouched"])
    eng.init = frozenset([("untouched", frozenset([(("v", "tz"), typestate.NZ)]))])
    eng.run()
    outs = {S for rv, S, _ in eng.outcomes()}
    key = "RF-PAIR/TZ:restore_tz:must-restore"
    if outs == {"touched"}:
        run.holds("RF-PAIR/TZ", key, "with tz != NULL every path of restore_tz calls setenv/unsetenv", "%s:%d" % (f.file, f.line))
    else:
        run.violation("RF-PAIR/TZ", key, "restore_tz has a path with tz != NULL that returns without restoring TZ",
                      "%s:%d" % (f.file, f.line))


def _check_tzset(ctx, run, f):
    """Every path on which setenv/unsetenv changed TZ reaches tzset() before
    the function returns (otherwise timezone/daylight/tzname/localtime keep
    the other zone although getenv ("TZ") looks right)."""
    class Spec:
        memo = {}

        def call(self, eng, ff, eid, e, S, K):
            n = e.get("callee")
            if n == "setenv":
                return [("dirty", 0), (S, -1)]
            if n in ("unsetenv", "putenv"):
                return [("dirty", 0)]
            if n == "tzset":
                return [("synced", None)]
            return [(S, None)]

        def store(self, *a):
            return None
    eng = typestate.Engine(ctx, Spec(), f, ["untouched"]).run()
    bad = [(rv, ret) for rv, S, ret in eng.outcomes() if S == "dirty"]
    key = "RF-PAIR/TZ:%s:tzset-after-change" % f.name
    if bad:
        for rv, ret in bad:
            line = f.exprs[ret]["line"] if ret is not None and ret >= 0 else f.endline
            run.violation("RF-PAIR/TZ", key, "%s changes the TZ environment variable and returns (line %d) without tzset(): the "
                          "C library's time zone state (timezone, daylight, tzname, localtime) keeps the previous zone"
                          % (f.name, line), "%s:%d" % (f.file, line), witness={"function": f.name, "exit_line": line})
    else:
        run.holds("RF-PAIR/TZ", key, "every path of %s that changed TZ calls tzset() before returning" % f.name,
                  "%s:%d" % (f.file, f.line))


def _check_tm_year(ctx, run):
    """Calendar-year consumers (is_leap_year) receive tm_year + 1900."""
    P = ctx.prog
    n = 0
    for f in P.funcs:
        if f.unit != "src/pdc.c":
            continue
        for bid, i in flow.all_events(f):
            e = f.exprs[i]
            if e["k"] != "call" or e.get("callee") != "is_leap_year":
                continue
            n += 1
            run.touch(f)
            arg = e["c"][0]
            uses = [x for x in ex.walk(f, arg) if f.exprs[x]["k"] == "mem" and f.exprs[x]["member"] == "tm_year"]
            key = "RF-UNIT:%s:is_leap_year-arg" % f.name
            if not uses:
                run.holds("RF-UNIT", key, "is_leap_year() argument does not come from struct tm", ex.loc(f, i), nontrivial=False)
                continue
            ok = False
            for x in ex.walk(f, arg):
                xe = f.exprs[x]
                if xe["k"] == "bin" and xe["op"] == "+" and 1900 in (ex.const(f, xe["c"][0]), ex.const(f, xe["c"][1])):
                    other = xe["c"][0] if ex.const(f, xe["c"][1]) == 1900 else xe["c"][1]
                    oe = f.exprs[ex.skip(f, other)]
                    if oe["k"] == "mem" and oe["member"] == "tm_year":
                        ok = True
            if ok:
                run.holds("RF-UNIT", key, "is_leap_year (tm_year + 1900): struct tm counts years from 1900", ex.loc(f, i))
            else:
                run.violation("RF-UNIT", key, "is_leap_year() receives `%s`: struct tm's tm_year is an offset from 1900, so the "
                              "400-year rule is applied to the wrong year (29 February of 2000/2400 rejected, of 2300 accepted)"
                              % ex.pretty(f, arg), ex.loc(f, i), witness={"argument": ex.pretty(f, arg)})
    run.floor("is_leap_year call sites", n, 1)


def _selftest(ctx, run):
    """Positive example compiled with the same flags: a function that leaks
    TZ on one path must be reported by the same engine."""
    from .. import selftest
    P2 = selftest.load_positive("tz_leak.c")
    spec = TZSpec(ctx, run)
    spec.ctx = selftest.Ctx(P2)
    f = P2.need("leaky_pil_to_time")
    eng = typestate.Engine(spec.ctx, spec, f, [CLEAN]).run()
    leaks = [1 for rv, S, _ in eng.outcomes() if S == CHANGED]
    g = P2.need("good_pil_to_time")
    eng2 = typestate.Engine(spec.ctx, spec, g, [CLEAN]).run()
    clean = not [1 for rv, S, _ in eng2.outcomes() if S == CHANGED]
    if not leaks or not clean:
        raise AnalysisBroken("self-test failed: RF-PAIR/TZ did not separate the leaking and the correct positive example")
    run.extra["positive_example"] = "selftest/pos/tz_leak.c: leak reported in leaky_pil_to_time, none in good_pil_to_time"


def _offset_applied(ctx, run):
    """valid_pil_lto_to_time: the nearest-year decision is taken on the *local* reference time:
    every path from the entry to the broken-down-time call adds seconds_east to start, whatever
    the sign of the offset; and the result takes the offset out again."""
    from .. import atoms
    f = ctx.prog.need("valid_pil_lto_to_time", "src/pdc.c")
    run.touch(f)
    east = f.params[2]["name"]
    start = f.params[1]["name"]

    target = [start]

    def adds(ff, i):
        for lhs, var, op, rhs in flow.stores(ff, i):
            if rhs is None or op not in ("+=", "="):
                continue
            nm = var["name"] if var is not None else None
            if nm is None and lhs is not None:
                l = ff.exprs[ex.skip(ff, lhs)]
                nm = l.get("name") if l["k"] == "ref" else None
            if nm != target[0]:
                continue
            o = atoms.Operand(ff, rhs)
            if east in o.locals and (op == "+=" or start in o.locals or target[0] in o.locals):
                return True
        return False
    calls = [(b, i) for b, i in flow.all_events(f) if f.exprs[i]["k"] == "call" and f.exprs[i].get("callee") in ("gmtime_r", "gmtime")]
    if not calls:
        raise AnalysisBroken("valid_pil_lto_to_time: gmtime_r call not found")
    for b, i in calls:
        # the object handed to gmtime_r (): the reference time itself, or a local copy made for the purpose
        # (`local_start = start + seconds_east; gmtime_r (&local_start, &tm)`)
        target[0] = start
        args = [c for c in f.exprs[i].get("c", []) if c is not None and c >= 0]
        if args:
            a0 = f.exprs[ex.skip(f, args[0])]
            while a0["k"] == "cast" and a0.get("c"):
                a0 = f.exprs[ex.skip(f, a0["c"][0])]
            if a0["k"] == "un" and a0["op"] == "&":
                x0 = f.exprs[ex.skip(f, a0["c"][0])]
                if x0["k"] == "ref" and x0.get("dk") in ("local", "param"):
                    target[0] = x0["name"]
        # every path entry -> call passes an `adds` event: remove the blocks with such an event and test reachability
        hit = {bid for bid, ev in flow.all_events(f) if adds(f, ev)}
        blk_call = b
        pos_ok = any(adds(f, ev) for ev in flow.events(f, blk_call) if flow.elem_pos(f)[ev][1] < flow.elem_pos(f)[i][1])
        reach = flow.reach_from(f, f.entry, avoid=hit)
        key = "RF-CORR:valid_pil_lto_to_time:offset-applied-before-year-decision"
        flag_ok = False
        if not pos_ok and blk_call in reach:
            # the addition may report success in a flag (`ok = 0/1` with the single `1` next to the addition) that is
            # tested before the call: finding the flag set means the addition was executed
            for src_, lab_, cond_ in flow.dominating_edges(f, blk_call):
                if cond_ is None or lab_ not in ("T", "F"):
                    continue
                tb = atoms._const_flag_set_block(f, cond_, lab_ == "T", src_)
                if tb is not None and (tb in hit or any(flow.dominates(f, h, tb) for h in hit)):
                    flag_ok = True
        if pos_ok or blk_call not in reach or flag_ok:
            run.holds("RF-CORR", key, "every path to %s () passes `%s += %s`" % (f.exprs[i]["callee"], start, east), ex.loc(f, i))
        else:
            run.violation("RF-CORR", key, "a path reaches %s () without adding the UTC offset to the reference time: the month "
                          "comparison that picks the year is then made in UTC, not in the local time of the PIL - within the offset "
                          "of a month boundary the programme lands a year off" % f.exprs[i]["callee"], ex.loc(f, i),
                          witness={"function": f.name})
    rets = [i for b, i in flow.all_events(f) if f.exprs[i]["k"] == "ret" and f.exprs[i].get("c")
            and east in atoms.Operand(f, f.exprs[i]["c"][0]).locals]
    if not rets:
        # `start -= seconds_east; ... return start;`: the returned local was last changed by the offset
        for b, i in flow.all_events(f):
            e = f.exprs[i]
            if e["k"] != "ret" or not e.get("c"):
                continue
            rv = f.exprs[ex.skip(f, e["c"][0])]
            if rv["k"] != "ref":
                continue
            for b2, j in flow.all_events(f):
                for lhs, var, op, rhs in flow.stores(f, j):
                    if lhs is None or rhs is None or op not in ("-=", "="):
                        continue
                    le = f.exprs[ex.skip(f, lhs)]
                    if le["k"] == "ref" and le.get("name") == rv["name"] and east in atoms.Operand(f, rhs).locals \
                            and b in flow.reach_from(f, b2):
                        # and no later plain reassignment of the local on the way
                        later = [j2 for b3, j2 in flow.all_events(f) for l3, v3, o3, r3 in flow.stores(f, j2)
                                 if l3 is not None and f.exprs[ex.skip(f, l3)]["k"] == "ref"
                                 and f.exprs[ex.skip(f, l3)].get("name") == rv["name"] and o3 == "="
                                 and r3 is not None and east not in atoms.Operand(f, r3).locals
                                 and b3 in flow.reach_from(f, b2) and b3 != b2 and b in flow.reach_from(f, b3)]
                        if not later:
                            rets.append(i)
    key = "RF-DEP:valid_pil_lto_to_time:offset-removed-from-result"
    if rets:
        run.holds("RF-DEP", key, "the successful return takes %s out of the result again" % east, ex.loc(f, rets[0]))
    else:
        run.violation("RF-DEP", key, "no return value of valid_pil_lto_to_time depends on the offset: the result is local time, not UTC",
                      "%s:%d" % (f.file, f.line))


def _sibling_thresholds(ctx, run):
    """EN 300 231 9.3: a PIL hour before 04:00 belongs to the previous broadcast day.  The UTC-offset
    and the TZ-string implementations of the validity window are siblings and must draw that line at
    the same hour; so must their window length constants."""
    P = ctx.prog
    sibs = [P.need("valid_pil_lto_validity_window", "src/pdc.c"), P.need("valid_pil_validity_window", "src/pdc.c")]
    sets = []
    for f in sibs:
        run.touch(f)
        th = set()
        for i, e in enumerate(f.exprs):
            if e["k"] == "bin" and e["op"] in ("<", "<=", ">", ">="):
                l = ex.pretty(f, e["c"][0])
                c = ex.const(f, e["c"][1])
                # VBI_PIL_HOUR (pil) expands to ((pil >> 6) & 0x1F)
                if c is not None and ">> 6" in l and "31" in l.replace("0x1F", "31").replace("0x1f", "31"):
                    th.add((e["op"], c))
        sets.append(th)
    key = "RF-TAB:validity-window:early-morning-hour"
    if not sets[0] or not sets[1]:
        raise AnalysisBroken("validity window siblings: hour threshold not found (%s)" % sets)
    norm = [{(">=" if op == ">" else "<" if op == "<=" else op, c + 1 if op in (">", "<=") else c) for op, c in t} for t in sets]
    if norm[0] == norm[1] and norm[0] == {("<", 4)}:
        run.holds("RF-TAB", key, "both implementations treat PIL hours < 4 as the previous broadcast day", "%s:%d" % (sibs[0].file, sibs[0].line))
    else:
        run.violation("RF-TAB", key, "the two validity-window implementations draw the early-morning line differently (%s vs %s; "
                      "EN 300 231: hour < 4): the same PIL gets windows of different length depending on how the time zone is "
                      "given" % (sorted(sets[0]), sorted(sets[1])), "%s:%d" % (sibs[0].file, sibs[0].line),
                      witness={"lto": sorted(sets[0]), "tz": sorted(sets[1])})


def _leap_check_after_date(ctx, run):
    """tm_leap_day_check (&tm) judges the date in tm: it must come after tm_mon_mday_from_pil put
    the PIL's month and day there (before that, tm holds the reference date, which is always real)."""
    P = ctx.prog
    n = 0
    for f in P.funcs:
        if f.file != "src/pdc.c":
            continue
        for bid, i in flow.all_events(f):
            e = f.exprs[i]
            if not (e["k"] == "call" and e.get("callee") == "tm_leap_day_check"):
                continue
            n += 1
            run.touch(f)
            ok = False
            for b2, j in flow.all_events(f):
                e2 = f.exprs[j]
                if e2["k"] == "call" and e2.get("callee") == "tm_mon_mday_from_pil":
                    if flow.dominates(f, b2, bid) and (b2 != bid or flow.elem_pos(f)[j][1] < flow.elem_pos(f)[i][1]):
                        ok = True
            key = "RF-DOM:%s:leap-check-after-pil-date" % f.name
            if ok:
                run.holds("RF-DOM", key, "tm_leap_day_check is dominated by tm_mon_mday_from_pil", ex.loc(f, i))
            else:
                run.violation("RF-DOM", key, "tm_leap_day_check runs before the PIL's month and day are in tm: it checks the reference "
                              "date, never fails, and 29 February of a non-leap year is normalised to 1 March instead of being "
                              "refused", ex.loc(f, i))
    run.floor("tm_leap_day_check call sites", n, 2)


def _leap_rule(ctx, run):
    """RF-TAB over a congruence domain: is_leap_year() reads its argument only through
    `year % d` with constant divisors d | 400, so its result is a function of the residue class
    year mod 400 - a finite abstract domain that covers every year.  The function's control flow
    is evaluated on each of the 400 classes and compared with the Gregorian rule (divisible by 4,
    and by 100 only if also by 400)."""
    P = ctx.prog
    f = P.need("is_leap_year", "src/pdc.c")
    run.touch(f)
    pname = f.params[0]["name"]
    parent = {}
    for i, e in enumerate(f.exprs):
        for c in e.get("c", []) or []:
            if isinstance(c, int) and c >= 0:
                parent[c] = i
    mod = 1
    for i, e in enumerate(f.exprs):
        if e["k"] == "ref" and e.get("name") == pname:
            j = i
            while j in parent and f.exprs[parent[j]]["k"] == "cast":
                j = parent[j]
            p = f.exprs[parent[j]] if j in parent else None
            d = ex.const(f, p["c"][1]) if p is not None and p["k"] == "bin" and p["op"] == "%" and p["c"][0] == j else None
            if d is None and p is not None and p["k"] == "bin" and p["op"] == "&" and p["c"][0] == j:
                m = ex.const(f, p["c"][1])
                if m is not None and m > 0 and (m & (m + 1)) == 0:
                    d = m + 1           # year & (2^k - 1) is year % 2^k (the year is unsigned)
            if not d or 400 % d:
                run.note("is_leap_year reads `%s` other than through `%% d` with d | 400 (%s): the congruence evaluation does not "
                         "apply; leap rule not decided" % (pname, ex.pretty(f, parent.get(j, i))[:40]))
                return
            mod = 400

    def ev(i, r):
        e = f.exprs[i]
        if "v" in e:
            return e["v"]
        k = e["k"]
        if k == "cast":
            return ev(e["c"][0], r)
        if k == "ref" and e.get("name") == pname:
            return ("year", r)
        if k == "un" and e["op"] == "!":
            return int(not ev(e["c"][0], r))
        if k == "bin":
            op = e["op"]
            if op == "&&":
                return int(bool(ev(e["c"][0], r)) and bool(ev(e["c"][1], r)))
            if op == "||":
                return int(bool(ev(e["c"][0], r)) or bool(ev(e["c"][1], r)))
            a, b = ev(e["c"][0], r), ev(e["c"][1], r)
            if op == "%" and isinstance(a, tuple):
                return a[1] % b
            if op == "&" and isinstance(a, tuple) and isinstance(b, int) and b > 0 and (b & (b + 1)) == 0 and 400 % (b + 1) == 0:
                return a[1] & b
            if isinstance(a, tuple) or isinstance(b, tuple):
                raise AnalysisBroken("is_leap_year: the year escapes the residue domain in `%s`" % ex.pretty(f, i))
            return {"==": a == b, "!=": a != b, "<": a < b, ">": a > b, "<=": a <= b, ">=": a >= b, "+": a + b, "-": a - b,
                    "*": a * b, "&": a & b, "|": a | b}.get(op, None) if op in ("==", "!=", "<", ">", "<=", ">=", "+", "-", "*", "&", "|") \
                else _broken(f, i)
        return _broken(f, i)

    wrong = []
    for r in range(400):
        bid, steps, res = f.entry, 0, None
        while res is None:
            steps += 1
            if steps > 64:
                raise AnalysisBroken("is_leap_year: control flow does not reach a return")
            b = f.blocks[bid]
            for i in b.elems:
                if f.exprs[i]["k"] == "ret":
                    res = int(bool(ev(f.exprs[i]["c"][0], r)))
                    break
                if f.exprs[i]["k"] in ("asg", "decl", "call"):
                    raise AnalysisBroken("is_leap_year: statement `%s` is outside the congruence evaluator" % ex.pretty(f, i)[:40])
            if res is not None:
                break
            edges = f.edges(bid)
            if b.term and "cond" in b.term:
                v = bool(ev(b.term["cond"], r))
                nxt = [s for s, l in edges if l == ("T" if v else "F")]
            else:
                nxt = [s for s, l in edges]
            if not nxt:
                raise AnalysisBroken("is_leap_year: dead end in the control flow")
            bid = nxt[0]
        want = int(r % 4 == 0 and (r % 100 != 0 or r == 0))
        if res != want:
            wrong.append((r, res))
    key = "RF-TAB:is_leap_year:gregorian"
    if wrong:
        ex_r = [r for r, _ in wrong][:6]
        run.violation("RF-TAB", key, "is_leap_year() disagrees with the Gregorian rule on %d of the 400 residue classes year mod 400 "
                      "(e.g. year = %s mod 400, i.e. %s): the leap-day check accepts 29 February in those years or refuses it in "
                      "real leap years" % (len(wrong), ", ".join(map(str, ex_r)), ", ".join(str(2000 + r) for r in ex_r[:3])),
                      "%s:%d" % (f.file, f.line), witness={"classes": ex_r})
    else:
        run.holds("RF-TAB", key, "the argument is read only through %% 4, %% 100, %% 400; on all 400 residue classes mod 400 the result "
                  "equals the Gregorian rule", "%s:%d" % (f.file, f.line))


def _broken(f, i):
    raise AnalysisBroken("is_leap_year: expression `%s` is outside the congruence evaluator" % ex.pretty(f, i)[:40])


def _no_signed_remainder(ctx, run):
    """RF-SIGN: time_t is signed and reference times before 1970 are legal input; the C remainder
    of a negative value is negative (or zero), so 'seconds since midnight' computed as
    time % 86400 is off by a day for every such time that is not exactly midnight.  pdc.c derives
    times of day through gmtime_r()/localtime_r() only: there is no `%` whose left operand is a
    signed value the interval analysis cannot prove non-negative."""
    P = ctx.prog
    n = 0
    bad = 0
    for f in P.funcs:
        if f.file != "src/pdc.c":
            continue
        an = None
        for i, e in enumerate(f.exprs):
            if not (e["k"] == "bin" and (e["op"] == "%" or (e["op"] == "&" and e.get("n6")))) or flow.elem_pos(f).get(i) is None:
                continue
            n += 1
            if e["op"] == "&":
                continue            # N6: the operand cannot be negative by its type
            l = f.exprs[ex.skip(f, e["c"][0])]
            it = l.get("it")
            if not it or it[1] == 0:
                continue
            an = an or ctx.analysis(f)
            st = an.state_before_expr(i)
            v = an.eval(st, e["c"][0]) if st is not None else (None, None)
            if v[0] is not None and v[0] >= 0:
                continue
            bad += 1
            run.touch(f)
            run.violation("RF-SIGN", "RF-SIGN:%s:signed-remainder" % f.name, "`%s` takes the remainder of a signed value that can be "
                          "negative (%s): for reference times before 1970 the result is negative, the time of day is off by up to a "
                          "day and the validity window ends a day late" % (ex.pretty(f, i)[:50], l.get("t")), ex.loc(f, i))
    if not bad:
        run.holds("RF-SIGN", "RF-SIGN:pdc.c:signed-remainder", "%d remainder operations in pdc.c, none on a possibly negative signed "
                  "operand" % n, "src/pdc.c", nontrivial=False)
    run.floor("remainder / power-of-two mask operations in pdc.c", n, 2)


def _utc_shortcut_only_for_utc(ctx, run):
    """A function that is given a time zone *name* may take the UTC-offset implementation (offset 0) only when the name
    is "UTC": the call is dominated by tz != NULL and strcmp (tz, "UTC") == 0.  tz == NULL means the zone of the process
    (the TZ variable), which is not UTC in general."""
    from .. import atoms
    P = ctx.prog
    n = 0
    for f in P.funcs:
        if f.file != "src/pdc.c" or f.cfg_failed:
            continue
        tzp = [p["name"] for p in f.params if p.get("t", "").replace(" ", "") == "constchar*"]
        if not tzp:
            continue
        for bid, i in flow.all_events(f):
            e = f.exprs[i]
            if e["k"] != "call" or e.get("callee") not in ("valid_pil_lto_validity_window", "valid_pil_lto_to_time", "pty_utc_validity_window"):
                continue
            n += 1
            run.touch(f)
            ats = atoms.atoms_at(f, i)
            nn = any(a.rel == "!=" and a.R is not None and a.R.const == 0 and set(tzp) & a.L.locals and not a.L.calls for a in ats)
            eq = any(a.call_cmp("strcmp", "==", 0) and "UTC" in (a.L.strs | (a.R.strs if a.R is not None else set())) for a in ats) \
                or any(a.call_cmp("strcmp", "==", 0) for a in ats)
            key = "RF-DOM:%s:utc-shortcut" % f.name
            if nn and eq:
                run.holds("RF-DOM", key, "`%s` only under tz != NULL and strcmp (tz, \"UTC\") == 0" % ex.pretty(f, i)[:50], ex.loc(f, i))
            else:
                run.violation("RF-DOM", key, "`%s` (the UTC-offset implementation, offset 0) is reached without tz != NULL and "
                              "strcmp (tz, \"UTC\") == 0: for tz == NULL (the zone of the process) the window is computed in UTC"
                              % ex.pretty(f, i)[:60], ex.loc(f, i), witness={"dominating": [repr(a) for a in ats][:6]})
    run.floor("UTC shortcuts in functions taking a zone name", n, 1)


def _conversion_validates(ctx, run):
    from .. import atoms
    """The two PIL -> time_t conversions refuse every label vbi_pil_is_valid_date() refuses (unreal month, day,
    hour >= 24, minute >= 60): each return of something else than the constant -1 is dominated by a non-zero
    result of that test.  (timegm()/mktime() would silently normalise 24:00 or xx:60 into another hour or day.)"""
    P = ctx.prog
    n = 0
    for name in ("vbi_pil_lto_to_time", "vbi_pil_to_time"):
        f = P.need(name, "src/pdc.c")
        run.touch(f)
        for bid, i in flow.all_events(f):
            e = f.exprs[i]
            if e["k"] != "ret" or not e.get("c"):
                continue
            v = ex.const(f, e["c"][0])
            if v is not None and v in (-1, (1 << 64) - 1, (1 << 32) - 1):
                continue
            n += 1
            ok = any(a.call_cmp("vbi_pil_is_valid_date", "!=", 0) for a in atoms.atoms_at(f, i))
            key = "RF-DOM:%s:valid-date-before-conversion" % name
            if ok:
                run.holds("RF-DOM", key, "`%s` only after vbi_pil_is_valid_date (pil)" % ex.pretty(f, i)[:60], ex.loc(f, i))
            else:
                run.violation("RF-DOM", key, "`%s` is reachable without a successful vbi_pil_is_valid_date (pil): a label with hour "
                              "24..31 or minute 60..63 on a real day is converted (and normalised into another hour or day) instead "
                              "of being refused" % ex.pretty(f, i)[:60], ex.loc(f, i), witness={"function": name})
    run.floor("time_t returns of the PIL conversions", n, 2)


def _invalid_day_test(ctx, run):
    """RF-DOM: Annex F gives a PIL with an *invalid day* (31 February) an indefinite validity
    window; unreal hours or minutes on a real day do not - such a label still belongs to that
    day.  In both window functions the indefinite-window branch is selected by the day test
    against month_days[] alone, not by the stricter vbi_pil_is_valid_date()."""
    P = ctx.prog
    for name in ("vbi_pil_lto_validity_window", "vbi_pil_validity_window"):
        f = P.need(name, "src/pdc.c")
        run.touch(f)
        n = 0
        for bid, b in f.blocks.items():
            t = b.term
            if not t or "cond" not in t:
                continue
            txt = ex.pretty(f, t["cond"])
            uses_days = "month_days" in txt
            uses_valid = any(f.exprs[j]["k"] == "call" and f.exprs[j].get("callee") == "vbi_pil_is_valid_date" for j in ex.walk(f, t["cond"]))
            if not (uses_days or uses_valid):
                continue
            n += 1
            key = "RF-DOM:%s:invalid-day-test" % name
            if uses_valid:
                run.violation("RF-DOM", key, "%s() selects the indefinite window with vbi_pil_is_valid_date(), which also refuses "
                              "hours above 23 and minutes above 59: a label with an unreal time on a real day gets "
                              "[TIME_MIN, TIME_MAX] instead of that day's window" % name, "%s:%d" % (f.file, t.get("line", f.line)))
            else:
                run.holds("RF-DOM", key, "the indefinite window is selected by `%s`" % txt[:50], "%s:%d" % (f.file, t.get("line", f.line)))
        if n == 0:
            raise AnalysisBroken("%s: invalid-day test not found" % name)
