"""C12 — VPS / PDC / 8-30 codecs: failure leaves the output untouched
(RF-NOWRITE), decoders test every Hamming result before the output is written
(RF-NEG), and (bit provenance, RF-BITS) the VPS/DVB-PDC encoders and decoders
are bit-exact inverses that touch only their own fields."""
from .. import atoms, ex, flow, neg, nowrite, bits
from ..prog import AnalysisBroken

CLAUSE = ("(1) in the ten public VPS/PDC/8-30 codec functions no path to a `return FALSE` stores through an output "
          "parameter or calls something that may (failure leaves the output unmodified); (2) in the 8/30 format 2 decoders "
          "every store to the output is reached only after every vbi_unham8/16p result feeding it was tested non-negative "
          "(an OR-accumulated error word counts, a sum or mask does not); (3) bit provenance: every byte the VPS/DVB-PDC "
          "encoders store is, bit for bit, either the old buffer bit at the same position or a bit of the field being "
          "encoded; every field bit the range guards do not prove zero is stored somewhere (so out-of-range values must be "
          "refused, not truncated); each decoder reads every encoded field bit back from exactly the position the encoder "
          "put it.")
CLAUSE = CLAUSE + (" (4) RF-TAB: the Hamming 8/4 decoding table _vbi_hamm8_inv[256] agrees with the encoding table "
                   "_vbi_hamm8_fwd[16] entry by entry: every code word and each of its eight single-bit neighbours decodes to "
                   "the encoded nibble, every other byte to a negative value (so one correctable bit error cannot change a "
                   "decoded value and a double error is refused); the 24/18 parity/error tables have their declared sizes.")
CLAUSE = CLAUSE + (" (5) RF-IVL: every subscript of a constant-size array in vps.c, packet-830.c and pdc.c is in bounds under the "
                   "function's guards (month_days[month - 1] behind the unsigned `month - 1 < 12` test, the BCD and CNI tables).")
CLAUSE = CLAUSE + (" (6) RF-DOM: the VPS and DVB PDC descriptor decoders refuse on framing bytes only (descriptor_tag, "
                   "descriptor_length), never on the decoded label: every value the encoders accept decodes.")
CLAUSE = CLAUSE + (" (7) the 0xDC3 exception of vbi_decode_vps_cni is selected by an equality test of the whole received code.")
CLAUSE = CLAUSE + (' (8) the branch that negates the 8/30-1 local time offset depends on exactly one bit of the offset byte, none of the magnitude bits.')
NOT_DECIDED = ("BCD/MJD/UTC arithmetic of 8/30 format 1 (numeric), the Hamming 24/18 arithmetic, the TR 101 231 0xDC3 special case (documented exception, its branch "
               "is excluded from the bit-provenance comparison).")

UNIT_VPS = "src/vps.c"
UNIT_830 = "src/packet-830.c"

# function -> unit; frozen after reading both files
CODECS = [
    ("vbi_decode_vps_cni", UNIT_VPS), ("vbi_decode_vps_pdc", UNIT_VPS),
    ("vbi_decode_dvb_pdc_descriptor", UNIT_VPS), ("vbi_encode_vps_cni", UNIT_VPS),
    ("vbi_encode_vps_pdc", UNIT_VPS), ("vbi_encode_dvb_pdc_descriptor", UNIT_VPS),
    ("vbi_decode_teletext_8301_cni", UNIT_830), ("vbi_decode_teletext_8301_local_time", UNIT_830),
    ("vbi_decode_teletext_8302_cni", UNIT_830), ("vbi_decode_teletext_8302_pdc", UNIT_830),
]
HAMMING_DECODERS = ["vbi_decode_teletext_8302_cni", "vbi_decode_teletext_8302_pdc"]


def run(ctx, run):
    P = ctx.prog
    # ---- RF-NOWRITE ---------------------------------------------------------
    n_false_total = 0
    for name, unit in CODECS:
        f = P.need(name, unit)
        run.touch(f)
        outs = nowrite.out_params(f)
        if not outs:
            raise AnalysisBroken("%s: no output parameter found (signature changed?)" % name)
        viol, n_false, n_out, sp = nowrite.check(ctx, f, outs)
        n_false_total += 1 if n_false > 0 else 0
        key = "RF-NOWRITE:%s" % name
        for u in sp.unknown:
            raise AnalysisBroken("%s: %s" % (name, u[1]))
        if viol:
            first = sp.writes[0] if sp.writes else None
            for ret, rv in viol:
                line = f.exprs[ret]["line"] if ret is not None and ret >= 0 else f.endline
                run.violation("RF-NOWRITE", key, "a path reaches `%s` (line %d) after the output %s was already written "
                              "(first write: %s, line %s): the contract 'on FALSE the output remains unmodified' is broken"
                              % (ex.pretty(f, ret) if ret is not None and ret >= 0 else "end of function", line,
                                 "/".join(sorted(outs)), first[1] if first else "?",
                                 f.exprs[first[0]]["line"] if first else "?"),
                              "%s:%d" % (f.file, line),
                              witness={"function": name, "outs": sorted(outs), "exit_line": line,
                                       "writes": [(f.exprs[w[0]]["line"], w[1]) for w in sp.writes[:6]]})
        else:
            run.holds("RF-NOWRITE", key, "%d exit outcome(s), %d returning FALSE; none of the FALSE exits is reachable "
                      "after a write through %s (%d write site(s) seen, all on TRUE-only paths)"
                      % (n_out, n_false, "/".join(sorted(outs)), len(sp.writes)),
                      "%s:%d" % (f.file, f.line), nontrivial=n_false > 0)
    # (counted per function: merging two guards into one condition removes an exit, not a rejecting function)
    run.floor("RF-NOWRITE codec functions with a FALSE exit", n_false_total, 7)

    # ---- RF-NEG ----------------------------------------------------------------
    n_src = 0
    n_stores = 0
    for name in HAMMING_DECODERS:
        f = P.need(name, UNIT_830)
        a = neg.Neg(ctx, f).run()
        n_src += a.n_sources
        outs = set(nowrite.out_params(f))
        for eid, lhs, t in a.persistent_stores():
            r = ex.root(f, lhs)
            if r is None or f.exprs[r].get("name") not in outs:
                continue
            n_stores += 1
            key = "RF-NEG:%s:%s" % (name, ex.path(f, lhs))
            if t:
                run.violation("RF-NEG", key, "`%s` stores a value that depends on an unchecked Hamming result: %s"
                              % (ex.pretty(f, eid)[:90], a.describe(t)), ex.loc(f, eid),
                              witness={"function": name, "store": ex.pretty(f, eid)})
            else:
                run.holds("RF-NEG", key, "every Hamming result feeding `%s` was proven >= 0 on every path to the store"
                          % ex.path(f, lhs), ex.loc(f, eid))
    run.floor("RF-NEG Hamming decode call sites in the 8/30-2 decoders", n_src, 6)
    run.floor("RF-NEG output stores in the 8/30-2 decoders", n_stores, 10)
    _neg_selftest(ctx, run)
    _hamming_tables(ctx, run)

    # ---- RF-BITS ----------------------------------------------------------------
    bits.check_vps(ctx, run)
    from .. import sweep
    sweep.run(ctx, run, [UNIT_VPS, UNIT_830, "src/pdc.c"], {}, 90)
    _bcd_digit_bounds(ctx, run)
    _total_decoders(ctx, run)
    _dc3_exact(ctx, run)
    _sign_is_one_bit(ctx, run)
    neg.helper_contract(ctx, run)
    _codecs_stateless(ctx, run)
    _protected_bytes_only_through_unham(ctx, run)


def _codecs_stateless(ctx, run):
    """The ten codec functions are functions of their arguments: no object with static storage duration is written,
    and none that is not const is read.  (A decoder that remembers its previous input can accept what it refused a moment
    ago, or return a stale value for it: 'invalid input is rejected and leaves the output untouched' then depends on the
    call history.)"""
    P = ctx.prog
    n = 0
    for name, unit in CODECS:
        f = P.need(name, unit)
        n += 1
        bad = None
        for i, e in enumerate(f.exprs):
            if e["k"] == "ref" and e.get("dk") in ("slocal", "global"):
                t = e.get("t") or ""
                if "(" in t:                      # a function designator
                    continue
                elem = t.split("[")[0].strip()
                if elem.startswith("const ") or elem.endswith(" const") or elem.endswith("*const"):
                    continue                      # a constant table
                bad = (i, e)
                break
        key = "RF-PURE:%s:stateless" % name
        if bad is None:
            run.holds("RF-PURE", key, "%s reads and writes no modifiable object with static storage duration" % name,
                      "%s:%d" % (f.file, f.line))
        else:
            run.violation("RF-PURE", key, "%s uses the modifiable static object `%s`: its result depends on earlier calls, so an "
                          "input refused once can be accepted (or decoded to a stale value) when it is presented again"
                          % (name, bad[1].get("name")), "%s:%d" % (f.file, bad[1].get("line", f.line)),
                          witness={"function": name, "object": bad[1].get("name")})
    run.floor("codec functions examined for static state", n, 10)


def _protected_bytes_only_through_unham(ctx, run):
    """8/30 format 2 is Hamming 8/4 protected throughout: every read of the packet goes through vbi_unham8 /
    vbi_unham16p (whose result RF-NEG follows).  A raw byte that reaches an output by-passes the error correction: a
    correctable single-bit error is accepted and the uncorrected bit is announced."""
    P = ctx.prog
    UNHAM = ("vbi_unham8", "vbi_unham16p", "vbi_unham24p")
    n = 0
    for name in HAMMING_DECODERS:
        f = P.need(name, UNIT_830)
        buf = f.params[-1]["name"]
        parent = {}
        for i, e in enumerate(f.exprs):
            for c in e.get("c") or []:
                if c is not None and c >= 0:
                    parent.setdefault(c, i)
            if e["k"] == "decl":
                for v in e.get("vars", []):
                    if v.get("init") is not None and v["init"] >= 0:
                        parent.setdefault(v["init"], i)
        reachable = set()
        for bid, i in flow.all_events(f):
            for x in ex.walk(f, i):
                reachable.add(x)
        for b in f.blocks.values():
            if b.term and "cond" in b.term:
                for x in ex.walk(f, b.term["cond"]):
                    reachable.add(x)
        for i, e in enumerate(f.exprs):
            if not (e["k"] == "ref" and e.get("dk") == "param" and e.get("name") == buf) or i not in reachable:
                continue
            n += 1
            j, ok, k = i, False, 0
            derived = True        # so far only pointer derivation / a plain copy, no arithmetic on a packet byte
            while j in parent and k < 40:
                prev = j
                j = parent[j]
                k += 1
                pe = f.exprs[j]
                if pe["k"] in ("bin", "un") and not (pe.get("t") or "").rstrip().endswith("*") and not (pe["k"] == "un" and pe["op"] == "*"):
                    if not (pe["k"] == "bin" and pe["op"] in ("==", "!=") and any(ex.is_null(f, c) for c in pe["c"])):
                        derived = False
                if pe["k"] == "idx" and pe["c"][0] != prev:
                    derived = False   # the packet byte is used as an index
                if pe["k"] == "call":
                    ok = pe.get("callee") in UNHAM or pe.get("callee") in ("__assert_fail",)
                    break
                if pe["k"] == "bin" and pe["op"] in ("==", "!=") and any(ex.is_null(f, c) for c in pe["c"]):
                    ok = True
                    break
            key = "RF-NEG:%s:protected-read:%d" % (name, e.get("line", 0))
            if ok:
                run.holds("RF-NEG", key, "the packet is read through a Hamming decoder (or compared with NULL)", "%s:%d" % (f.file, e.get("line", f.line)))
            elif derived:
                run.undecided("RF-NEG", key, "%s copies a packet byte or derives a pointer into the packet without decoding it on the "
                              "spot; where the copy goes is not followed" % name, "%s:%d" % (f.file, e.get("line", f.line)))
            else:
                top = i
                while top in parent and f.exprs[parent[top]]["k"] not in ("asg", "decl", "ret"):
                    top = parent[top]
                run.violation("RF-NEG", key, "%s reads the Hamming protected packet outside vbi_unham8 / vbi_unham16p (`%s`): the raw "
                              "bits by-pass the error correction, a correctable single-bit error changes the decoded value"
                              % (name, ex.pretty(f, top)[:70]), "%s:%d" % (f.file, e.get("line", f.line)),
                              witness={"function": name, "expression": ex.pretty(f, top)})
    run.floor("reads of the Hamming protected packet in the 8/30-2 decoders", n, 6)


def _sign_is_one_bit(ctx, run):
    """8/30 format 1 local time offset: magnitude and sign come from one byte.  The branch that negates the
    offset is a two-valued decision about the sign, so it depends on exactly one bit of that byte, and on none of
    the bits the magnitude is taken from (bit provenance of the branch condition; RF-BITS)."""
    P = ctx.prog
    f = P.need("vbi_decode_teletext_8301_local_time", UNIT_830)
    run.touch(f)
    ev = bits.Eval(ctx, f)
    n = 0
    for bid, i in flow.all_events(f):
        for lhs, var, op, rhs in flow.stores(f, i):
            if lhs is None or rhs is None or op != "=":
                continue
            l, r = f.exprs[ex.skip(f, lhs)], f.exprs[ex.skip(f, rhs)]
            if not (l["k"] == "ref" and r["k"] == "un" and r["op"] == "-"):
                continue
            rr = f.exprs[ex.skip(f, r["c"][0])]
            if not (rr["k"] == "ref" and rr.get("name") == l.get("name")):
                continue
            # the innermost dominating branch
            de = flow.dominating_edges(f, bid)
            if not de:
                continue
            src, lab, cond = de[0]
            if cond is None:
                continue
            n += 1
            vb = ev.ev({}, cond)
            dep = sorted({(b[1], b[2]) for b in vb if isinstance(b, tuple) and b[0] == "in"})
            unknown = any(b is None for b in vb)
            # where the magnitude comes from: input bits of the value that is negated, at its definition
            key = "RF-BITS:%s:sign-test" % f.name
            if unknown or not dep:
                run.note("%s: the condition `%s` of the sign branch is not a pure function of input bits: not decided"
                         % (f.name, ex.pretty(f, cond)))
                continue
            mag = set()
            from .. import linear
            rd = linear.reaching_def(f, l["name"], i)
            if rd is not None and rd[2] is not None:
                mag = {(b[1], b[2]) for b in ev.ev({}, rd[2]) if isinstance(b, tuple) and b[0] == "in"}
                # a product hides its factors: look at the factors as well (not below them: the raw byte has all bits)
                st_ = [rd[2]]
                while st_:
                    m = ex.skip(f, st_.pop())
                    me = f.exprs[m]
                    while me["k"] == "cast":
                        m = ex.skip(f, me["c"][0])
                        me = f.exprs[m]
                    mag |= {(b[1], b[2]) for b in ev.ev({}, m) if isinstance(b, tuple) and b[0] == "in"}
                    if me["k"] == "bin" and me["op"] in ("*", "+", "-"):
                        st_.extend(me["c"])
            if len(dep) == 1 and not (set(dep) & mag):
                run.holds("RF-BITS", key, "`%s = -%s` is decided by bit %d of %s alone" % (l["name"], l["name"], dep[0][1], dep[0][0]),
                          ex.loc(f, i))
            else:
                run.violation("RF-BITS", key, "the branch that negates `%s` is taken on `%s`, which depends on %s: the sign of a "
                              "sign-magnitude field is one bit; here %s" % (
                                  l["name"], ex.pretty(f, cond), ", ".join("bit %d of %s" % (j, p_) for p_, j in dep),
                                  "a magnitude bit also acts as sign" if set(dep) & mag else
                                  "a reserved bit next to the sign bit flips the sign when it is set"),
                              ex.loc(f, i), witness={"condition": ex.pretty(f, cond), "depends_on": ["%s.%d" % d for d in dep]})
    run.floor("sign branches in vbi_decode_teletext_8301_local_time", n, 1)


def _neg_selftest(ctx, run):
    from .. import selftest
    P2 = selftest.load_positive("neg_pos.c")
    c2 = selftest.Ctx(P2)
    res = {}
    for fn in ("bad_sum", "bad_unchecked", "bad_loop", "good_or", "good_each"):
        f = P2.need(fn)
        a = neg.Neg(c2, f).run()
        res[fn] = any(t for _, _, t in a.persistent_stores())
    want = {"bad_sum": True, "bad_unchecked": True, "bad_loop": True, "good_or": False, "good_each": False}
    if res != want:
        raise AnalysisBroken("self-test failed: RF-NEG on selftest/pos/neg_pos.c gave %s, expected %s" % (res, want))
    run.extra["positive_example_neg"] = "selftest/pos/neg_pos.c: 3 bad shapes reported, 2 good shapes silent"


def _hamming_tables(ctx, run):
    fwd, g1 = ctx.global_table_values("_vbi_hamm8_fwd")
    inv, g2 = ctx.global_table_values("_vbi_hamm8_inv")
    if not fwd or not inv or len(fwd) != 16 or len(inv) != 256:
        raise AnalysisBroken("Hamming 8/4 tables not found or of unexpected size (%s, %s)"
                             % (len(fwd) if fwd else None, len(inv) if inv else None))
    loc = "%s:%d" % (g2.get("file", "src/hamm-tables.h"), g2.get("line", 0))
    expect = {}
    clash = []
    for n, c in enumerate(fwd):
        for v in [c] + [c ^ (1 << k) for k in range(8)]:
            if v in expect and expect[v] != n:
                clash.append(v)
            expect[v] = n
    key = "RF-TAB:hamm8:distance"
    if clash:
        run.violation("RF-TAB", key, "two code words of _vbi_hamm8_fwd[] are within two bit flips of each other (byte(s) %s): the code "
                      "cannot correct single errors" % ", ".join("0x%02X" % v for v in clash[:4]), loc)
    else:
        run.holds("RF-TAB", key, "the 16 code words of _vbi_hamm8_fwd[] have pairwise disjoint single-error neighbourhoods (144 bytes)", loc)
    bad = []
    for v in range(256):
        got = inv[v]
        if got > 127:
            got -= 256
        want = expect.get(v)
        if want is None:
            if got >= 0:
                bad.append((v, got, "negative (two or more bit errors)"))
        elif (got & 0xF if got >= 0 else got) != want or got < 0:
            bad.append((v, got, want))
    key = "RF-TAB:hamm8:inverse-agrees-with-forward"
    if bad:
        v, got, want = bad[0]
        run.violation("RF-TAB", key, "_vbi_hamm8_inv[0x%02X] is %s but the encoding table says it must decode to %s (%d entr%s "
                      "disagree): a byte with one correctable bit error decodes to a different value / an uncorrectable byte is "
                      "accepted" % (v, got, want, len(bad), "y" if len(bad) == 1 else "ies"), loc,
                      witness={"entries": [[hex(a), b, str(c)] for a, b, c in bad[:8]]})
    else:
        run.holds("RF-TAB", key, "all 256 entries of _vbi_hamm8_inv[] agree with _vbi_hamm8_fwd[]: 144 decode to their nibble, 112 are "
                  "negative", loc)


def _bcd_digit_bounds(ctx, run):
    """`E - 0x11...1` (n ones) is the 'digits minus one each' idiom of the 8/30 format 1 decoder:
    E must be an n digit value, i.e. at most 16^n - 1 (the upper nibble of its first byte is not part
    of the field and must be masked off)."""
    from .. import absint
    f = ctx.prog.need("vbi_decode_teletext_8301_local_time", UNIT_830)
    run.touch(f)
    an = ctx.analysis(f, False)
    n = 0
    for i, e in enumerate(f.exprs):
        if e["k"] == "bin" and e["op"] == "-" and flow.elem_pos(f).get(i) is not None:
            k = ex.const(f, e["c"][1])
            if k is None or k < 0x111 or set(hex(k)[2:]) != {"1"}:
                continue
            digits = len(hex(k)[2:])
            st = an.state_before_expr(i)
            if st is None:
                continue
            v = an.eval(st, e["c"][0])
            n += 1
            key = "RF-IVL:vbi_decode_teletext_8301_local_time:bcd-%d-digits" % digits
            cap = 16 ** digits - 1
            if v[1] is not None and v[1] <= cap:
                run.holds("RF-IVL", key, "the %d digit BCD field is assembled from at most %d bits (value <= 0x%X)" % (digits, 4 * digits, v[1]),
                          ex.loc(f, i))
            else:
                run.violation("RF-IVL", key, "the %d digit BCD field is assembled with bits above digit %d (value up to 0x%X): reserved "
                              "bits of the packet enter the number, a valid packet with those bits set is refused (or decoded to a "
                              "different date)" % (digits, digits, v[1] if v[1] is not None else -1), ex.loc(f, i),
                              witness={"digits": digits, "upper_bound": v[1]})
    run.floor("BCD fields in the 8/30 format 1 decoder", n, 2)


def _total_decoders(ctx, run):
    """RF-DOM: the VPS line and the DVB PDC descriptor have no invalid *values* - every CNI and
    every 20 bit PIL (service codes, unreal dates and 0 included) is a legal label.  The VPS
    decoders therefore never refuse, and the descriptor decoder refuses only on the framing bytes
    (descriptor_tag, descriptor_length): a refusal that depends on the decoded payload makes the
    decoder partial on the encoder's range."""
    P = ctx.prog
    n = 0
    for name in ("vbi_decode_vps_cni", "vbi_decode_vps_pdc", "vbi_decode_dvb_pdc_descriptor"):
        f = P.need(name, "src/vps.c")
        run.touch(f)
        bname = [p["name"] for p in f.params if p["name"] == "buffer"]
        if not bname:
            raise AnalysisBroken("%s: parameter `buffer` not found" % name)
        for bid, i in flow.all_events(f):
            e = f.exprs[i]
            if e["k"] != "ret" or not e.get("c") or ex.const(f, e["c"][0]) != 0:
                continue
            n += 1
            bad = []
            for a in atoms.atoms_at(f, i):
                for side in (a.L, a.R):
                    if side is None or side.node is None:
                        continue
                    for j in ex.walk(f, side.node):
                        x = f.exprs[j]
                        if x["k"] == "ref" and x.get("dk") == "local":
                            bad.append(x["name"])
                        if x["k"] == "idx":
                            r = ex.root(f, j)
                            ci = ex.const(f, x["c"][1])
                            if r is not None and f.exprs[r].get("name") == "buffer" and (ci is None or ci > 1):
                                bad.append("buffer[%s]" % (ci if ci is not None else "?"))
            key = "RF-DOM:%s:refuses-framing-only@%d" % (name, f.exprs[i]["line"])
            if bad:
                run.violation("RF-DOM", key, "%s() refuses input depending on the decoded payload (%s): every label the encoder "
                              "accepts must decode - the decoder is no longer the inverse of the encoder for the refused values"
                              % (name, ", ".join(sorted(set(bad)))), ex.loc(f, i))
            else:
                run.holds("RF-DOM", key, "the refusal depends only on descriptor_tag / descriptor_length", ex.loc(f, i))
    run.floor("refusing exits of the VPS / DVB PDC decoders", n, 1)


def _dc3_exact(ctx, run):
    """RF-CORR: TR 101 231 lets exactly one VPS code, 0xDC3, stand for two stations (told apart
    by a distinction bit).  The decoder's replacement of the CNI therefore sits behind an equality
    test of the *whole* received code with 0xDC3; a masked comparison makes other codes (0xFC3)
    decode to ARD / ZDF as well - values that were never sent."""
    P = ctx.prog
    f = P.need("vbi_decode_vps_cni", "src/vps.c")
    run.touch(f)
    n = 0
    for bid, b in f.blocks.items():
        t = b.term
        if not t or "cond" not in t:
            continue
        for a in atoms.atoms_of(f, t["cond"], True):
            consts = [x.const for x in (a.L, a.R) if x is not None and x.const is not None]
            if 0x0DC3 not in consts:
                continue
            n += 1
            other = a.R if (a.L.const == 0x0DC3) else a.L
            node = f.exprs[ex.skip(f, other.node)] if other is not None and other.node is not None else None
            while node is not None and node["k"] == "cast":
                node = f.exprs[ex.skip(f, node["c"][0])]
            key = "RF-CORR:vbi_decode_vps_cni:dc3-exact"
            if a.rel in ("==", "!=") and node is not None and node["k"] == "ref":
                run.holds("RF-CORR", key, "the TR 101 231 exception is taken for `%s == 0xDC3` only" % node.get("name"),
                          "%s:%d" % (f.file, t.get("line", f.line)))
            else:
                run.violation("RF-CORR", key, "the test that selects the 0xDC3 exception is `%s`, not an equality of the whole "
                              "received code with 0xDC3: other codes take the exception too and decode to ARD / ZDF although "
                              "something else was sent" % repr(a), "%s:%d" % (f.file, t.get("line", f.line)))
    run.floor("tests against the shared code 0xDC3 in vbi_decode_vps_cni", n, 1)
