"""C07 — DVB demultiplexer: no hidden state, guarded byte accounting, bounded
lookahead, guarded cursors, continuity resynchronisation."""
from .. import absint, atoms, ex, flow, ivl, loops
from ..prog import AnalysisBroken

CLAUSE = ("dvb_demux.c: (RF-PURE) no function writes an object with static storage duration - everything resumable lives in "
          "the demux object, a necessary condition of 'output is a function of the concatenated bytes'; (RF-UNDERFLOW) every "
          "unsigned subtraction in the wrap-around byte accounting (skip, leftover, required, *src_left) is made under a still-valid "
          "branch fact `minuend >= subtrahend` on the very same operands; (RF-IVL) every value stored into a wrap buffer's lookahead "
          "is bounded by that buffer's declared size; (RF-DOM) the sliced output cursor advances only under sp < sliced_end, a data "
          "unit's bytes are used only after `p + data_unit_length <= end`, the coroutine copy is bounded by the caller's "
          "max_lines; (RF-CORR) after a TS continuity mismatch that is not a repeated packet the expected counter is re-synchronised "
          "on every path; a frame error reaches reset_frame before the next packet is parsed.")
CLAUSE = CLAUSE + (" (RF-IVL/RF-CUR) every subscript of a constant-size array and every tracked cursor dereference in dvb_demux.c "
                   "is in bounds under the function's guards (named trusted sites excepted).")
SWEEP_TRUSTED = {
    "RF-IVL:lofp_to_line:field_start[][local]": "*field was assigned !(lofp & (1 << 5)) two statements earlier: 0 or 1",
    "RF-IVL:line_address:raw_start[local]": "field is the out-parameter lofp_to_line() just wrote: 0 or 1",
    "RF-IVL:line_address:raw_count[local]": "field is the out-parameter lofp_to_line() just wrote: 0 or 1",
}
CLAUSE = CLAUSE + (" (RF-DEP, path-sensitive zero-ness valuations) in demux_ts_packet every copy that may bring ts_pes_todo to zero "
                   "(PES packet complete) is followed by the header examination or an explicit discard before the collecting cursor is "
                   "rewound for the next PES packet - also when the whole TS packet was already in the synchronisation buffer.")
CLAUSE = CLAUSE + (" Every advance of the PES collecting cursor ts_pes_bp is paired, in the same step, with the countdown of ts_pes_todo by the same amount.")
CLAUSE = CLAUSE + (" The PES header validation reads no byte beyond the look-ahead the wrap-around buffer guarantees (else "
                   "its verdict depends on where the input was cut).")
CLAUSE = CLAUSE + (" frame_pts is latched from packet_pts only under dx->new_frame; no case of the PES header switch falls through "
                   "into another label.")
CLAUSE = CLAUSE + (' (RF-UNIT) every wrap-around skip computed behind the start-code scan anchor contains the scanned distance (cursor - anchor).')
CLAUSE = CLAUSE + (" Both callers of demux_pes_packet_frame() store new_frame := TRUE for an error result (a value of its return range "
                   "other than 0 and VBI_ERR_CALLBACK): the lines of the damaged frame are dropped, so the frame cursor cannot stay at "
                   "the end of the line buffer.")
CLAUSE = CLAUSE + (" In demux_ts_packet every test of a packet's PID against the selected PID is dominated by the test of its "
                   "transport_error_indicator (no second, partition-dependent route drops foreign packets unexamined).")
NOT_DECIDED = ("partition invariance as such (that feeding byte by byte yields identical frames), 'all but the first frame after "
               "damage are delivered', PES/TS header field semantics.")

UNIT = "src/dvb_demux.c"


def run(ctx, run):
    P = ctx.prog
    fs = [f for f in P.funcs if f.file == UNIT]
    run.floor("functions in dvb_demux.c", len(fs), 20)
    # ---- RF-PURE -----------------------------------------------------------
    bad = []
    for f in fs:
        run.touch(f)
        for bid, i in flow.all_events(f):
            for lhs, var, op, rhs in flow.stores(f, i):
                if lhs is None:
                    continue
                r = ex.root(f, lhs)
                if r is not None and f.exprs[r].get("dk") in ("global", "slocal"):
                    bad.append((f, i))
    if bad:
        for f, i in bad:
            run.violation("RF-PURE", "RF-PURE:%s" % f.name, "`%s` writes static storage: the demultiplexer's output then depends on "
                          "more than its object and the byte stream (two demultiplexers, or two runs over the same bytes, influence each "
                          "other)" % ex.pretty(f, i)[:70], ex.loc(f, i))
    else:
        run.holds("RF-PURE", "RF-PURE:dvb_demux.c", "%d functions, no store to an object with static storage duration" % len(fs), UNIT,
                  nontrivial=False)

    _underflow(ctx, run, P.need("wrap_around", UNIT))
    _lookahead(ctx, run, fs)
    _cursors(ctx, run)
    _continuity(ctx, run, P.need("demux_ts_packet", UNIT))
    _frame_reset(ctx, run)
    _reset_complete(ctx, run, fs)
    _skip_before_lookahead(ctx, run, P.need("demux_pes_packet", UNIT))
    _unit_lengths(ctx, run, P.need("extract_data_units", UNIT))
    _complete_packet_examined(ctx, run, P.need("demux_ts_packet", UNIT))
    _cursor_and_count_together(ctx, run, P.need("demux_ts_packet", UNIT))
    _frame_pts_latched_at_start(ctx, run, P.need("demux_pes_packet_frame", UNIT))
    _no_case_fallthrough(ctx, run, P.need("valid_vbi_pes_packet_header", UNIT))
    _skip_counts_from_anchor(ctx, run, P.need("demux_pes_packet", UNIT))
    _unit_fits_the_end(ctx, run, P.need("extract_data_units", UNIT))
    _frame_error_discards(ctx, run)
    _pid_filter_behind_error_indicator(ctx, run, P.need("demux_ts_packet", UNIT))
    # partition invariance: the header validation looks only at bytes the wrap-around buffer has been
    # asked to provide (rule shared with C06)
    from . import C06
    C06._header_lookahead(ctx, run)
    from .. import sweep
    sweep.run(ctx, run, [UNIT], SWEEP_TRUSTED, 20, 1)

def _unit_fits_the_end(ctx, run, f):
    """extract_data_units(): the loop runs while the two header bytes of a data unit lie inside the packet
    (`p + a < L`, so the packet ends at L - a + 2), and a unit is used only if `p + data_unit_length <= G`.  The unit
    occupies 2 + data_unit_length bytes, so it fits iff G <= L - a: the guard and the loop condition have to describe the
    same end (linear forms through reaching definitions).  Otherwise a unit crossing the end of the packet by one or two
    bytes is decoded from whatever follows - which depends on how the stream was cut."""
    from .. import linear
    run.touch(f)
    cur = None
    loopc = None
    guard = None
    for bid in f.rpo():
        t = f.blocks[bid].term
        if not t or "cond" not in t:
            continue
        j = ex.skip(f, t["cond"])
        e = f.exprs[j]
        while e["k"] == "call" and e.get("callee") == "__builtin_expect":
            j = ex.skip(f, e["c"][0])
            e = f.exprs[j]
        while e["k"] in ("cast",) or (e["k"] == "un" and e["op"] == "!"):
            j = ex.skip(f, e["c"][0])
            e = f.exprs[j]
        if e["k"] != "bin" or e["op"] not in ("<", ">", "<=", ">="):
            continue
        ev = f.blocks[bid].elems[-1] if f.blocks[bid].elems else None
        if ev is None:
            continue
        fa, fb = linear.exact(f, e["c"][0], ev), linear.exact(f, e["c"][1], ev)
        if fa is None or fb is None:
            continue
        op = e["op"]
        if op in (">", ">="):
            fa, fb, op = fb, fa, {">": "<", ">=": "<="}[op]
        # now  fa op fb  with op in < , <=
        pa = {k: v for k, v in fa[0].items()}
        pb = {k: v for k, v in fb[0].items()}
        ptrs = lambda d: [k for k in d if any(p_.get("t", "").rstrip().endswith("*") for p_ in _decls(f, k))]
        if t.get("kind") in ("WhileStmt", "ForStmt") and len(pa) == 1 and ptrs(pa) and list(pa.values()) == [1] and loopc is None:
            loopc = (list(pa)[0], fa[1], fb, op)
        elif loopc is not None and guard is None and len(pb) == 2 and pb.get(loopc[0]) == 1 and fb[1] == 0 \
                and loopc[0] not in pa:
            # G < p + dul   (from  p + dul > G)
            guard = (fa, fb, op, bid)
    if loopc is None or guard is None:
        raise AnalysisBroken("extract_data_units: loop condition / data unit overflow guard not found")
    cursor, a, L, lop = loopc
    G = guard[0]
    D = linear._add(G, L, -1)
    key = "RF-LIN:extract_data_units:unit-fits-the-end"
    if D[0]:
        run.note("extract_data_units: the overflow guard bound %s and the loop bound %s are not comparable; not decided"
                 % (linear.fmt(G), linear.fmt(L)))
        return
    if D[1] + a <= 0:
        run.holds("RF-LIN", key, "loop while %s + %d < %s, unit used only if it ends at or before %s: header and payload fit"
                  % (cursor, a, linear.fmt(L), linear.fmt(G)), "%s:%d" % (f.file, f.line))
    else:
        run.violation("RF-LIN", key, "the loop runs while %s + %d < %s but a data unit is accepted when %s + data_unit_length <= %s: "
                      "the two header bytes are not accounted for, a unit may extend %d byte(s) past the end of the packet and is "
                      "decoded from the bytes that follow" % (cursor, a, linear.fmt(L), cursor, linear.fmt(G), D[1] + a),
                      "%s:%d" % (f.file, f.blocks[guard[3]].term.get("line", f.line)),
                      witness={"loop_bound": linear.fmt(L), "guard_bound": linear.fmt(G), "header_bytes_in_loop_test": a})


def _decls(f, name):
    out = [p_ for p_ in f.params if p_["name"] == name]
    for e in f.exprs:
        if e["k"] == "decl":
            out += [v for v in e.get("vars", []) if v["name"] == name]
    return out


def _skip_counts_from_anchor(ctx, run, f):
    """wrap_around() removes pes_wrap.skip bytes counted from the start of the window it handed out.  The
    start code scan advances a cursor from an anchor (`scan_begin = p`); a skip computed at the cursor
    therefore has to contain the scanned distance (cursor - anchor), otherwise what is skipped ends short of
    where the scan stood and depends on how many bytes were scanned, i.e. on how the stream was cut."""
    from .. import linear
    run.touch(f)
    anchors = []
    for bid, i in flow.all_events(f):
        for lhs, var, op, rhs in flow.stores(f, i):
            if lhs is None or op != "=" or rhs is None:
                continue
            l, r = f.exprs[ex.skip(f, lhs)], f.exprs[ex.skip(f, rhs)]
            if l["k"] == "ref" and r["k"] == "ref" and l.get("dk") == "local" and r.get("dk") in ("local", "param") \
                    and l.get("t", "").rstrip().endswith("*") and r.get("t", "").rstrip().endswith("*") and "it" not in l:
                anchors.append((bid, i, l["name"], r["name"]))
    stores = []
    for bid, i in flow.all_events(f):
        for lhs, var, op, rhs in flow.stores(f, i):
            if lhs is None or op != "=" or rhs is None:
                continue
            l = f.exprs[ex.skip(f, lhs)]
            if l["k"] == "mem" and l["member"] == "skip" and l.get("in") == "wrap":
                stores.append((bid, i, rhs))
    run.floor("stores of the wrap-around skip count in demux_pes_packet", len(stores), 4)
    n = 0
    for abid, ai, anchor, cursor in anchors:
        dom = [(b, i, rhs) for b, i, rhs in stores if b != abid and flow.dominates(f, abid, b)]
        forms = [(i, linear.exact(f, rhs, i)) for b, i, rhs in dom]
        with_d = [(i, fm) for i, fm in forms if fm is not None and fm[0].get(cursor) == 1 and fm[0].get(anchor) == -1]
        if not with_d:
            continue            # not a scan anchor
        for i, fm in forms:
            n += 1
            key = "RF-UNIT:%s:skip-from-window-start:%s" % (f.name, linear.fmt(({k: v for k, v in (fm[0] if fm else {}).items()
                                                                                    if k not in (cursor, anchor)}, 0)) if fm else "?")
            if fm is not None and fm[0].get(cursor) == 1 and fm[0].get(anchor) == -1:
                run.holds("RF-UNIT", key, "`%s` = %s counts from the window start" % (ex.pretty(f, i)[:60], linear.fmt(fm)), ex.loc(f, i))
            else:
                run.violation("RF-UNIT", key, "`%s` is computed at the scan cursor `%s` but does not contain the scanned distance "
                              "%s - %s (its siblings do): wrap_around() counts the skip from the start of the window, so the skip "
                              "ends short by the bytes already scanned and the scan resumes inside the packet that was to be skipped"
                              % (ex.pretty(f, i)[:90], cursor, cursor, anchor), ex.loc(f, i),
                              witness={"function": f.name, "form": linear.fmt(fm) if fm else None})
    run.floor("skip stores behind the scan anchor", n, 3)


def _underflow(ctx, run, f):
    an = ctx.analysis(f, False)
    n = 0
    for bid, i in flow.all_events(f):
        e = f.exprs[i]
        if e["k"] != "asg":
            continue
        if e["op"] == "-=":
            x, y = e["c"][0], e["c"][1]
        elif e["op"] == "=":
            r = f.exprs[ex.skip(f, e["c"][1])]
            if not (r["k"] == "bin" and r["op"] == "-" and ex.const(f, r["c"][0]) is None and ex.const(f, r["c"][1]) is None):
                continue
            x, y = r["c"][0], r["c"][1]
        else:
            continue
        it = f.exprs[ex.skip(f, e["c"][0])].get("it")
        if not it or it[1]:
            continue                    # signed or not an integer
        if ex.const(f, y) is not None:
            continue
        n += 1
        px, py = ex.path(f, x), ex.path(f, y)
        ok = False
        facts = []
        if px and py:
            for a in atoms.atoms_at(f, i):
                if a.R is None or a.L.node is None or a.R.node is None:
                    continue
                pl, pr = ex.path(f, a.L.node), ex.path(f, a.R.node)
                match = (pl == px and pr == py and a.rel in (">", ">=")) or (pl == py and pr == px and a.rel in ("<", "<="))
                if not match:
                    continue
                facts.append(repr(a))
                # neither operand is assigned between the branch and the subtraction
                # (writes through the byte pointers of memcpy/memmove into the wrap buffer do not count)
                if not _assigned_between(f, a.src, a.lab, bid, i, {px, py}):
                    ok = True
        key = "RF-UNDERFLOW:wrap_around:%s-=%s" % (px, py)
        if ok:
            run.holds("RF-UNDERFLOW", key, "`%s` under the still-valid fact %s >= %s" % (ex.pretty(f, i), px, py), ex.loc(f, i))
        else:
            run.violation("RF-UNDERFLOW", key, "`%s`: no branch fact on these very operands (%s >= %s) is valid here - the test that "
                          "precedes it is about a different (or since modified) quantity, so the unsigned byte count can wrap or carry "
                          "a stale value" % (ex.pretty(f, i), px, py), ex.loc(f, i),
                          witness={"function": f.name, "valid_facts": facts[:8]})
    run.floor("unsigned subtractions in wrap_around", n, 6)


def _assigned_between(f, src, lab, bid, eid, paths):
    """Some path from edge (src, lab) to event eid assigns one of `paths`."""
    start = [s for s, l in f.edges(src) if l == lab]
    if not start:
        return True
    can_reach = set()
    # blocks from which bid is reachable
    rev = {}
    for b in f.blocks:
        for s, _ in f.edges(b):
            rev.setdefault(s, set()).add(b)
    st = [bid]
    while st:
        n = st.pop()
        if n in can_reach:
            continue
        can_reach.add(n)
        st.extend(rev.get(n, ()))
    region = flow.reach_from(f, start[0]) & can_reach
    for b in region:
        for j in flow.events(f, b):
            if b == bid and flow.elem_pos(f)[j][1] >= flow.elem_pos(f)[eid][1]:
                break
            for lhs, var, op, rhs in flow.stores(f, j):
                if var is not None:
                    if var["name"] in paths:
                        return True
                elif lhs is not None and ex.path(f, lhs) in paths:
                    return True
    return False


def _lookahead(ctx, run, fs):
    P = ctx.prog
    sizes = {}
    rec = P.record("_vbi_dvb_demux")
    if not rec:
        raise AnalysisBroken("struct _vbi_dvb_demux not found")
    for fl in rec["fields"]:
        if fl["name"] in ("pes_buffer", "ts_buffer"):
            sizes[fl["name"]] = fl["size"]
    if len(sizes) != 2:
        raise AnalysisBroken("pes_buffer/ts_buffer not found")
    pair = {"pes_wrap": "pes_buffer", "ts_wrap": "ts_buffer"}
    n = 0
    for f in fs:
        an = None
        for bid, i in flow.all_events(f):
            for lhs, var, op, rhs in flow.stores(f, i):
                if lhs is None:
                    continue
                l = f.exprs[ex.skip(f, lhs)]
                if not (l["k"] == "mem" and l.get("in") == "wrap" and l["member"] == "lookahead"):
                    continue
                b = f.exprs[ex.skip(f, l["c"][0])]
                owner = b.get("member")
                if owner not in pair:
                    continue
                n += 1
                an = an or ctx.analysis(f, False)
                st = an.state_before_expr(i)
                if st is None:
                    continue
                v = an.eval(st, i) if f.exprs[i]["k"] == "asg" else (None, None)
                cap = sizes[pair[owner]]
                key = "RF-IVL:%s:%s.lookahead@%d" % (f.name, owner, _ordinal(f, i, owner))
                if v[1] is not None and v[1] <= cap and (v[0] is None or v[0] >= 0 or True):
                    run.holds("RF-IVL", key, "`%s`: value in %s, %s holds %d bytes" % (ex.pretty(f, i)[:60], v, pair[owner], cap), ex.loc(f, i),
                              nontrivial=v[0] != v[1])
                elif _monotone_decrease(f, i, l):
                    run.holds("RF-IVL", key, "`%s` only decreases the lookahead, under a test that it exceeds the subtrahend: the bound "
                              "established by the other stores is preserved" % ex.pretty(f, i)[:60], ex.loc(f, i))
                elif _complement_of_fill(f, i, rhs, cap):
                    run.holds("RF-IVL", key, "`%s`: a constant <= %d minus the fill level (bp - buffer) of the same wrap buffer; trusted "
                              "invariant: buffer <= bp <= buffer + constant (bp only advances by amounts limited by the previous "
                              "lookahead)" % (ex.pretty(f, i)[:60], cap), ex.loc(f, i), nontrivial=False)
                    run.extra.setdefault("trusted_invariants", []).append("%s: %s relies on 0 <= bp - ts_buffer <= TS_SYNC_SEARCH_LOOKAHEAD"
                                                                           % (f.name, ex.pretty(f, i)[:60]))
                else:
                    run.violation("RF-IVL", key, "`%s` can store %s into the lookahead of %s, whose buffer %s has %d bytes: wrap_around "
                                  "copies `lookahead` bytes into it" % (ex.pretty(f, i)[:60], v, owner, pair[owner], cap), ex.loc(f, i))
    run.floor("lookahead stores", n, 10)


def _monotone_decrease(f, i, l):
    """`field -= y` dominated by `copy > y` where copy was loaded from the same field."""
    e = f.exprs[i]
    if not (e["k"] == "asg" and e["op"] == "-="):
        return False
    py = ex.path(f, e["c"][1])
    pf = ex.path(f, e["c"][0])
    for a in atoms.atoms_at(f, i):
        if a.rel not in (">", ">=") or a.R is None or a.R.node is None or ex.path(f, a.R.node) != py:
            continue
        pl = ex.path(f, a.L.node) if a.L.node is not None else None
        if pl == pf:
            return True
        # a local copy of the field
        for bid, j in flow.all_events(f):
            for lhs, var, op, rhs in flow.stores(f, j):
                nm = var["name"] if var is not None else (f.exprs[ex.skip(f, lhs)].get("name") if lhs is not None and f.exprs[ex.skip(f, lhs)]["k"] == "ref" else None)
                if nm == pl and rhs is not None and ex.path(f, rhs) == pf:
                    return True
    return False


def _complement_of_fill(f, i, rhs, cap):
    """`CONST - avail` with CONST <= capacity and avail = <wrap>.bp - <buffer>."""
    r = f.exprs[ex.skip(f, rhs)] if rhs is not None else None
    if r is None or not (r["k"] == "bin" and r["op"] == "-"):
        return False
    c = ex.const(f, r["c"][0])
    if c is None or c > cap:
        return False
    v = f.exprs[ex.skip(f, r["c"][1])]
    if v["k"] != "ref":
        return False
    # every assignment of that local is bp - buffer, possibly reduced by a constant
    ok = False
    for bid, j in flow.all_events(f):
        for lhs, var, op, rhs2 in flow.stores(f, j):
            nm = var["name"] if var is not None else (f.exprs[ex.skip(f, lhs)].get("name") if lhs is not None and f.exprs[ex.skip(f, lhs)]["k"] == "ref" else None)
            if nm != v["name"] or rhs2 is None:
                continue
            o = atoms.Operand(f, rhs2)
            r2 = f.exprs[ex.skip(f, rhs2)]
            while r2["k"] == "cast":
                r2 = f.exprs[ex.skip(f, r2["c"][0])]
            if op == "=" and r2["k"] == "bin" and r2["op"] == "-" and "wrap.bp" in atoms.Operand(f, r2["c"][0]).fields:
                ok = True          # bp minus the buffer start, or minus a scan pointer inside the buffer
            elif op == "-=" and ex.const(f, rhs2) is not None:
                pass
            else:
                return False
    return ok


def _ordinal(f, node, owner):
    k = 0
    for bid, i in flow.all_events(f):
        for lhs, var, op, rhs in flow.stores(f, i):
            if lhs is None:
                continue
            l = f.exprs[ex.skip(f, lhs)]
            if l["k"] == "mem" and l.get("in") == "wrap" and l["member"] == "lookahead" and \
                    f.exprs[ex.skip(f, l["c"][0])].get("member") == owner:
                if i == node:
                    return k
                k += 1
    return k


def _cursors(ctx, run):
    P = ctx.prog
    # (a) f->sp++ only under sp < sliced_end
    f = P.need("line_address", UNIT)
    for b, i in flow.all_events(f):
        e = f.exprs[i]
        if e["k"] == "un" and e["op"] == "++" and "frame.sp" in atoms.Operand(f, e["c"][0]).fields:
            ok = any(a.rel == "<" and a.L.has("frame.sp") and a.R is not None and a.R.has("frame.sliced_end") for a in atoms.atoms_at(f, i))
            key = "RF-DOM:line_address:sp-below-end"
            if ok:
                run.holds("RF-DOM", key, "f->sp++ is dominated by f->sp < f->sliced_end", ex.loc(f, i))
            else:
                run.violation("RF-DOM", key, "the sliced output cursor advances without the f->sp < f->sliced_end test: one more "
                              "vbi_sliced is written past the caller's array", ex.loc(f, i))
    # (b) data unit bytes only after the length test
    f = P.need("extract_data_units", UNIT)
    run.touch(f)
    sw = [bid for bid, b in f.blocks.items() if b.term and b.term["kind"] == "SwitchStmt" and "data_unit_id" in atoms.Operand(f, b.term["cond"]).locals]
    if not sw:
        raise AnalysisBroken("extract_data_units: switch not found")
    ats = atoms.dominating_atoms(f, sw[0])
    ok = any(a.rel == "<=" and "data_unit_length" in a.L.locals and a.R is not None and a.R.locals and not a.R.fields for a in ats)
    key = "RF-DOM:extract_data_units:unit-inside-packet"
    if ok:
        run.holds("RF-DOM", key, "the data unit dispatch is dominated by p + data_unit_length <= end of packet", "%s:%d" % (f.file, f.blocks[sw[0]].term["line"]))
    else:
        run.violation("RF-DOM", key, "data units are parsed without first testing that data_unit_length stays inside the PES packet: "
                      "payload bytes are read past the packet", "%s:%d" % (f.file, f.line))
    # (c) coroutine copy bounded by max_lines
    f = P.need("vbi_dvb_demux_cor", UNIT)
    run.touch(f)
    cps = [i for b, i in flow.all_events(f) if f.exprs[i]["k"] == "call" and f.exprs[i].get("callee") in ("memcpy", "__builtin___memcpy_chk", "__builtin_memcpy")]
    run.floor("result copies in vbi_dvb_demux_cor", len(cps), 1)
    an = ctx.analysis(f, False)
    mx = [p["name"] for p in f.params if "max" in p["name"]]
    for i in cps:
        # n_lines = MIN (n_lines, max_lines) or a dominating n_lines <= max_lines
        size = f.exprs[i]["c"][2]
        o = atoms.Operand(f, size)
        ok = False
        for nm in o.locals:
            if _min_with(f, nm, mx) or any(a.rel in ("<=", "<") and nm in a.L.locals and a.R is not None and (set(mx) & a.R.locals)
                                          for a in atoms.atoms_at(f, i)):
                ok = True
        key = "RF-DOM:vbi_dvb_demux_cor:copy-bounded"
        if ok:
            run.holds("RF-DOM", key, "the number of lines copied to the caller is limited by max_lines", ex.loc(f, i))
        else:
            run.violation("RF-DOM", key, "the coroutine copies `%s` bytes without limiting the line count by the caller's max_lines"
                          % ex.pretty(f, size)[:50], ex.loc(f, i))


def _min_with(f, name, others):
    for bid, i in flow.all_events(f):
        for lhs, var, op, rhs in flow.stores(f, i):
            nm = var["name"] if var is not None else (f.exprs[ex.skip(f, lhs)].get("name") if lhs is not None else None)
            if nm != name or rhs is None:
                continue
            for n in ex.walk(f, rhs):
                e = f.exprs[n]
                if e["k"] == "cond":
                    o = atoms.Operand(f, n)
                    if set(others) & o.locals or any(_derived(f, x, others) for x in o.locals):
                        return True
    return False


def _derived(f, name, others):
    for bid, i in flow.all_events(f):
        for lhs, var, op, rhs in flow.stores(f, i):
            nm = var["name"] if var is not None else None
            if nm == name and rhs is not None and set(others) & atoms.Operand(f, rhs).locals:
                return True
    return False


def _continuity(ctx, run, f):
    run.touch(f)
    F_C = "_vbi_dvb_demux.ts_continuity"
    # the mismatch edge: ((ts_continuity ^ b3) & 15) != 0
    starts = []
    for bid, b in f.blocks.items():
        t = b.term
        if not t or "cond" not in t:
            continue
        for s, lab in f.edges(bid):
            for a in atoms.edge_atoms(f, bid, lab):
                if a.rel == "!=" and a.R is not None and a.R.const == 0 and a.L.has(F_C):
                    n = f.exprs[a.L.node]
                    if n["k"] == "bin" and n["op"] == "&":
                        starts.append((bid, s))
    if not starts:
        raise AnalysisBroken("demux_ts_packet: continuity comparison not found")
    stores = {b for b in f.blocks for i in flow.events(f, b) if atoms.store_to_field(F_C)(f, i)}
    # locals derived from ts_continuity (prev_cont)
    prev = set()
    for bid, i in flow.all_events(f):
        for lhs, var, op, rhs in flow.stores(f, i):
            nm = var["name"] if var is not None else (f.exprs[ex.skip(f, lhs)].get("name") if lhs is not None and f.exprs[ex.skip(f, lhs)]["k"] == "ref" else None)
            if nm and rhs is not None and F_C in atoms.Operand(f, rhs).fields:
                prev.add(nm)
    head = loops.innermost(f, starts[0][0])
    bad = None
    for src, s0 in starts:
        seen = set()
        st = [s0]
        while st and bad is None:
            n = st.pop()
            if n in seen or n in stores:
                continue
            seen.add(n)
            if n == f.exit or (head is not None and n == head):
                bad = src
                break
            for s, lab in f.edges(n):
                ats = atoms.edge_atoms(f, n, lab)
                # the repeated-packet edge: ((prev_cont ^ b3) & 15) == 0
                if any(a.rel == "==" and a.R is not None and a.R.const == 0 and (a.L.locals & prev) for a in ats):
                    continue
                # the "first counter we saw" edge: ts_continuity < 0
                if any(a.rel == "<" and a.R is not None and a.R.const == 0 and a.L.has(F_C) for a in ats):
                    pass
                st.append(s)
    key = "RF-CORR:demux_ts_packet:continuity-resync"
    if bad is not None:
        run.violation("RF-CORR", key, "after a TS continuity mismatch that is not a repeated packet a path reaches the next packet "
                      "without storing dx->ts_continuity: every following packet of the PID is then treated as a continuity error until "
                      "the 4-bit counter wraps (15 intact packets, several frames, are discarded)", "%s:%d" % (f.file, f.blocks[bad].term["line"]),
                      witness={"function": f.name})
    else:
        run.holds("RF-CORR", key, "every path from the continuity mismatch to the next packet stores dx->ts_continuity (or is the "
                  "repeated-packet path)", "%s:%d" % (f.file, f.blocks[starts[0][0]].term["line"]))


def _frame_reset(ctx, run):
    P = ctx.prog
    f = P.need("demux_pes_packet_frame", UNIT)
    run.touch(f)
    calls = [i for b, i in flow.all_events(f) if f.exprs[i]["k"] == "call" and f.exprs[i].get("callee") == "extract_data_units"]
    run.floor("extract_data_units calls", len(calls), 1)
    key = "RF-DOM:demux_pes_packet_frame:error-resets-frame"
    ok_all = True
    for bid, b in f.blocks.items():
        t = b.term
        if not t or "cond" not in t:
            continue
        for s, lab in f.edges(bid):
            for a in atoms.edge_atoms(f, bid, lab):
                # err > 0 / err != 0 style failing edges on the result of extract_data_units
                if a.rel in (">", "!=") and a.R is not None and a.R.const == 0 and (("extract_data_units" in a.L.calls) or
                                                                                      _from_call(f, a.L, "extract_data_units")):
                    hit = atoms.reaches(f, s, atoms.call_to("reset_frame"))
                    if hit is None:
                        ok_all = False
    if ok_all:
        run.holds("RF-DOM", key, "a failing extract_data_units reaches reset_frame (the damaged frame is discarded, state is clean for "
                  "the next packet)", "%s:%d" % (f.file, f.line))
    else:
        run.violation("RF-DOM", key, "an error of extract_data_units does not lead to reset_frame: lines of the damaged frame are "
                      "combined with the next one", "%s:%d" % (f.file, f.line))


def _from_call(f, operand, callee):
    if not operand.locals or operand.fields:
        return False
    name = sorted(operand.locals)[0]
    for bid, i in flow.all_events(f):
        for lhs, var, op, rhs in flow.stores(f, i):
            nm = var["name"] if var is not None else (f.exprs[ex.skip(f, lhs)].get("name") if lhs is not None else None)
            if nm == name and rhs is not None:
                r = f.exprs[ex.skip(f, rhs)]
                if r["k"] == "call" and r.get("callee") == callee:
                    return True
    return False


def _reset_complete(ctx, run, fs):
    """RF-INIT: every field of the frame state that the per-packet code (line_address,
    extract_data_units, demux_samples ...) writes is written by reset_frame() too - a field that
    survives the reset carries the previous frame into the next one (line_address() takes
    last_data_unit_id == 0 as 'no line seen yet')."""
    writers = {}
    for f in fs:
        for bid, i in flow.all_events(f):
            for lhs, var, op, rhs in flow.stores(f, i):
                if lhs is None:
                    continue
                l = f.exprs[ex.skip(f, lhs)]
                while l["k"] == "idx":
                    l = f.exprs[ex.skip(f, l["c"][0])]
                if l["k"] == "mem" and l.get("in") == "frame":
                    writers.setdefault(l["member"], set()).add(f.name)
    config = {fld for fld, ws in writers.items() if fld in ("sliced_begin", "sliced_end", "raw", "raw_start", "raw_count", "log")}
    reset = {fld for fld, ws in writers.items() if "reset_frame" in ws}
    if not reset:
        raise AnalysisBroken("reset_frame writes no frame field (anchor vanished)")
    dynamic = {fld for fld, ws in writers.items() if fld not in config and (ws - {"reset_frame", "vbi_dvb_demux_reset", "_vbi_dvb_demultiplex_sliced"})}
    run.floor("frame fields written by the per-packet code", len(dynamic), 6)
    rf = [f for f in fs if f.name == "reset_frame"][0]
    for fld in sorted(dynamic):
        key = "RF-INIT:reset_frame:%s" % fld
        if fld in reset:
            run.holds("RF-INIT", key, "frame.%s (written by %s) is reset by reset_frame()" % (fld, ", ".join(sorted(writers[fld] - {"reset_frame"}))),
                      "%s:%d" % (rf.file, rf.line), nontrivial=False)
        else:
            run.violation("RF-INIT", key, "frame.%s is written by %s but not by reset_frame(): the value of the previous frame decides "
                          "how the first data unit of the next frame is classified (new frame / same frame), so the output depends on "
                          "more than the bytes of that frame - with last_data_unit_id the demultiplexer reports empty frames forever"
                          % (fld, ", ".join(sorted(writers[fld]))), "%s:%d" % (rf.file, rf.line), witness={"field": fld})


def _skip_before_lookahead(ctx, run, f):
    """After a PES packet was handled, `skip` must receive the packet's look-ahead (its payload size)
    *before* look-ahead is reset to the header size."""
    run.touch(f)
    n = 0
    for bid in f.rpo():
        evs = flow.events(f, bid)
        for k, i in enumerate(evs):
            e = f.exprs[i]
            if e["k"] == "asg" and e["op"] == "=" and ex.pretty(f, e["c"][0]).endswith("pes_wrap.skip") \
                    and ex.pretty(f, e["c"][1]).endswith("pes_wrap.lookahead"):
                n += 1
                an = ctx.analysis(f)
                st = an.state_before_expr(i)
                v = an.eval(st, e["c"][1]) if st is not None else (None, None)
                key = "RF-DEP:demux_pes_packet:skip-takes-payload-lookahead"
                if v[0] is not None and v[0] == v[1]:
                    run.violation("RF-DEP", key, "`%s` copies a look-ahead that was just reset to the constant %d: only the header "
                                  "size is skipped, the rest of the packet's payload is scanned for start codes and a payload that "
                                  "contains 00 00 01 xx derails the demultiplexer" % (ex.pretty(f, i), v[0]), ex.loc(f, i),
                                  witness={"value": v[0]})
                else:
                    run.holds("RF-DEP", key, "`%s` reads the look-ahead of the packet just handled (%s), before it is reset"
                              % (ex.pretty(f, i), v), ex.loc(f, i))
    run.floor("skip := lookahead sites in demux_pes_packet", n, 1)


def _unit_lengths(ctx, run, f):
    """In every case of the data unit switch the `data_unit_length < 1 + k` rejection admits only
    units that contain every byte p[..] the case reads (p[0] id, p[1] length, data from p[2])."""
    run.touch(f)
    n = 0
    sw = [bid for bid, b in f.blocks.items() if b.term and b.term.get("kind") == "SwitchStmt"]
    for bid in sw:
        for succ, lab in f.edges(bid):
            if not isinstance(lab, tuple):
                continue
            # region of this case: blocks reachable from the label up to the next switch iteration
            region = flow.reach_from(f, succ, avoid=(bid,))
            minlen = None
            maxidx = None
            for b2 in region:
                t = f.blocks[b2].term
                if t and "cond" in t:
                    c = f.exprs[ex.skip(f, t["cond"])]
                    while c["k"] == "cast" or (c["k"] == "call" and c.get("callee") == "__builtin_expect"):
                        c = f.exprs[ex.skip(f, c["c"][0])]
                    if c["k"] == "bin" and c["op"] == "<" and "data_unit_length" in ex.pretty(f, c["c"][0]):
                        k = ex.const(f, c["c"][1])
                        if k is not None and flow.dominates(f, succ, b2):
                            minlen = k if minlen is None else max(minlen, k)
            if minlen is None:
                continue
            # constant indices read through p in blocks dominated by this case label only
            for i, e in enumerate(f.exprs):
                if e["k"] != "idx":
                    continue
                pos = flow.elem_pos(f).get(i)
                if pos is None or pos[0] not in region or not flow.dominates(f, succ, pos[0]):
                    continue
                b = f.exprs[ex.skip(f, e["c"][0])]
                while b["k"] == "cast":
                    b = f.exprs[ex.skip(f, b["c"][0])]
                c = ex.const(f, e["c"][1])
                if b["k"] == "ref" and b.get("name") == "p" and c is not None:
                    maxidx = c if maxidx is None else max(maxidx, c)
            for i, e in enumerate(f.exprs):
                if e["k"] == "call" and e.get("callee") == "memcpy" and len(e["c"]) >= 3:
                    pos = flow.elem_pos(f).get(i)
                    if pos is None or pos[0] not in region or not flow.dominates(f, succ, pos[0]):
                        continue
                    src = ex.pretty(f, e["c"][1])
                    ln = ex.const(f, e["c"][2])
                    if src.startswith("(p + ") and ln is not None:
                        try:
                            off = int(src[5:].rstrip(")"))
                            maxidx = max(maxidx or 0, off + ln - 1)
                        except ValueError:
                            pass
            if maxidx is None:
                continue
            n += 1
            key = "RF-IVL:extract_data_units:unit-length:%d" % lab[1]
            # a unit of data_unit_length L occupies p[0 .. 1 + L]
            if maxidx <= 1 + minlen:
                run.holds("RF-IVL", key, "data unit 0x%02X: length >= %d is required, the highest byte read is p[%d]"
                          % (lab[1], minlen, maxidx), "%s:%d" % (f.file, f.line))
            else:
                run.violation("RF-IVL", key, "data unit 0x%02X: units of length %d pass the `data_unit_length < %d` test but the case "
                              "reads p[%d], %d byte(s) past such a unit: a truncated unit is delivered as a line and, at the end "
                              "of the caller's buffer, read past it" % (lab[1], minlen, minlen, maxidx, maxidx - 1 - minlen),
                              "%s:%d" % (f.file, f.line), witness={"unit": lab[1], "min_length": minlen, "max_index": maxidx})
    run.floor("data unit cases with a length guard", n, 4)


class _Examined:
    """Marks for RF-DEP complete-packet-examined: U = line of the store that may have completed
    the PES packet being collected and has not been followed by the header examination."""
    def __init__(self, todo_key, validate, rewind_suffix):
        self.todo, self.validate, self.rewind = todo_key, validate, rewind_suffix
        self.n_dec = set()
        self.n_val = set()
        self.n_rew = set()

    def store(self, f, i, key, op, rhs, val):
        from .. import zeroness as zn
        if key == self.todo:
            if op in ("-=", "--"):
                self.n_dec.add(i)
                return zn.vset(val, ("U",), f.exprs[i]["line"])
            # an explicit assignment (discard: `= 0`, new packet: `= length + 6`) settles it
            return zn.vset(val, ("U",), None)
        return val

    def call(self, f, i, e, val):
        from .. import zeroness as zn
        if e.get("callee") == self.validate:
            self.n_val.add(i)
            return zn.vset(val, ("U",), None)
        return val

    def check(self, f, i, val):
        from .. import zeroness as zn
        for lhs, var, op, rhs in flow.stores(f, i):
            if lhs is None or op != "=":
                continue
            if ex.pretty(f, lhs).endswith(self.rewind):
                self.n_rew.add(i)
                u = zn.vget(val, ("U",))
                if u is not None and zn.vget(val, self.todo) != zn.N:
                    return u
        return None


def _complete_packet_examined(ctx, run, f):
    """RF-DEP: in the TS path a PES packet is collected TS packet by TS packet in pes_buffer;
    ts_pes_todo counts the bytes still missing.  Whenever a copy may have brought it to zero the
    packet's header must be examined (valid_vbi_pes_packet_header) before the collecting cursor
    is rewound for the next PES packet - on every path, including the one on which the whole TS
    packet was already in the synchronisation buffer and nothing is left to consume."""
    from .. import zeroness as zn
    run.touch(f)
    spec = _Examined(("f", "ts_pes_todo"), "valid_vbi_pes_packet_header", "->ts_pes_bp")
    an = zn.Analysis(ctx, f, {"->ts_pes_todo": ("f", "ts_pes_todo"), "->ts_wrap.consume": ("f", "ts_wrap.consume")}, spec).run()
    if not spec.n_dec or not spec.n_val or not spec.n_rew:
        raise AnalysisBroken("demux_ts_packet: PES collection anchors not found (decrements %d, examinations %d, rewinds %d)"
                             % (len(spec.n_dec), len(spec.n_val), len(spec.n_rew)))
    run.floor("stores that may complete the collected PES packet", len(spec.n_dec), 3)
    key = "RF-DEP:demux_ts_packet:complete-packet-examined"
    if an.violations:
        for i, line, val in an.violations:
            run.violation("RF-DEP", key + "@%d" % line,
                          "the copy at line %d may bring ts_pes_todo to zero (PES packet complete), and a path leads from there "
                          "to the start of the next PES packet (`%s`) without the completed packet's header ever being examined: "
                          "that packet - a whole frame - is silently dropped (a PES packet which fits one TS packet, first after "
                          "synchronisation)" % (line, ex.pretty(f, i)[:50]), ex.loc(f, i),
                          witness={"completing_store_line": line, "state": sorted(map(str, val))})
    else:
        run.holds("RF-DEP", key, "%d stores may complete the collected PES packet; on every path (zero-ness valuations of ts_pes_todo, "
                  "ts_wrap.consume and the locals %s) the header examination or an explicit discard comes before the cursor is "
                  "rewound for the next packet" % (len(spec.n_dec), sorted(an.locals)), "%s:%d" % (f.file, f.line))


def _cursor_and_count_together(ctx, run, f):
    """RF-CORR: while a PES packet is collected from TS packets, ts_pes_bp (where the next bytes
    go) and ts_pes_todo (how many are still missing) describe the same progress: every advance
    `ts_pes_bp += n` is paired, in the same basic block, with `ts_pes_todo -= n` on the same n.
    An advance without the countdown makes the packet look incomplete for ever: bytes of the
    following packets are appended until the length mismatch drops both."""
    run.touch(f)
    n = 0
    for bid, b in f.blocks.items():
        adv, dec = [], []
        for i in flow.events(f, bid):
            for lhs, var, op, rhs in flow.stores(f, i):
                if lhs is None or rhs is None:
                    continue
                p = ex.pretty(f, lhs)
                if p.endswith("->ts_pes_bp") and op == "+=":
                    adv.append((i, ex.pretty(f, rhs)))
                if p.endswith("->ts_pes_todo") and op == "-=":
                    dec.append((i, ex.pretty(f, rhs)))
        for i, amt in adv:
            n += 1
            key = "RF-CORR:demux_ts_packet:cursor-and-count@%d" % n
            if any(a2 == amt for _, a2 in dec):
                run.holds("RF-CORR", key, "`%s` is paired with ts_pes_todo -= %s" % (ex.pretty(f, i)[:40], amt), ex.loc(f, i))
            else:
                run.violation("RF-CORR", key, "`%s` advances the PES collecting cursor by %s bytes but ts_pes_todo is not reduced by "
                              "the same amount in that step: the packet never counts as complete, the bytes of the next packets are "
                              "appended behind it and both packets are lost - only "
                              "when a TS packet's payload is split across two feed() calls" % (ex.pretty(f, i)[:40], amt), ex.loc(f, i))
    run.floor("advances of the PES collecting cursor", n, 4)


def _frame_pts_latched_at_start(ctx, run, f):
    """RF-DOM: a frame is delivered with the PTS of the PES packet in which it began.  frame_pts
    is therefore copied from packet_pts only where a new frame starts (under dx->new_frame); set on
    every packet that adds lines, a frame spread over several PES packets is stamped with the PTS
    of its last packet - and how packets group into calls would not matter, but which packet
    carried which lines would."""
    run.touch(f)
    n = 0
    for bid, i in flow.all_events(f):
        for lhs, var, op, rhs in flow.stores(f, i):
            if lhs is None or rhs is None or op != "=":
                continue
            if not ex.pretty(f, lhs).endswith("->frame_pts"):
                continue
            n += 1
            key = "RF-DOM:%s:frame-pts-at-frame-start" % f.name
            ok = any(a.rel == "!=" and a.R is not None and a.R.const == 0 and a.L.has("_vbi_dvb_demux.new_frame")
                     for a in atoms.atoms_at(f, i))
            if ok:
                run.holds("RF-DOM", key, "`%s` only under dx->new_frame" % ex.pretty(f, i)[:50], ex.loc(f, i))
            else:
                run.violation("RF-DOM", key, "`%s` is not confined to the start of a frame (dx->new_frame): every PES packet that "
                              "contributes lines overwrites the frame's time stamp, so a frame sent in several packets is delivered "
                              "with the PTS of its last packet instead of its first" % ex.pretty(f, i)[:50], ex.loc(f, i))
    run.floor("stores of the frame time stamp", n, 1)


def _no_case_fallthrough(ctx, run, f):
    """RF-CORR: the PTS_DTS_flags switch of valid_vbi_pes_packet_header() has one case per legal
    header form and a default that rejects; a case body that runs on into the next label (a lost
    `break`) makes a legal PTS+DTS header take the 'no PTS' verdict: after any damage such a
    stream is never accepted again."""
    run.touch(f)
    n = 0
    for sw, b in f.blocks.items():
        if not b.term or b.term["kind"] != "SwitchStmt":
            continue
        targets = {s for s, lab in f.edges(sw)}
        for t in targets:
            for p in f.blocks[t].preds:
                if p == sw:
                    continue
                if p in targets and not flow.events(f, p):
                    continue            # `case A: case B:` - grouped labels, nothing in between
                # p falls into the label t: is p reachable from the switch through another case?
                if any(p in flow.reach_from(f, o, avoid=[t]) for o in targets if o != t):
                    n += 1
                    line = f.blocks[p].term["line"] if f.blocks[p].term else (
                        f.exprs[f.blocks[p].elems[-1]]["line"] if f.blocks[p].elems else f.line)
                    run.violation("RF-CORR", "RF-CORR:%s:case-fallthrough" % f.name,
                                  "%s(): the body of one case of the header switch runs on into the next label (no `break`): a "
                                  "header form that was decoded successfully takes the verdict of the following case"
                                  % f.name, "%s:%d" % (f.file, line))
    if n == 0:
        run.holds("RF-CORR", "RF-CORR:%s:case-fallthrough" % f.name, "no case body of the header switch falls through into another label",
                  "%s:%d" % (f.file, f.line), nontrivial=False)


def _frame_error_discards(ctx, run):
    """After demux_pes_packet_frame() reported an error, the lines collected for the damaged frame have to be dropped
    (new_frame := TRUE makes the next call reset the frame).  If they are kept, a frame that filled the line buffer
    leaves the cursor at its end, line_address() refuses every later data unit before it can see that a new frame
    began, and nothing is delivered any more.  The two callers (PES and TS path) are siblings: for each, a store
    new_frame := TRUE must be reached for a generic error value of the callee's return range (the guards on the result
    local that dominate the store are evaluated on that value; a guard like `err < 0`, which no return value of the
    callee satisfies, makes the store dead code)."""
    P = ctx.prog
    callee = P.need("demux_pes_packet_frame", UNIT)
    rr = ctx.ret_range(callee)
    consts = P.enum_consts
    cb = consts.get("VBI_ERR_CALLBACK")
    sample = consts.get("VBI_ERR_SLICED_BUFFER_OVERFLOW")
    if cb is None or sample is None:
        raise AnalysisBroken("dvb_demux.c: VBI_ERR_CALLBACK / VBI_ERR_SLICED_BUFFER_OVERFLOW not found")
    if rr is None or rr[0] is None or rr[1] is None or not (rr[0] <= sample <= rr[1]):
        raise AnalysisBroken("demux_pes_packet_frame: return range %s does not contain the error codes" % (rr,))
    import operator
    OPS = {"<": operator.lt, "<=": operator.le, ">": operator.gt, ">=": operator.ge, "==": operator.eq, "!=": operator.ne}
    n = 0
    for name in ("demux_pes_packet", "demux_ts_packet"):
        f = P.need(name, UNIT)
        run.touch(f)
        for bid, i in flow.all_events(f):
            for lhs, var, op, rhs in flow.stores(f, i):
                if rhs is None or op != "=":
                    continue
                r = f.exprs[ex.skip(f, rhs)]
                if not (r["k"] == "call" and r.get("callee") == "demux_pes_packet_frame"):
                    continue
                res = var["name"] if var is not None else f.exprs[ex.skip(f, lhs)].get("name")
                if res is None:
                    continue
                n += 1
                # stores new_frame := TRUE reachable from the call before the next call
                reached_for_error = False
                dead = []
                for b2, j in flow.all_events(f):
                    if not atoms.store_to_field("_vbi_dvb_demux.new_frame")(f, j):
                        continue
                    st = flow.stores(f, j)
                    if not st or st[0][3] is None or ex.const(f, st[0][3]) in (0, None):
                        continue
                    if not (b2 == bid or b2 in flow.reach_from(f, bid)):
                        continue
                    on_res = [a for a in atoms.atoms_at(f, j) if a.R is not None and a.R.const is not None and a.L.locals == {res}
                              and not a.L.fields and not a.L.calls and a.rel in OPS and a.src is not None
                              and (a.src == bid or a.src in flow.reach_from(f, bid))]
                    if not on_res:
                        continue
                    if all(OPS[a.rel](sample, a.R.const) for a in on_res):
                        reached_for_error = True
                    elif not any(OPS[a.rel](v, a.R.const) for a in on_res for v in (rr[0], rr[1], sample, cb, 0)) or \
                            any(not any(OPS[a.rel](v, a.R.const) for v in (rr[0], rr[1], sample, cb, 0)) for a in on_res):
                        dead.append((j, on_res))
                key = "RF-CORR:%s:frame-error-discards" % name
                if reached_for_error:
                    run.holds("RF-CORR", key, "after `%s` an error result (e.g. 0x%X) reaches new_frame := TRUE" % (ex.pretty(f, i)[:50], sample),
                              ex.loc(f, i))
                else:
                    why = ""
                    if dead:
                        why = " (`%s` is guarded by %s, which no value of the return range %s satisfies)" % (
                            ex.pretty(f, dead[0][0])[:40], " and ".join(repr(a) for a in dead[0][1]), list(rr))
                    run.violation("RF-CORR", key, "after `%s` no store new_frame := TRUE is reached for an error result such as "
                                  "VBI_ERR_SLICED_BUFFER_OVERFLOW (0x%X)%s: the lines of the damaged frame are kept, the cursor of a full "
                                  "line buffer stays at its end and every later data unit is refused - the demultiplexer delivers nothing "
                                  "any more" % (ex.pretty(f, i)[:50], sample, why), ex.loc(f, i),
                                  witness={"function": name, "return_range": list(rr), "sample_error": sample})
    run.floor("callers of demux_pes_packet_frame", n, 2)


def _pid_filter_behind_error_indicator(ctx, run, f):
    """A TS packet flagged with transport_error_indicator makes the demultiplexer drop what it has collected - whatever
    the packet's PID.  The PID filter therefore sits behind the indicator test.  A second place that skips foreign-PID
    packets without looking at the indicator (a fast path over whole packets in the caller's buffer) makes the outcome
    depend on how the stream is cut into buffers: the same flagged packet is examined when it arrives in pieces and
    skipped when it arrives whole."""
    run.touch(f)
    F_PID = "_vbi_dvb_demux.ts_pid"
    n = 0
    for bid, b in f.blocks.items():
        t = b.term
        if not t or "cond" not in t:
            continue
        hit = False
        for lab in ("T", "F"):
            for a in atoms.edge_atoms(f, bid, lab):
                if a.L.has(F_PID) or (a.R is not None and a.R.has(F_PID)):
                    hit = True
        if not hit:
            continue
        n += 1
        tei = False
        for a in atoms.dominating_atoms(f, bid):
            if a.R is not None and a.R.const == 0 and a.rel == "==" and a.L.node is not None:
                e = f.exprs[ex.skip(f, a.L.node)]
                for _hop in range(3):
                    while e["k"] == "cast" and e.get("c"):
                        e = f.exprs[ex.skip(f, e["c"][0])]
                    if e["k"] == "ref" and e.get("dk") == "local":
                        # `tei = b1 & 0x80; if (tei)`: a local with a single definition
                        defs = [rhs for b2, j in flow.all_events(f) for lhs, var, op, rhs in flow.stores(f, j)
                                if rhs is not None and ((var is not None and var["name"] == e["name"]) or
                                                        (lhs is not None and f.exprs[ex.skip(f, lhs)].get("name") == e["name"]
                                                         and f.exprs[ex.skip(f, lhs)]["k"] == "ref"))]
                        if len(defs) != 1:
                            break
                        e = f.exprs[ex.skip(f, defs[0])]
                        continue
                    break
                if e["k"] == "bin" and e["op"] == "&" and 0x80 in (ex.const(f, e["c"][0]), ex.const(f, e["c"][1])):
                    tei = True
        key = "RF-DOM:demux_ts_packet:pid-filter-behind-tei@%d" % n
        loc = "%s:%d" % (f.file, t.get("line", f.line))
        if tei:
            run.holds("RF-DOM", key, "the PID test `%s` is made on a packet whose transport_error_indicator was found clear"
                      % ex.pretty(f, t["cond"])[:50], loc)
        else:
            run.violation("RF-DOM", key, "the PID test `%s` is not dominated by the transport_error_indicator test: a flagged packet "
                          "of a foreign PID is skipped here but discards the collected frame on the regular path - which of the "
                          "two happens depends on how the stream is cut into feed buffers" % ex.pretty(f, t["cond"])[:60], loc,
                          witness={"function": f.name})
    run.floor("tests of the selected PID in demux_ts_packet", n, 1)
