"""C09 — XDS sub-packet assembly: bounds, current-packet invariant, delivery
gates, checksum restart, field-2 routing; both implementations
(xds_demux.c and caption.c) checked with the same rules."""
from .. import absint, atoms, ex, flow, ivl, typestate
from ..prog import AnalysisBroken

CLAUSE = ("for both XDS implementations (vbi_xds_demux_feed; caption.c xds_separator/xds_decoder): every subscript of the "
          "sub-packet buffer, the class/subclass table and the delivery buffer is inside its array for every count/index the "
          "function's own guards admit (interval analysis, counts advance by 1 or 2); the invariant 'a current sub-packet has "
          "count >= 2' is maintained (count is only set to 0, to a constant >= 2 or incremented; every count := 0 is followed by "
          "curr_sp := NULL on every path; curr_sp becomes non-NULL only with count := 2 or after a count != 0 test); a packet "
          "start assigns the checksum afresh; delivery (callback / xds_decoder) is dominated by checksum&0x7F == 0, count > 2 and "
          "the parity test; xds_decoder's length assertion cannot fail for any count the writers can produce; a caption control "
          "code on field 2 clears the XDS routing flag and data bytes reach the XDS separator only while it is set.")
CLAUSE = CLAUSE + (" Every path through the packet-header branch of the assemblers (class/type bytes 0x01 ... 0x0E) assigns the "
                   "current-packet pointer - to the addressed sub-packet or to NULL - so the payload of an ignored (unsupported) "
                   "packet can never be appended to the packet it interrupted; in xds_strfu no term OR-ed into the 'content "
                   "changed' result is a compile-time constant (the old terminator byte is read before it is overwritten).")
CLAUSE = CLAUSE + (" flush_prog_info clears the second-occurrence bookkeeping of the slot it flushed (info_cycle indexed by the "
                   "program info's own slot number, as xds_decoder indexes it by _class); vbi_xds_demux_feed_frame feeds only "
                   "lines whose service id is exactly CAPTION_525 or CAPTION_525_F2 (an exact-value dispatch, not a mask that also "
                   "admits the field 1 id).")
CLAUSE = CLAUSE + (" Outside the assembler, abandoning the sub-packet in progress (curr_sp := NULL on a decoder desync) comes after "
                   "its count was cleared; after every flush_prog_info() in xds_decoder the datum of the packet that caused the flush "
                   "is stored into the programme record again on every path.")
CLAUSE = CLAUSE + (" vbi_reset_prog_info never writes pi->future (flush_prog_info indexes info_cycle with it afterwards); "
                   "vbi_chsw_reset wipes the network record only under identified == 0.")
CLAUSE = CLAUSE + (' A change of the call letters re-arms the network name comparison.')
CLAUSE = CLAUSE + (" For each of the 256 values of the first byte of a programme rating packet, xds_decoder reaches the store of "
                   "the rating authority EIA-608 assigns to bits a3 / a4 / 5 (value partitioning of the interval analysis).")
NOT_DECIDED = ("exactly-once delivery under interleaving, equality of the delivered bytes with the sent ones, content decoding "
               "into vbi_program_info (values).")

IMPLS = [
    # unit, assembling function, sub-packet record, checksum field, owner record of curr_sp, delivery
    dict(unit="src/caption.c", fn="xds_separator", rec="xds_sub_packet", csum="chksum", owner="caption",
         deliver=("call", "xds_decoder")),
    dict(unit="src/xds_demux.c", fn="vbi_xds_demux_feed", rec="_vbi_xds_subpacket", csum="checksum", owner="_vbi_xds_demux",
         deliver=("indirect", "callback")),
]


def run(ctx, run):
    P = ctx.prog
    # field invariants first (computed under each writer's own guards), then
    # made available to every later analysis
    inv = {}
    for im in IMPLS:
        iv, detail = ivl.field_invariant(ctx, im["rec"], "count")
        inv[im["rec"]] = (iv, detail)
    for im in IMPLS:
        ctx.field_inv[(im["rec"], "count")] = inv[im["rec"]][0]
    ctx._an.clear()
    ctx._ret.clear()

    n_sub = 0
    for im in IMPLS:
        f = P.need(im["fn"], im["unit"])
        run.touch(f)
        tag = f.name
        iv, detail = inv[im["rec"]]
        run.note("%s.count over all writers: %s (%s)" % (im["rec"], iv, "; ".join("%s:%d %s" % d for d in detail)))

        # ---- A/B: subscripts ------------------------------------------------
        inv_ok = _current_invariant(ctx, run, im, f)
        for node, n, base in ivl.subscripts(f):
            v = ivl.check_subscript(ctx, f, node, n, base)
            n_sub += 1
            desc = ex.pretty(f, node)
            key = "RF-IVL:%s:%s" % (tag, _canon(f, node))
            loc = ex.loc(f, node)
            if v.status == "holds":
                run.holds("RF-IVL", key, "%s: index in %s, array of %d" % (desc, v.iv, n), loc,
                          nontrivial=v.iv is not None and v.iv[0] != v.iv[1])
            elif v.status == "violated":
                run.violation("RF-IVL", key, "%s: index interval %s against an array of %d elements: %s"
                              % (desc, v.iv, n, v.why), loc,
                              witness={"function": f.name, "subscript": desc, "index_interval": v.iv, "elements": n,
                                       "derivation": v.why})
            else:
                # only the lower bound may be missing, and only for the
                # count-relative subscripts covered by invariant I
                hi_ok = v.iv[1] is not None and v.iv[1] < n
                lo_inv = _lower_bound_under_invariant(ctx, f, node, im["rec"])
                if hi_ok and _count_relative(f, node, im["rec"]) and lo_inv is not None and lo_inv >= 0 and inv_ok:
                    run.holds("RF-IVL", key, "%s: upper bound %d < %d by the guards; lower bound by invariant I "
                              "(current sub-packet has count >= 2)" % (desc, v.iv[1], n), loc)
                elif hi_ok and _count_relative(f, node, im["rec"]):
                    run.violation("RF-IVL", key, "%s: index may be negative: the invariant 'current sub-packet has count >= 2' "
                                  "is not maintained (see RF-CORR)" % desc, loc)
                else:
                    run.violation("RF-IVL", key, "%s: index interval %s against %d elements, %s and no invariant covers it"
                                  % (desc, v.iv, n, v.why), loc)

        # ---- packet start assigns the checksum afresh ---------------------------
        starts = [(bid, i) for bid, i in flow.all_events(f) if atoms.store_to_field("%s.count" % im["rec"], 2)(f, i)]
        run.floor("%s packet-start sites" % tag, len(starts), 1)
        for bid, i in starts:
            ok = False
            bad = None
            for j in f.blocks[bid].elems:
                for lhs, var, op, rhs in flow.stores(f, j):
                    if lhs is None:
                        continue
                    l = ex.skip(f, lhs)
                    e = f.exprs[l]
                    if e["k"] == "mem" and e.get("in") == im["rec"] and e["member"] == im["csum"]:
                        if op == "=" and ("%s.%s" % (im["rec"], im["csum"])) not in atoms.Operand(f, rhs).fields:
                            ok = True
                        else:
                            bad = j
            key = "RF-CORR:%s:start-checksum" % tag
            if ok and bad is None:
                run.holds("RF-CORR", key, "the start of a packet assigns the checksum from the two header bytes only", ex.loc(f, i))
            else:
                run.violation("RF-CORR", key, "a packet start does not assign the checksum afresh (%s): the partial sum of an "
                              "abandoned packet of the same class/type survives into the restarted one, which then fails its "
                              "checksum" % (ex.pretty(f, bad) if bad is not None else "no assignment"), ex.loc(f, i),
                              witness={"function": f.name})

        # ---- D: delivery gates -------------------------------------------------------
        dsites = []
        for bid, i in flow.all_events(f):
            e = f.exprs[i]
            if e["k"] != "call":
                continue
            if im["deliver"][0] == "call" and e.get("callee") == im["deliver"][1]:
                dsites.append(i)
            elif im["deliver"][0] == "indirect" and "fn" in e:
                fe = f.exprs[ex.skip(f, e["fn"])]
                if fe["k"] == "mem" and fe["member"] == im["deliver"][1]:
                    dsites.append(i)
        run.floor("%s delivery sites" % tag, len(dsites), 1)
        F_CS = "%s.%s" % (im["rec"], im["csum"])
        F_CT = "%s.count" % im["rec"]
        for i in dsites:
            ats = atoms.atoms_at(f, i)
            need = [
                ("checksum & 0x7F == 0", lambda a: a.rel == "==" and a.R is not None and a.R.const == 0 and a.L.has(F_CS)
                 and _is_mask(f, a.L.node, 0x7F)),
                ("count > 2 (non-empty packet)", lambda a: a.cmp_const(">", F_CT, 2) or a.cmp_const(">=", F_CT, 3)),
                ("both bytes passed the parity test ((c1 | c2) >= 0)", lambda a: a.rel == ">=" and a.R is not None
                 and a.R.const == 0 and _is_or_of_unpar(f, a.L.node)),
                ("terminator byte (c1 == 15)", lambda a: a.rel == "==" and a.R is not None and a.R.const == 15),
            ]
            missing = [n_ for n_, p in need if not any(p(a) for a in ats)]
            if any(m_.startswith("both bytes passed") for m_ in missing):
                # the same test written per byte: `c1 < 0 || c2 < 0` leaves two atoms, one for each vbi_unpar8 result
                okb = set()
                for a in ats:
                    if a.rel == ">=" and a.R is not None and a.R.const == 0 and a.L.node is not None:
                        ce = f.exprs[ex.skip(f, a.L.node)]
                        if ce["k"] == "ref" and _local_is_call_result(f, ce["name"], "vbi_unpar8"):
                            okb.add(ce["name"])
                if len(okb) >= 2:
                    missing = [m_ for m_ in missing if not m_.startswith("both bytes passed")]
            key = "RF-DOM:%s:delivery" % tag
            if missing:
                run.violation("RF-DOM", key, "the delivery `%s` is not dominated by: %s" % (ex.pretty(f, i)[:60], "; ".join(missing)),
                              ex.loc(f, i), witness={"dominating": [repr(a) for a in ats], "missing": missing})
            else:
                run.holds("RF-DOM", key, "delivery dominated by " + "; ".join(n_ for n_, _ in need), ex.loc(f, i))

    run.floor("sized-array subscripts in the two assemblers", n_sub, 9)

    # ---- E: xds_decoder's length assertion ------------------------------------------
    f = P.need("xds_decoder", "src/caption.c")
    run.touch(f)
    an = ctx.analysis(f)
    n_as = 0
    for bid, i, msg in ivl.assert_sites(f):
        if ivl.is_pointer_assert(f, bid):
            continue
        n_as += 1
        key = "RF-IVL:xds_decoder:assert:%s" % (msg or "?")
        if ivl.assert_reachable(ctx, f, bid, an):
            piv = ctx.param_intervals(f)
            run.violation("RF-IVL", key, "assert (%s) can fail: the callers pass length in %s (count - 2 with count up to %s "
                          "by the sub-packet writers)" % (msg, piv.get("length"), inv["xds_sub_packet"][0][1]),
                          ex.loc(f, i), witness={"param_intervals": {k: list(v) for k, v in piv.items()}})
        else:
            run.holds("RF-IVL", key, "assert (%s) cannot fail: callers pass length in %s"
                      % (msg, ctx.param_intervals(f).get("length")), ex.loc(f, i))
    run.floor("data-dependent assertions in xds_decoder", n_as, 1)
    # its own buffers
    for node, n, base in ivl.subscripts(f):
        v = ivl.check_subscript(ctx, f, node, n, base, an)
        key = "RF-IVL:xds_decoder:%s" % _canon(f, node)
        if v.status == "holds":
            run.holds("RF-IVL", key, "%s: index in %s, array of %d" % (ex.pretty(f, node), v.iv, n), ex.loc(f, node),
                      nontrivial=v.iv is not None and v.iv[0] != v.iv[1])
        elif v.status == "violated":
            run.violation("RF-IVL", key, "%s: index interval %s against %d elements: %s" % (ex.pretty(f, node), v.iv, n, v.why),
                          ex.loc(f, node))
        else:
            run.note("xds_decoder %s: %s (index %s of %d) - not claimed under C09 (see C01)" % (ex.pretty(f, node), v.why, v.iv, n))

    # ---- field-2 routing -----------------------------------------------------------------
    _routing(ctx, run)
    _header_rebinds_current(ctx, run)
    _change_flag_not_vacuous(ctx, run)
    _parity_discipline(ctx, run)
    _info_cycle_slot(ctx, run)
    _field2_ids(ctx, run)
    _desync_discards_current(ctx, run)
    _flush_then_restore(ctx, run)
    _reset_keeps_slot(ctx, run)
    _network_wiped_only_unidentified(ctx, run)
    # second-occurrence reporting of the network packets: a change of the call letters re-arms the name
    # comparison (rule shared with C13)
    from . import C13
    C13._call_letters_rearm(ctx, run)
    _current_packet_labelled(ctx, run)
    _rating_system_table(ctx, run)


def _rating_system_table(ctx, run):
    """Programme rating packet (Current / Future class, type 5): bits a3 / a4 of the first byte select the rating system
    (EIA-608: a3 = 0 MPAA whatever a4 is; a4a3 = 01 US TV; a4a3 = 11 Canadian, English or French by bit 5).  Decided by
    value partitioning: xds_decoder is analysed once for each of the 256 values of buffer[0] (that byte fixed, everything
    else unconstrained) and the rating authorities whose store stays reachable are compared with the table.  A rating
    system that is *lost* for some value (the interval analysis over-approximates reachability, so unreachable is
    definite) means delivered rating packets are dropped or attributed to the wrong authority."""
    P = ctx.prog
    f = P.need("xds_decoder", "src/caption.c")
    run.touch(f)
    buf = f.params[3]["name"]
    sites = []
    for bid, i in flow.all_events(f):
        for lhs, var, op, rhs in flow.stores(f, i):
            if rhs is None or op != "=":
                continue
            r = f.exprs[ex.skip(f, rhs)]
            while r["k"] == "cast" and r.get("c"):
                r = f.exprs[ex.skip(f, r["c"][0])]
            if r["k"] == "ref" and str(r.get("name", "")).startswith("VBI_RATING_AUTH_") and r["name"] != "VBI_RATING_AUTH_NONE":
                sites.append((i, r["name"][len("VBI_RATING_AUTH_"):]))
    run.floor("stores of a rating authority in xds_decoder", len(sites), 4)

    def expected(v):
        if not v & 0x08:
            return {"MPAA"} if v & 7 else set()
        if not v & 0x10:
            return {"TV_US"}
        return {"TV_CA_FR"} if v & 0x20 else {"TV_CA_EN"}
    lost, extra = {}, {}
    for v in range(256):
        an = absint.Analysis(ctx, f, {}, extra_init={"%s[0]" % buf: (v, v)})
        an.persistent = True
        an = an.run()
        if getattr(an, "extra_missing", None):
            raise AnalysisBroken("xds_decoder: the first payload byte was not found as %s[0]" % buf)
        got = {name for i, name in sites if an.state_before(i) is not None}
        exp = expected(v)
        if exp - got:
            lost[v] = sorted(exp - got)
        if got - exp:
            extra[v] = sorted(got - exp)
    key = "RF-TAB:xds_decoder:rating-system"
    loc = "%s:%d" % (f.file, f.line)
    if lost:
        v = sorted(lost)[0]
        run.violation("RF-TAB", key, "a programme rating packet whose first byte is 0x%02X (a4a3 = %d%d) no longer reaches the store of "
                      "VBI_RATING_AUTH_%s (%d of 256 first-byte values lose their rating system): the delivered packet is dropped "
                      "or attributed to another authority" % (v, (v >> 4) & 1, (v >> 3) & 1, lost[v][0], len(lost)), loc,
                      witness={"first_byte": v, "lost": {("0x%02X" % k): x for k, x in sorted(lost.items())[:16]}})
    elif extra:
        v = sorted(extra)[0]
        run.undecided("RF-TAB", key, "first byte 0x%02X may also reach the store of VBI_RATING_AUTH_%s (%d values): either the "
                      "selection was widened or the interval analysis lost precision on this shape" % (v, extra[v][0], len(extra)), loc)
    else:
        run.holds("RF-TAB", key, "for each of the 256 values of the first rating byte exactly the EIA-608 rating system is stored "
                  "(MPAA for a3 = 0 and r != 0, US TV for a4a3 = 01, Canadian English / French for a4a3 = 11 by bit 5)", loc)


def _current_packet_labelled(ctx, run):
    """vbi_xds_demux_feed delivers xd->curr, whose class / subclass fields are set when a sub-packet becomes current.
    Start *and* continue codes make a sub-packet current (curr_sp := non-NULL); both have to label it: every such store
    is accompanied, on every path, by stores of curr.xds_class and curr.xds_subclass (before it in a dominating position,
    or after it before the function returns).  Otherwise a resumed packet is delivered under the label of the packet that
    interrupted it."""
    P = ctx.prog
    f = P.need("vbi_xds_demux_feed", "src/xds_demux.c")
    run.touch(f)
    sites = []
    for bid, i in flow.all_events(f):
        for lhs, var, op, rhs in flow.stores(f, i):
            if lhs is None or rhs is None or op != "=":
                continue
            l = f.exprs[ex.skip(f, lhs)]
            if l["k"] == "mem" and l["member"] == "curr_sp" and l.get("in") == "_vbi_xds_demux" and not ex.is_null(f, rhs):
                sites.append((bid, i))
    run.floor("stores that make an XDS sub-packet current in vbi_xds_demux_feed", len(sites), 1)

    def labels(member):
        def pred(ff, ii):
            for lhs, var, op, rhs in flow.stores(ff, ii):
                if lhs is None:
                    continue
                l = ff.exprs[ex.skip(ff, lhs)]
                if l["k"] == "mem" and l["member"] == member and l.get("in") == "vbi_xds_packet":
                    return True
            return False
        return pred
    for bid, i in sites:
        missing = []
        for member in ("xds_class", "xds_subclass"):
            pred = labels(member)
            ok, _ = atoms.must_pass(f, i, pred)
            if not ok:
                # before the store: in the same block, or on every path from the entry (edge cut)
                pos = flow.elem_pos(f)[i][1]
                ok = any(pred(f, j) for j in f.blocks[bid].elems[:pos] if flow.is_event(f, j))
                if not ok:
                    hit = {b for b, j in flow.all_events(f) if pred(f, j)}
                    ok = bid not in flow.reach_from(f, f.entry, avoid=hit)
            if not ok:
                missing.append(member)
        key = "RF-CORR:vbi_xds_demux_feed:current-packet-labelled"
        if missing:
            run.violation("RF-CORR", key, "`%s` makes a sub-packet current on a path that does not set xd->curr.%s: the packet is "
                          "delivered under the class / subclass of whatever packet was started last"
                          % (ex.pretty(f, i)[:60], " / ".join(missing)), ex.loc(f, i), witness={"function": f.name, "missing": missing})
        else:
            run.holds("RF-CORR", key, "`%s` is accompanied by the class and subclass stores on every path" % ex.pretty(f, i)[:60], ex.loc(f, i))


def _canon(f, node):
    """Name-independent description of a subscript: array field + index shape."""
    e = f.exprs[node]
    b = ex.skip(f, e["c"][0])
    be = f.exprs[b]
    while be["k"] == "cast":
        b = ex.skip(f, be["c"][0])
        be = f.exprs[b]
    arr = be.get("member") or be.get("name") or be["k"]
    if be["k"] == "idx":
        bb = f.exprs[ex.skip(f, be["c"][0])]
        while bb["k"] == "cast":
            bb = f.exprs[ex.skip(f, bb["c"][0])]
        arr = (bb.get("member") or bb.get("name") or "?") + "[]"
    o = atoms.Operand(f, e["c"][1])
    shape = "const%s" % o.const if o.const is not None else ("+".join(sorted(x.split(".")[-1] for x in o.fields)) or "local")
    j = ex.skip(f, e["c"][1])
    je = f.exprs[j]
    if je["k"] == "bin" and je["op"] in ("+", "-"):
        c = ex.const(f, je["c"][1])
        if c is not None:
            shape += "%s%d" % (je["op"], c)
    return "%s[%s]" % (arr, shape)


def _count_relative(f, node, rec):
    o = atoms.Operand(f, f.exprs[node]["c"][1])
    return ("%s.count" % rec) in o.fields


def _lower_bound_under_invariant(ctx, f, node, rec):
    """Lower bound of the index when the count it is computed from is >= 2
    (invariant I: a current sub-packet has count >= 2)."""
    an = ctx.analysis(f)
    st = an.state_before(node)
    if st is None:
        return None
    ix = f.exprs[node]["c"][1]
    st2 = dict(st)
    found = False
    for n in ex.walk(f, ix):
        e = f.exprs[n]
        if e["k"] == "mem" and e.get("in") == rec and e["member"] == "count":
            key = an.track_key(n)
            if key is None:
                return None
            cur = st2.get(key, (None, None))
            st2[key] = absint.meet(cur, (2, None))
            found = True
    if not found:
        return None
    return ivl.eval_nowrap(an, st2, ix)[0]


def _is_mask(f, node, m):
    e = f.exprs[ex.skip(f, node)]
    return e["k"] == "bin" and e["op"] == "&" and m in (ex.const(f, e["c"][0]), ex.const(f, e["c"][1]))


def _is_or_of_unpar(f, node):
    """(c1 | c2) where both locals are results of vbi_unpar8."""
    e = f.exprs[ex.skip(f, node)]
    if not (e["k"] == "bin" and e["op"] == "|"):
        return False
    for c in e["c"]:
        ce = f.exprs[ex.skip(f, c)]
        if ce["k"] != "ref":
            return False
        if not _local_is_call_result(f, ce["name"], "vbi_unpar8"):
            return False
    return True


def _local_is_call_result(f, name, callee):
    ok = False
    for bid, i in flow.all_events(f):
        for lhs, var, op, rhs in flow.stores(f, i):
            n = var["name"] if var is not None else None
            if n is None and lhs is not None:
                l = ex.skip(f, lhs)
                if f.exprs[l]["k"] == "ref":
                    n = f.exprs[l]["name"]
            if n == name and rhs is not None:
                r = f.exprs[ex.skip(f, rhs)]
                if r["k"] == "call" and r.get("callee") == callee:
                    ok = True
                else:
                    return False
    return ok


class _CurSpec:
    """Typestate for (iii): after curr_sp := non-NULL the function must, before
    it returns, store count := c >= 2, test count != 0, or clear curr_sp."""

    def __init__(self, im):
        self.im = im
        self.memo = {}

    def call(self, eng, f, eid, e, S, K):
        return [(S, None)]

    def store(self, eng, f, eid, lhs, var, op, rhs, S, K):
        if lhs is None:
            return S
        l = ex.skip(f, lhs)
        e = f.exprs[l]
        if e["k"] != "mem":
            return S
        if e.get("in") == self.im["owner"] and e["member"] == "curr_sp" and op == "=":
            if ex.is_null(f, rhs):
                return "none"
            # `x->curr_sp = sp` where sp may be a pointer already known current
            return "pending" if S != "ok" or True else S
        if e.get("in") == self.im["rec"] and e["member"] == "count":
            v = ex.const(f, rhs) if op == "=" else None
            if op == "=" and v is not None and v >= 2 and S == "pending":
                return "ok"
            if op == "=" and v == 0 and S == "ok":
                return "pending"
        return S

    def branch(self, eng, f, cond, truth, S, K):
        if S != "pending":
            return S
        for a in atoms.atoms_of(f, cond, truth):
            if a.cmp_const("!=", "%s.count" % self.im["rec"], 0) or a.cmp_const(">", "%s.count" % self.im["rec"], 0):
                return "ok"
        return S


def _current_invariant(ctx, run, im, f):
    P = ctx.prog
    rec = im["rec"]
    ok_all = True
    # (i) writers of count
    ws = ivl.field_writers(P, rec, "count")
    run.floor("%s.count writers" % rec, len(ws), 4)
    for g, i, l, op, rhs in ws:
        key = "RF-CORR:%s:count-writer:%s:%s" % (f.name, g.name, ex.pretty(g, i).split("count", 1)[-1].strip(" ()")[:24])
        v = ex.const(g, rhs) if op == "=" and rhs is not None else None
        good = False
        if op == "=" and v is not None and (v == 0 or v >= 2):
            good = True
        elif op in ("+=", "++"):
            if op == "++":
                good = True
            else:
                an = ctx.analysis(g)
                st = an.state_before(i)
                r = an.eval(st, rhs) if st is not None else (None, None)
                good = r[0] is not None and r[0] >= 0
        if good:
            run.holds("RF-CORR", key, "%s keeps count in {0} u [2,..)" % ex.pretty(g, i), ex.loc(g, i), nontrivial=False)
        else:
            ok_all = False
            run.violation("RF-CORR", key, "`%s` can leave a sub-packet with a count that is neither 0 nor >= 2: the index "
                          "count - 2 of the next byte pair is then negative" % ex.pretty(g, i), ex.loc(g, i))
    # (ii) count := 0  =>  curr_sp := NULL on every path to the exit
    F_CUR = "%s.curr_sp" % im["owner"]
    for g, i, l, op, rhs in ws:
        if not (op == "=" and ex.const(g, rhs) == 0):
            continue
        run.touch(g)
        clr = lambda ff, ii: any(lhs is not None and ff.exprs[ex.skip(ff, lhs)]["k"] == "mem"
                                 and ff.exprs[ex.skip(ff, lhs)].get("in") == im["owner"]
                                 and ff.exprs[ex.skip(ff, lhs)]["member"] == "curr_sp" and o == "=" and ex.is_null(ff, r)
                                 for lhs, var, o, r in flow.stores(ff, ii))
        okp, _ = atoms.must_pass(g, i, clr)
        bid, n = flow.elem_pos(g)[i]
        before = any(clr(g, j) for j in g.blocks[bid].elems[:n] if flow.is_event(g, j))
        # a store earlier in a dominating block also counts when nothing re-sets curr_sp in between
        key = "RF-CORR:%s:discard-clears-current:%s" % (g.name, _branch_tag(g, i))
        if okp or before:
            run.holds("RF-CORR", key, "after `%s` every path to the exit clears curr_sp" % ex.pretty(g, i), ex.loc(g, i))
        else:
            ok_all = False
            run.violation("RF-CORR", key, "`%s` discards the current sub-packet but a path returns with %s still pointing at it: "
                          "the next byte pair is stored at buffer[count - 2] = buffer[-2]" % (ex.pretty(g, i), F_CUR),
                          ex.loc(g, i), witness={"function": g.name, "store": ex.pretty(g, i), "branch": _branch_tag(g, i)})
    # (iii) curr_sp := non-NULL only with count >= 2 established
    sp = _CurSpec(im)
    eng = typestate.Engine(ctx, sp, f, ["none"]).run()
    bad = [(ret, S) for rv, S, ret in eng.outcomes() if S == "pending"]
    key = "RF-CORR:%s:current-has-count" % f.name
    if bad:
        ok_all = False
        for ret, S in bad:
            line = f.exprs[ret]["line"] if ret is not None and ret >= 0 else f.endline
            run.violation("RF-CORR", key, "a path makes a sub-packet current (curr_sp := non-NULL) and returns at line %d without "
                          "count := 2, a count != 0 test, or clearing curr_sp again" % line, "%s:%d" % (f.file, line))
    else:
        run.holds("RF-CORR", key, "every path that makes a sub-packet current sets count := 2, has tested count != 0, or clears "
                  "curr_sp before returning", "%s:%d" % (f.file, f.line))
    return ok_all


def _branch_tag(f, i):
    """Name-independent tag of the branch a statement sits in: the innermost
    dominating atoms, rendered by relation and constants only."""
    ats = atoms.atoms_at(f, i)[:2]
    parts = []
    for a in ats:
        c = a.R.const if a.R is not None and a.R.const is not None else (a.L.const if a.L.const is not None else "x")
        flds = sorted(x.split(".")[-1] for x in (a.L.fields | (a.R.fields if a.R is not None else set())))
        parts.append("%s%s%s" % ("+".join(flds) or "v", a.rel, c))
    return ",".join(parts) or "entry"


def _routing(ctx, run):
    P = ctx.prog
    f = P.need("vbi_decode_caption", "src/caption.c")
    run.touch(f)
    F_XDS = "caption.xds"
    # (a) a caption control code (0x10..0x1F) with good parity clears cc->xds
    found = False
    for bid, i in flow.all_events(f):
        if not atoms.store_to_field(F_XDS, 0)(f, i):
            continue
        ats = atoms.atoms_at(f, i)
        up = any(a.rel in ("<=", "<") and a.R is not None and a.R.const is not None and a.R.const in (0x1F, 0x20)
                 and not a.L.fields for a in ats)
        lo = any(a.rel in (">", ">=") and a.R is not None and a.R.const is not None and a.R.const in (0x0F, 0x10)
                 and not a.L.fields for a in ats)
        par = any(a.call_cmp("vbi_unpar8", ">=", 0) for a in ats)
        if up and lo and par:
            found = True
            run.holds("RF-DOM", "RF-DOM:vbi_decode_caption:control-code-leaves-xds", "cc->xds := FALSE on the path of a "
                      "valid-parity field-2 byte in 0x10..0x1F", ex.loc(f, i))
    if not found:
        run.violation("RF-DOM", "RF-DOM:vbi_decode_caption:control-code-leaves-xds", "no store cc->xds := FALSE is dominated by "
                      "'valid parity, 0x0F < c1 <= 0x1F': a caption control code on field 2 no longer ends XDS mode, so the "
                      "caption text that follows is appended to the open XDS sub-packet", "%s:%d" % (f.file, f.line),
                      witness={"function": f.name})
    # (b) calls of the separator: header bytes (c1 <= 0x0F, != 0) or while cc->xds is set
    n = 0
    for bid, i in flow.all_events(f):
        e = f.exprs[i]
        if e["k"] == "call" and e.get("callee") == "xds_separator":
            n += 1
            ats = atoms.atoms_at(f, i)
            hdr = any(a.rel in ("<=", "<") and a.R is not None and a.R.const in (0x0F, 0x10) and not a.L.fields for a in ats) \
                and any(a.rel == "!=" and a.R is not None and a.R.const == 0 and not a.L.fields and not a.L.calls for a in ats)
            inx = any(a.cmp_const("!=", F_XDS, 0) for a in ats)
            key = "RF-DOM:vbi_decode_caption:separator-call:%s" % ("header" if hdr else "xds-mode" if inx else "?")
            if hdr or inx:
                run.holds("RF-DOM", key, "xds_separator called for a packet header byte or while cc->xds is set", ex.loc(f, i))
            else:
                run.violation("RF-DOM", key, "xds_separator is called for a byte that is neither an XDS header (0 < c1 <= 0x0F) nor "
                              "inside XDS mode (cc->xds): caption data would be stored as XDS payload", ex.loc(f, i))
    run.floor("xds_separator call sites in vbi_decode_caption", n, 3)


def _header_rebinds_current(ctx, run):
    """A new header byte pair ends whatever packet was being continued: every path of the header
    case stores curr_sp."""
    P = ctx.prog
    n = 0
    for im in IMPLS:
        f = P.need(im["fn"], im["unit"])
        run.touch(f)
        F_CUR = "%s.curr_sp" % im["owner"]
        st_cur = lambda ff, ii: any(lhs is not None and ff.exprs[ex.skip(ff, lhs)]["k"] == "mem"
                                    and ff.exprs[ex.skip(ff, lhs)].get("in") == im["owner"]
                                    and ff.exprs[ex.skip(ff, lhs)]["member"] == "curr_sp" for lhs, var, o, r in flow.stores(ff, ii))
        # the header case: blocks dominated by a switch edge whose label covers 1 ... 14 (or the if-form c1 <= 14)
        heads = []
        for bid in f.rpo():
            for succ, lab in f.edges(bid):
                if isinstance(lab, tuple) and lab[1] <= 1 and lab[2] >= 14 and lab[2] < 0x20:
                    heads.append(succ)
        if not heads:
            raise AnalysisBroken("%s: the packet header case (1 ... 14) was not found" % f.name)
        for h in heads:
            n += 1
            hit = {b for b, ev in flow.all_events(f) if st_cur(f, ev)}
            # exits reachable from the case head without passing a store to curr_sp
            bad = atoms.exit_reachable_avoiding(f, h, hit)
            key = "RF-CORR:%s:header-rebinds-current" % f.name
            if bad is None:
                run.holds("RF-CORR", key, "every path of the packet-header case assigns %s" % F_CUR, "%s:%d" % (f.file, f.line))
            else:
                run.violation("RF-CORR", key, "a path of the packet-header case returns without assigning %s: after the header of an "
                              "unsupported packet the previous packet stays current, receives the foreign payload and terminator, "
                              "and is lost to a checksum error" % F_CUR, "%s:%d" % (f.file, f.line), witness={"function": f.name})
    run.floor("packet header cases", n, 2)


def _change_flag_not_vacuous(ctx, run):
    f = ctx.prog.need("xds_strfu", "src/caption.c")
    run.touch(f)
    an = ctx.analysis(f, False)
    n = 0
    for bid, i in flow.all_events(f):
        e = f.exprs[i]
        if e["k"] == "asg" and e["op"] == "|=":
            l = f.exprs[ex.skip(f, e["c"][0])]
            if l["k"] != "ref":
                continue
            n += 1
            st = an.state_before_expr(i)
            v = an.eval(st, e["c"][1]) if st is not None else (None, None)
            key = "RF-DEP:xds_strfu:change-term:%d" % n
            if v[0] is not None and v[0] == v[1]:
                run.violation("RF-DEP", key, "`%s` ORs the constant %d into the 'content changed' result: the location it reads was "
                              "just overwritten, so the old value is never compared - a new string that is a prefix of the stored "
                              "one is reported as unchanged and never announced" % (ex.pretty(f, i), v[0]), ex.loc(f, i),
                              witness={"function": f.name, "value": v[0]})
            else:
                run.holds("RF-DEP", key, "`%s` compares a value that is not known at compile time" % ex.pretty(f, i), ex.loc(f, i))
    run.floor("terms of the change flag in xds_strfu", n, 2)


def _parity_discipline(ctx, run):
    """RF-NEG: no vbi_unpar8 result reaches sub-packet / caption state, or is dropped, before its `< 0` test."""
    from .. import neg
    P = ctx.prog
    n = 0
    for name, unit in (("xds_separator", "src/caption.c"), ("vbi_decode_caption", "src/caption.c"), ("vbi_xds_demux_feed", "src/xds_demux.c")):
        f = P.need(name, unit)
        a = neg.Neg(ctx, f).run()
        run.touch(f)
        n += a.n_sources
        bad = False
        for eid, lhs, t in a.persistent_stores():
            if t:
                bad = True
                run.violation("RF-NEG", "RF-NEG:%s:store" % name, "`%s` stores a byte whose parity was not tested (%s): a byte pair with a "
                              "parity error becomes part of an XDS packet" % (ex.pretty(f, eid)[:70], a.describe(t)[:160]), ex.loc(f, eid))
        for eid, vname in neg.unexamined(a):
            bad = True
            run.violation("RF-NEG", "RF-NEG:%s:unexamined:%s" % (name, vname), "the parity result of `%s` is never examined"
                          % ex.pretty(f, eid)[:60], ex.loc(f, eid))
        if not bad:
            run.holds("RF-NEG", "RF-NEG:%s" % name, "%d parity decode site(s), each tested before its byte is stored" % a.n_sources,
                      "%s:%d" % (f.file, f.line))
    run.floor("parity decode sites in the XDS paths", n, 6)


def _info_cycle_slot(ctx, run):
    f = ctx.prog.need("flush_prog_info", "src/caption.c")
    run.touch(f)
    n = 0
    for bid, i in flow.all_events(f):
        e = f.exprs[i]
        if e["k"] != "asg":
            continue
        l = f.exprs[ex.skip(f, e["c"][0])]
        if l["k"] != "idx":
            continue
        b = f.exprs[ex.skip(f, l["c"][0])]
        while b["k"] == "cast":
            b = f.exprs[ex.skip(f, b["c"][0])]
        if b.get("member") != "info_cycle":
            continue
        n += 1
        ix = f.exprs[ex.skip(f, l["c"][1])]
        while ix["k"] == "cast":
            ix = f.exprs[ex.skip(f, ix["c"][0])]
        ok = (ix["k"] == "mem" and ix["member"] == "future") or (ix["k"] == "bin" and ix["op"] == "-" and "prog_info" in ex.pretty(f, l["c"][1]))
        key = "RF-TAB:flush_prog_info:info_cycle-slot"
        if ok:
            run.holds("RF-TAB", key, "info_cycle is indexed by the flushed program info's own slot (`%s`)" % ex.pretty(f, l["c"][1]), ex.loc(f, i))
        else:
            run.violation("RF-TAB", key, "info_cycle is indexed by `%s`, not by the slot of the program info being flushed "
                          "(pi->future, which is what xds_decoder's _class index corresponds to): flushing one class clears the "
                          "'seen once' bits of the other, whose repeated packets are then never announced"
                          % ex.pretty(f, l["c"][1])[:60], ex.loc(f, i), witness={"index": ex.pretty(f, l["c"][1])})
    run.floor("info_cycle stores in flush_prog_info", n, 1)


def _field2_ids(ctx, run):
    P = ctx.prog
    f = P.need("vbi_xds_demux_feed_frame", "src/xds_demux.c")
    run.touch(f)
    want = {0x40, 0x60}          # VBI_SLICED_CAPTION_525_F2, VBI_SLICED_CAPTION_525
    n = 0
    for bid, i in flow.all_events(f):
        e = f.exprs[i]
        if not (e["k"] == "call" and e.get("callee") == "vbi_xds_demux_feed"):
            continue
        n += 1
        vals = None
        for sb, b in f.blocks.items():
            t = b.term
            if not t or t.get("kind") != "SwitchStmt" or "cond" not in t or not ex.pretty(f, t["cond"]).endswith("id") \
                    or not flow.dominates(f, sb, bid):
                continue
            vs, ok = set(), True
            for succ, lab in f.edges(sb):
                if bid in flow.reach_from(f, succ, avoid=(sb,)):
                    if isinstance(lab, tuple) and lab[2] - lab[1] < 8:
                        vs.update(range(lab[1], lab[2] + 1))
                    else:
                        ok = False
            if ok and vs:
                vals = vs
        key = "RF-DOM:vbi_xds_demux_feed_frame:exact-service-id"
        if vals is not None and vals <= want:
            run.holds("RF-DOM", key, "the XDS feed is reached only for service ids %s" % sorted(hex(v) for v in vals), ex.loc(f, i))
        else:
            run.violation("RF-DOM", key, "the XDS feed is not behind an exact dispatch on the line's service id (found %s; expected the "
                          "ids 0x40 / 0x60 only): field 1 caption lines (id 0x20) of sources that do not report line numbers are fed "
                          "into the XDS stream, whose packets are then cut short or fail their checksum"
                          % (sorted(hex(v) for v in vals) if vals else "no value dispatch"), ex.loc(f, i))
    run.floor("vbi_xds_demux_feed call sites in the frame function", n, 1)


def _desync_discards_current(ctx, run):
    """RF-CORR: outside the assembler (where a header pair merely switches the current
    sub-packet - interleaving by design) every store curr_sp := NULL abandons the packet in
    progress because data was lost; its collected bytes must be dropped with it (count := 0 or
    the whole sub-packet cleared), or a later continue code appends to the stale part and a
    packet that was never sent in that form can be delivered."""
    P = ctx.prog
    n = 0
    for f in P.funcs:
        if f.file != "src/caption.c" or f.name == "xds_separator":
            continue
        for bid, i in flow.all_events(f):
            for lhs, var, op, rhs in flow.stores(f, i):
                if lhs is None or op != "=" or not ex.is_null(f, rhs):
                    continue
                l = f.exprs[ex.skip(f, lhs)]
                if l["k"] != "mem" or l["member"] != "curr_sp" or l.get("in") != "caption":
                    continue
                n += 1
                run.touch(f)
                resets = []
                for b2, j in flow.all_events(f):
                    e = f.exprs[j]
                    if e["k"] == "call" and e.get("callee") in ("memset", "__builtin_memset") and e.get("c") \
                            and ex.pretty(f, e["c"][0]).endswith("curr_sp"):
                        resets.append((b2, j))
                    for l2, v2, o2, r2 in flow.stores(f, j):
                        if l2 is not None and o2 == "=" and ex.const(f, r2) == 0:
                            le = f.exprs[ex.skip(f, l2)]
                            if le["k"] == "mem" and le["member"] == "count" and le.get("in") == "xds_sub_packet":
                                resets.append((b2, j))
                pos = flow.elem_pos(f)
                ok = any((b2 == bid and pos[j][1] < pos[i][1]) or (b2 != bid and flow.dominates(f, b2, bid)) for b2, j in resets)
                key = "RF-CORR:%s:abandon-resets-count" % f.name
                if ok:
                    run.holds("RF-CORR", key, "`%s` comes after the interrupted sub-packet was cleared" % ex.pretty(f, i), ex.loc(f, i))
                else:
                    run.violation("RF-CORR", key, "%s() abandons the XDS packet in progress (`%s`) but leaves its count and bytes: after "
                                  "the gap a continue code for that class/type appends to the stale part, and a packet that was never "
                                  "sent in that form is decoded" % (f.name, ex.pretty(f, i)), ex.loc(f, i))
    run.floor("curr_sp := NULL outside the assembler (desync)", n, 1)


def _flush_then_restore(ctx, run):
    """RF-DEP: flush_prog_info() wipes the whole programme record; the packet that triggered it
    (new PIN, repeated title) describes the *new* programme, so its content is stored again
    after the flush on every path - otherwise the announced record lacks the very field that was
    just received."""
    P = ctx.prog
    f = P.need("xds_decoder", "src/caption.c")
    run.touch(f)

    def restore(ff, ii):
        e = ff.exprs[ii]
        if e["k"] == "call" and e.get("callee") == "xds_strfu" and e.get("c"):
            a = ff.exprs[ex.skip(ff, e["c"][0])]
            while a["k"] in ("cast", "idx") or (a["k"] == "un" and a["op"] == "&"):
                a = ff.exprs[ex.skip(ff, a["c"][0])]
            return a["k"] == "mem" and a.get("in") == "vbi_program_info"
        for lhs, var, op, rhs in flow.stores(ff, ii):
            if lhs is None or op != "=":
                continue
            l = ff.exprs[ex.skip(ff, lhs)]
            while l["k"] == "idx":
                l = ff.exprs[ex.skip(ff, l["c"][0])]
            if l["k"] == "mem" and l.get("in") == "vbi_program_info":
                return True
        return False
    n = 0
    for bid, i in flow.all_events(f):
        e = f.exprs[i]
        if e["k"] != "call" or e.get("callee") != "flush_prog_info":
            continue
        n += 1
        ok, _ = atoms.must_pass(f, i, restore)
        key = "RF-DEP:xds_decoder:flush-then-restore@%d" % n
        if ok:
            run.holds("RF-DEP", key, "after `%s` every path stores the received datum into the programme record again"
                      % ex.pretty(f, i)[:50], ex.loc(f, i))
        else:
            run.violation("RF-DEP", key, "`%s` wipes the programme record and a path returns without storing the datum of the packet "
                          "that caused the flush: the record announced next lacks the field just received (empty title)"
                          % ex.pretty(f, i)[:50], ex.loc(f, i))
    run.floor("flush_prog_info calls in xds_decoder", n, 2)


def _reset_keeps_slot(ctx, run):
    """RF-NOWRITE: flush_prog_info() resets a programme record with vbi_reset_prog_info() and then
    clears the announcement cycle of the slot it belongs to, info_cycle[pi->future].  The reset
    must therefore leave pi->future alone (no store to it, no clearing of the whole record): a
    future-class flush would otherwise wipe the *current* programme's cycle and label its events
    with class 0."""
    P = ctx.prog
    f = P.need("vbi_reset_prog_info", "src/vbi.c")
    run.touch(f)
    pn = f.params[0]["name"]
    bad = []
    for bid, i in flow.all_events(f):
        e = f.exprs[i]
        for lhs, var, op, rhs in flow.stores(f, i):
            if lhs is None:
                continue
            l = f.exprs[ex.skip(f, lhs)]
            if l["k"] == "mem" and l["member"] == "future":
                bad.append((i, "stores to %s->future" % pn))
            if l["k"] == "un" and l["op"] == "*" and f.exprs[ex.skip(f, l["c"][0])].get("name") == pn:
                bad.append((i, "assigns the whole record"))
        if e["k"] == "call" and e.get("callee") in ("memset", "__builtin_memset", "memcpy", "__builtin_memcpy") and e.get("c"):
            a = f.exprs[ex.skip(f, e["c"][0])]
            while a["k"] == "cast":
                a = f.exprs[ex.skip(f, a["c"][0])]
            if a["k"] == "ref" and a.get("name") == pn:
                bad.append((i, "clears the whole record"))
            if a["k"] == "un" and a["op"] == "&":
                x = f.exprs[ex.skip(f, a["c"][0])]
                if x["k"] == "un" and x["op"] == "*" and f.exprs[ex.skip(f, x["c"][0])].get("name") == pn:
                    bad.append((i, "clears the whole record"))
    key = "RF-NOWRITE:vbi_reset_prog_info:future"
    if bad:
        i, why = bad[0]
        run.violation("RF-NOWRITE", key, "vbi_reset_prog_info() %s (`%s`): flush_prog_info() indexes info_cycle[] with pi->future "
                      "right after the reset, so a flush of the future programme clears the current programme's announcement "
                      "cycle and its events carry future == 0" % (why, ex.pretty(f, i)[:50]), ex.loc(f, i))
    else:
        run.holds("RF-NOWRITE", key, "the reset writes the record field by field and never touches `future`", "%s:%d" % (f.file, f.line))


def _network_wiped_only_unidentified(ctx, run):
    """RF-DOM: vbi_chsw_reset (vbi, identified) wipes the network record (name, call letters, ids)
    only when the switch was *not* identified by the caller (identified == 0).  The XDS decoder
    calls it with the id of the station whose name / call letters it has just stored in that
    record: an unconditional wipe announces the new station with an empty name and makes every
    further identical name packet look like another change."""
    P = ctx.prog
    f = P.need("vbi_chsw_reset", "src/vbi.c")
    run.touch(f)
    pn = f.params[1]["name"]
    n = 0
    for bid, i in flow.all_events(f):
        e = f.exprs[i]
        if e["k"] != "call" or e.get("callee") not in ("memset", "__builtin_memset") or not e.get("c"):
            continue
        if not ex.pretty(f, e["c"][0]).replace(" ", "").endswith("->network"):
            continue
        n += 1
        ok = any(a.rel == "==" and a.R is not None and a.R.const == 0 and pn in a.L.locals and not a.L.fields for a in atoms.atoms_at(f, i))
        key = "RF-DOM:vbi_chsw_reset:wipe-under-unidentified"
        if ok:
            run.holds("RF-DOM", key, "`%s` only under %s == 0" % (ex.pretty(f, i)[:50], pn), ex.loc(f, i))
        else:
            run.violation("RF-DOM", key, "vbi_chsw_reset() wipes the network record (`%s`) also when the caller identified the new "
                          "station (%s != 0): the XDS decoder has just stored the received name / call letters there, so the "
                          "NETWORK event carries empty strings and the unchanged name is 'new' again on its next repeat"
                          % (ex.pretty(f, i)[:50], pn), ex.loc(f, i))
    run.floor("wipes of the network record in vbi_chsw_reset", n, 1)
