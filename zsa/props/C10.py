"""C10 — cache: reference pairing at every holder, free only at zero,
eviction/recycling eligibility, in-place reuse conditions."""
from .. import atoms, ex, flow, ivl, loops, refs, typestate
from ..prog import AnalysisBroken

CLAUSE = ("(RF-PAIR) every page reference a library function obtains (_vbi_cache_get_page, _vbi_cache_put_page, cache_page_ref, "
          "or through next_ait/resolve_obj_address) is released, returned or stored exactly once on every path (ownership "
          "typestate with NULL-branch correlation; vbi_convert_page's move-on-success contract is itself checked); the same for "
          "network references; (RF-DOM) a page is freed only under ref_count == 0 and a network only under ref_count == 0 and "
          "n_referenced_pages == 0; a network is recycled only under the same two conditions; eviction candidates are never the "
          "page being replaced, the first pass takes only pages of unreferenced networks, every death_row store is below its "
          "capacity assertion; the in-place reuse of an old page's memory is dominated by 'exactly one victim of exactly the "
          "needed size'; a referenced victim is made a zombie, never queued for deletion; vbi_chsw_reset releases the old network "
          "before it takes the new one into vbi->cn.")
CLAUSE = CLAUSE + (" (RF-CORR) the per-network count of referenced pages moves with the page's own count: every path that takes a "
                   "page's ref_count from 1 to 0 decrements n_referenced_pages (zombie pages included), every path that sets it to 1 or "
                   "raises it from 0 increments it; vbi_chsw_reset resets the per-page statistics (vbi_teletext_channel_switched) only "
                   "after vbi->cn has been replaced, never on the network whose pages are still stored.")
CLAUSE = CLAUSE + (" (RF-TAB) a stored page is copied with the size cache_page_size() gives it; every designation-guarded read of a "
                   "variable page part (data.ext_lop, data.enh_lop) is under designation bits for which that size includes the part.")
CLAUSE = CLAUSE + (" (RF-WIDTH) the statistics fields that take a page's subpage number can hold every subcode the decoder stores "
                   "(mask 0x3F7F).")
CLAUSE = CLAUSE + (" The updates of subno_min and subno_max in cache_network_add_page do not depend on each other's test.")
CLAUSE = CLAUSE + (" (RF-CORR) a function that can see zombie pages takes a page size off memory_used only on the not-a-zombie edge; cache_network_remove_page is given the page's own network.")
CLAUSE = CLAUSE + (" The per-page subpage range (subno_min / subno_max; 0 doubles as 'none yet', so it is not a true minimum) "
                   "decides control flow only where it is maintained and in the page walk - never in a lookup.")
NOT_DECIDED = ("map semantics (lookup returns the most recent version), memory-limit arithmetic, exactness of the per-network "
               "statistics, distinctness of death_row entries across the two eviction passes.")

PAGE_ACQ = ("_vbi_cache_get_page", "_vbi_cache_put_page", "cache_page_ref")
PAGE_REL = ("cache_page_unref",)
NET_ACQ = ("_vbi_cache_add_network", "_vbi_cache_get_network", "cache_network_ref")
NET_REL = ("cache_network_unref",)
MOVERS = {"vbi_convert_page": 1}
OWN_IMPL = {"cache_page_ref", "cache_page_unref", "cache_network_ref", "cache_network_unref"}


def run(ctx, run):
    P = ctx.prog
    _pairing(ctx, run, "page", PAGE_ACQ, PAGE_REL, "cache_page", MOVERS, 14)
    _pairing(ctx, run, "network", NET_ACQ, NET_REL, "cache_network", {}, 2)
    _convert_contract(ctx, run)
    _free_guards(ctx, run)
    _put_page(ctx, run, P.need("_vbi_cache_put_page", "src/cache.c"))
    _chsw(ctx, run, P.need("vbi_chsw_reset", "src/vbi.c"))
    _ref_counters(ctx, run)
    _priority_passes(ctx, run)
    # a stored page is readable in full by whoever gets a reference: the size it was stored with
    # covers every part a designation-guarded reader touches (rule shared with C01)
    from . import C01
    C01._page_sizes(ctx, run)
    _subno_range_fits(ctx, run)
    _range_updates_independent(ctx, run)
    _zombies_not_counted(ctx, run)
    _stats_leave_own_network(ctx, run)
    _subpage_range_decides_only_the_walk(ctx, run)


def _zombies_not_counted(ctx, run):
    """ca->memory_used is the size of the unreferenced pages that can still be found (the priority list).  A zombie
    left it when it became one, so a function that may see a zombie page (it compares cp->priority with
    CACHE_PRI_ZOMBIE) takes the page size off memory_used only on the not-a-zombie edge."""
    P = ctx.prog
    Z = P.enum_consts.get("CACHE_PRI_ZOMBIE")
    if Z is None:
        raise AnalysisBroken("anchor vanished: CACHE_PRI_ZOMBIE")
    n = 0
    for f in P.funcs:
        if f.unit != "src/cache.c" or f.cfg_failed:
            continue
        subs = [i for b, i in flow.all_events(f) for lhs, var, op, rhs in flow.stores(f, i)
                if lhs is not None and op == "-=" and f.exprs[ex.skip(f, lhs)]["k"] == "mem"
                and f.exprs[ex.skip(f, lhs)]["member"] == "memory_used"]
        if not subs:
            continue
        sees_zombie = any(e["k"] == "bin" and e["op"] in ("==", "!=")
                          and any(f.exprs[m]["k"] == "mem" and f.exprs[m]["member"] == "priority" and f.exprs[m].get("in") == "cache_page"
                                  for m in ex.walk(f, k))
                          and any(ex.const(f, c) == Z for c in e["c"])
                          for k, e in enumerate(f.exprs))
        if not sees_zombie:
            continue
        run.touch(f)
        for i in subs:
            n += 1
            ok = any(a.cmp_const("!=", "cache_page.priority", Z) for a in atoms.atoms_at(f, i))
            key = "RF-CORR:%s:zombie-not-counted" % f.name
            if ok:
                run.holds("RF-CORR", key, "`%s` only under cp->priority != CACHE_PRI_ZOMBIE" % ex.pretty(f, i), ex.loc(f, i))
            else:
                run.violation("RF-CORR", key, "`%s` also runs for zombie pages, whose size left memory_used when they became zombies: "
                              "every released zombie makes memory_used one page too small, until it wraps and the cache flushes itself"
                              % ex.pretty(f, i), ex.loc(f, i), witness={"function": f.name})
    run.floor("memory_used decrements in functions that can see zombie pages", n, 1)


def _stats_leave_own_network(ctx, run):
    """cache_network_remove_page (cn, cp) takes cp out of the statistics of cn: cn has to be the network the page
    belongs to (cp->network), which need not be the network the caller is storing into."""
    P = ctx.prog
    n = 0
    for f in P.funcs:
        if f.unit != "src/cache.c" or f.cfg_failed:
            continue
        for b, i in flow.all_events(f):
            e = f.exprs[i]
            if e["k"] != "call" or e.get("callee") != "cache_network_remove_page" or len(e.get("c", [])) != 2:
                continue
            n += 1
            run.touch(f)
            a0, a1 = ex.skip(f, e["c"][0]), ex.skip(f, e["c"][1])
            p0, p1 = ex.path(f, a0), ex.path(f, a1)
            key = "RF-CORR:%s:stats-of-own-network" % f.name
            ok = p0 is not None and p1 is not None and p0 in ("%s->network" % p1, "(%s)->network" % p1)
            if not ok and p0 is not None and p1 is not None:
                # `n = cp->network; ... remove (n, cp)`: follow the local
                from .. import linear
                if f.exprs[a0]["k"] == "ref":
                    rd = linear.reaching_def(f, f.exprs[a0]["name"], i)
                    if rd is not None and rd[2] is not None and ex.path(f, rd[2]) in ("%s->network" % p1,):
                        ok = True
            if ok:
                run.holds("RF-CORR", key, "`%s` removes the page from its own network" % ex.pretty(f, i), ex.loc(f, i))
            else:
                run.violation("RF-CORR", key, "`%s` takes the page out of the statistics of `%s`, not of the network it belongs to "
                              "(`%s->network`): when the evicted page is of another network that network keeps counting it and this one "
                              "counts one page too few" % (ex.pretty(f, i), p0, p1), ex.loc(f, i), witness={"function": f.name})
    run.floor("cache_network_remove_page call sites", n, 2)


def _pairing(ctx, run, what, acq, rel, hint, movers, floor):
    P = ctx.prog
    fac = lambda outs: refs.RefSpec(ctx, acq, rel, hint, outs, movers)
    outs = refs.outparam_acquirers(ctx, fac, hint)
    run.extra.setdefault("out_param_acquirers", {}).update({k: sorted(v) for k, v in outs.items()})
    n_sites = 0
    n_fn = 0
    for f in P.funcs:
        if not f.unit.startswith("src/") or f.name in OWN_IMPL:
            continue
        sites = [i for b, i in flow.all_events(f) if f.exprs[i]["k"] == "call"
                 and (f.exprs[i].get("callee") in acq or f.exprs[i].get("callee") in outs)]
        if not sites:
            continue
        n_fn += 1
        n_sites += len(sites)
        run.touch(f)
        sp = fac(outs)
        try:
            leaks, returns_owned, eng = refs.run_function(ctx, sp, f)
        except RuntimeError as e:
            raise AnalysisBroken("%s: typestate does not converge (%s)" % (f.name, e))
        bad = False
        for ret, vs in sorted(set(leaks), key=str):
            bad = True
            line = f.exprs[ret]["line"] if ret is not None else f.endline
            for v in vs:
                a = sp.acq_sites.get((f.key, v))
                run.violation("RF-PAIR", "RF-PAIR/%s:%s:leak:%s" % (what, f.name, v),
                              "%s reference held in `%s` (acquired by `%s`) is neither released, returned nor stored on a path to the "
                              "exit at line %d" % (what, v, ex.pretty(f, a)[:60] if a is not None else "?", line),
                              "%s:%d" % (f.file, line), witness={"function": f.name, "variable": v,
                                                                 "acquired_at": f.exprs[a]["line"] if a is not None else None, "exit_line": line})
        for g, eid, msg, kind in sp.leaks:
            bad = True
            run.violation("RF-PAIR", "RF-PAIR/%s:%s:%s" % (what, f.name, kind), msg, ex.loc(g, eid),
                          witness={"function": f.name, "kind": kind})
        if not bad:
            run.holds("RF-PAIR", "RF-PAIR/%s:%s" % (what, f.name), "%d acquire site(s); every path releases, returns or stores each "
                      "reference exactly once%s" % (len(sites), " (returns an owned reference)" if returns_owned else ""),
                      "%s:%d" % (f.file, f.line))
    run.floor("%s reference acquire sites" % what, n_sites, floor)


def _convert_contract(ctx, run):
    """vbi_convert_page (vbi, vtp, cached, fn): NULL result leaves the caller's
    reference to vtp alone; a non-NULL result is vtp itself or a new reference
    with vtp released."""
    P = ctx.prog
    f = P.need("vbi_convert_page", "src/packet.c")
    run.touch(f)
    pname = f.params[1]["name"]
    sp = refs.RefSpec(ctx, PAGE_ACQ, PAGE_REL, "cache_page", {}, {})
    eng = typestate.Engine(ctx, sp, f, [frozenset([pname])]).run()
    bad = []
    n = 0
    for bid, ret, S, K in eng.exit_states():
        n += 1
        rv = eng.value(f.exprs[ret]["c"][0], K) if ret is not None and f.exprs[ret].get("c") else None
        rvar = sp._local(f, f.exprs[ret]["c"][0]) if ret is not None and f.exprs[ret].get("c") else None
        if rv == 0:
            if pname not in S:
                bad.append((ret, "returns NULL after releasing the caller's page"))
        elif rvar == pname:
            if pname not in S:
                bad.append((ret, "returns the page it has released"))
        elif rvar is not None:
            if rvar not in S and typestate.k_get(K, ("v", rvar)) != 0:
                bad.append((ret, "returns `%s` which owns no reference" % rvar))
            if pname in S and rvar in S:
                bad.append((ret, "returns a new reference without releasing the old page"))
        elif ret is not None and f.exprs[ret].get("c"):
            r = f.exprs[ex.skip(f, f.exprs[ret]["c"][0])]
            if r["k"] == "call" and r.get("callee") in PAGE_ACQ and pname in S:
                bad.append((ret, "returns the result of %s() directly: when that is a new reference the old page is never released"
                            % r.get("callee")))
    key = "RF-PAIR/page:vbi_convert_page:contract"
    if bad:
        for ret, msg in bad:
            run.violation("RF-PAIR", key, "vbi_convert_page %s (line %d): its callers rely on 'NULL: nothing happened; non-NULL: one "
                          "reference, through the result'" % (msg, f.exprs[ret]["line"]), ex.loc(f, ret))
    else:
        run.holds("RF-PAIR", key, "%d exit states: NULL leaves the page alone, non-NULL is the page itself or a new reference with the "
                  "old one released" % n, "%s:%d" % (f.file, f.line))


def _need(run, f, i, key, what, preds):
    ats = atoms.atoms_at(f, i)
    missing = [n for n, p in preds if not any(p(a) for a in ats)]
    if missing:
        run.violation("RF-DOM", key, "%s `%s` is not dominated by: %s" % (what, ex.pretty(f, i)[:60], "; ".join(missing)), ex.loc(f, i),
                      witness={"function": f.name, "missing": missing, "dominating": [repr(a) for a in ats]})
    else:
        run.holds("RF-DOM", key, "%s dominated by %s" % (what, "; ".join(n for n, _ in preds)), ex.loc(f, i))


def _free_guards(ctx, run):
    P = ctx.prog
    unit = "src/cache.c"
    # pages
    n = 0
    for f in P.funcs:
        if f.unit != unit:
            continue
        for bid, i in flow.all_events(f):
            e = f.exprs[i]
            if e["k"] == "call" and e.get("callee") in ("vbi_cache_free", "free") and e.get("c"):
                a = f.exprs[ex.skip(f, e["c"][0])]
                t = a.get("t", "")
                if "cache_page" in t:
                    n += 1
                    run.touch(f)
                    if f.name != "delete_page":
                        run.violation("RF-WHO", "RF-WHO:page-free:%s" % f.name, "a cache page is freed outside delete_page()", ex.loc(f, i))
                        continue
                    _need(run, f, i, "RF-DOM:delete_page:free-at-zero", "freeing a page",
                          [("ref_count == 0 (the `ref_count > 0` branch returns)", lambda x: x.cmp_const("<=", "cache_page.ref_count", 0)
                            or x.cmp_const("==", "cache_page.ref_count", 0))])
                elif "cache_network" in t:
                    n += 1
                    run.touch(f)
                    _need(run, f, i, "RF-DOM:%s:network-free-at-zero" % f.name, "freeing a network",
                          [("ref_count == 0", lambda x: x.cmp_const("<=", "cache_network.ref_count", 0) or x.cmp_const("==", "cache_network.ref_count", 0)),
                           ("n_referenced_pages == 0", lambda x: x.cmp_const("<=", "cache_network.n_referenced_pages", 0)
                            or x.cmp_const("==", "cache_network.n_referenced_pages", 0))])
    run.floor("page/network free sites in cache.c", n, 2)
    # recycling
    f = P.need("recycle_network", unit)
    run.touch(f)
    sts = [i for bid, i in flow.all_events(f) if atoms.store_to_field("cache_network.n_referenced_pages", 0)(f, i)
           or atoms.store_to_field("cache_network.ref_count", 0)(f, i)]
    if not sts:
        raise AnalysisBroken("recycle_network: reset stores not found")
    # the `found:` block is reached by goto from inside the loop; take the dominating atoms of the goto
    gotos = [bid for bid, b in f.blocks.items() if b.term and b.term["kind"] == "GotoStmt"]
    ok = False
    for g in gotos:
        ats = atoms.dominating_atoms(f, g)
        if any(a.cmp_const("==", "cache_network.ref_count", 0) for a in ats) and \
                any(a.cmp_const("==", "cache_network.n_referenced_pages", 0) for a in ats):
            ok = True
        else:
            ok = False
            break
    if not (ok and gotos):
        # without a goto: the reset stores themselves are dominated by the two conditions (directly, or through
        # `victim = cn` under them and a later `victim != NULL` test - atoms.dominating_atoms follows such a flag)
        ok2 = True
        for i in sts:
            ats = atoms.atoms_at(f, i)
            if not (any(a.cmp_const("==", "cache_network.ref_count", 0) or a.cmp_const("<=", "cache_network.ref_count", 0) for a in ats)
                    and any(a.cmp_const("==", "cache_network.n_referenced_pages", 0)
                            or a.cmp_const("<=", "cache_network.n_referenced_pages", 0) for a in ats)):
                ok2 = False
        if ok2:
            ok, gotos = True, [None]
    key = "RF-DOM:recycle_network:eligibility"
    if ok and gotos:
        run.holds("RF-DOM", key, "a network is taken for recycling only under ref_count == 0 and n_referenced_pages == 0", ex.loc(f, sts[0]))
    else:
        run.violation("RF-DOM", key, "recycle_network selects a network without requiring both ref_count == 0 and n_referenced_pages == 0: "
                      "a network whose page is still held by a caller is wiped and handed out as a new network (the held page then "
                      "belongs to the wrong network and its release underflows the counters)", ex.loc(f, sts[0]),
                      witness={"function": f.name})


def _put_page(ctx, run, f):
    run.touch(f)
    # name-independent discovery of the roles: the local array of victims, its
    # fill counter, and the running total of reclaimable memory
    row = cnt = avail = None
    for bid, i in flow.all_events(f):
        for lhs, var, op, rhs in flow.stores(f, i):
            if lhs is None:
                continue
            l = f.exprs[ex.skip(f, lhs)]
            if l["k"] == "idx":
                b = f.exprs[ex.skip(f, l["c"][0])]
                while b["k"] == "cast":
                    b = f.exprs[ex.skip(f, b["c"][0])]
                if b["k"] == "ref" and b.get("dk") == "local" and "arr" in b and "cache_page" in b.get("t", ""):
                    row = b["name"]
                    o = atoms.Operand(f, l["c"][1])
                    if len(o.locals) == 1:
                        cnt = sorted(o.locals)[0]
            if l["k"] == "ref" and op == "+=" and rhs is not None and "cache_page_size" in atoms.Operand(f, rhs).calls:
                avail = l["name"]
    if not (row and cnt and avail):
        raise AnalysisBroken("_vbi_cache_put_page: victim array / counter / reclaimable-memory total not found")
    DEATH_ROW, DEATH_COUNT, AVAIL = row, cnt, avail
    # stores into the victim array
    sts = []
    for bid, i in flow.all_events(f):
        for lhs, var, op, rhs in flow.stores(f, i):
            if lhs is None:
                continue
            l = f.exprs[ex.skip(f, lhs)]
            if l["k"] == "idx":
                b = f.exprs[ex.skip(f, l["c"][0])]
                while b["k"] == "cast":
                    b = f.exprs[ex.skip(f, b["c"][0])]
                if b["k"] == "ref" and b["name"] == DEATH_ROW:
                    sts.append((bid, i, rhs))
    run.floor("death_row stores in _vbi_cache_put_page", len(sts), 3)
    sts.sort(key=lambda x: f.exprs[x[1]]["line"])      # pass 1 precedes pass 2 in the source
    n_loop = 0
    victim = None
    for bid, i, rhs in sts:
        inl = loops.innermost(f, bid)
        r = f.exprs[ex.skip(f, rhs)]
        rname = r.get("name")
        if inl is None:
            victim = rname
            # the page being replaced: only when nobody holds it
            _need(run, f, i, "RF-DOM:_vbi_cache_put_page:victim-unreferenced", "queueing the replaced page for deletion",
                  [("its ref_count is 0 (a referenced victim becomes a zombie instead)",
                    lambda a: a.cmp_const("<=", "cache_page.ref_count", 0) or a.cmp_const("==", "cache_page.ref_count", 0))])
            continue
        n_loop += 1
        tag = "pass%d" % n_loop
        preds = [("candidate is not the page being replaced (cp != old_cp)",
                  lambda a: a.rel == "!=" and a.R is not None and a.R.const is None and not a.L.fields and not a.R.fields
                  and victim is not None and victim in (a.L.locals | a.R.locals) and rname in (a.L.locals | a.R.locals)),
                 ("candidate has the priority of this round", lambda a: a.rel == "==" and (a.L.has("cache_page.priority") or (a.R is not None and a.R.has("cache_page.priority"))))]
        _need(run, f, i, "RF-DOM:_vbi_cache_put_page:%s:eligible" % tag, "queueing an eviction candidate", preds)
        # capacity assertion
        asserted = any(a.rel == "<" and a.R is not None and a.R.const is not None and a.R.const <= 20 and DEATH_COUNT in a.L.locals
                       for a in atoms.atoms_at(f, i))
        key = "RF-IVL:_vbi_cache_put_page:%s:death_row-capacity" % tag
        if asserted:
            run.holds("RF-IVL", key, "death_row[death_count++] is behind assert (death_count < N_ELEMENTS (death_row))", ex.loc(f, i))
        else:
            run.violation("RF-IVL", key, "death_row[death_count++] is not behind a capacity test", ex.loc(f, i))
    # first pass: only pages of unreferenced networks
    first = [x for x in sts if loops.innermost(f, x[0]) is not None][:1]
    for bid, i, rhs in first:
        _need(run, f, i, "RF-DOM:_vbi_cache_put_page:pass1:unreferenced-network", "first eviction pass",
              [("the page's network is unreferenced", lambda a: a.cmp_const("<=", "cache_network.ref_count", 0)
                or a.cmp_const("==", "cache_network.ref_count", 0))])
    # in-place reuse
    reuse = None
    for bid, i in flow.all_events(f):
        for lhs, var, op, rhs in flow.stores(f, i):
            if lhs is None or rhs is None:
                continue
            l = f.exprs[ex.skip(f, lhs)]
            r = f.exprs[ex.skip(f, rhs)]
            if l["k"] == "ref" and r["k"] == "idx":
                b = f.exprs[ex.skip(f, r["c"][0])]
                while b["k"] == "cast":
                    b = f.exprs[ex.skip(f, b["c"][0])]
                if b["k"] == "ref" and b["name"] == DEATH_ROW:
                    reuse = i
    if reuse is None:
        raise AnalysisBroken("_vbi_cache_put_page: in-place reuse (new_cp = death_row[0]) not found")
    _need(run, f, reuse, "RF-DOM:_vbi_cache_put_page:reuse-in-place", "reusing the victim's allocation for the new page",
          [("exactly the needed size (memory_available == memory_needed)",
            lambda a: a.rel == "==" and a.R is not None and a.R.const is None and not a.L.fields and not a.R.fields
            and AVAIL in (a.L.locals | a.R.locals) and len(a.L.locals | a.R.locals) == 2),
           ("exactly one victim (count == 1)", lambda a: a.rel == "==" and a.R is not None and a.R.const == 1 and DEATH_COUNT in a.L.locals)])


def _is_ptr_cmp(f, a):
    return False


def _chsw(ctx, run, f):
    run.touch(f)
    F_CN = "vbi_decoder.cn"
    st = None
    for bid, i in flow.all_events(f):
        for lhs, var, op, rhs in flow.stores(f, i):
            if lhs is None or rhs is None:
                continue
            l = f.exprs[ex.skip(f, lhs)]
            if l["k"] == "mem" and "%s.%s" % (l.get("in"), l["member"]) == F_CN:
                r = f.exprs[ex.skip(f, rhs)]
                if r["k"] == "ref" and r.get("dk") == "local":
                    # `new_cn = _vbi_cache_add_network (...); ... vbi->cn = new_cn;`
                    from .. import linear
                    rd = linear.reaching_def(f, r["name"], i)
                    if rd is not None and rd[2] is not None:
                        r = f.exprs[ex.skip(f, rd[2])]
                if r["k"] == "call" and r.get("callee") in NET_ACQ:
                    st = (bid, i)
    if st is None:
        raise AnalysisBroken("vbi_chsw_reset: vbi->cn = <new network> not found")
    bid, i = st
    rel = None
    for b2 in f.blocks:
        if b2 == bid or flow.dominates(f, b2, bid):
            for j in f.blocks[b2].elems:
                if b2 == bid and flow.elem_pos(f)[j][1] >= flow.elem_pos(f)[i][1]:
                    break
                e = f.exprs[j]
                if e["k"] == "call" and e.get("callee") in NET_REL and F_CN in atoms.Operand(f, e["c"][0]).fields:
                    rel = j
                elif e["k"] == "call" and e.get("callee") in NET_REL:
                    # `old_cn = vbi->cn; ... cache_network_unref (old_cn);`
                    a0 = f.exprs[ex.skip(f, e["c"][0])]
                    if a0["k"] == "ref" and a0.get("dk") == "local":
                        from .. import linear
                        rd = linear.reaching_def(f, a0["name"], j)
                        if rd is not None and rd[2] is not None and F_CN in atoms.Operand(f, rd[2]).fields:
                            rel = j
    key = "RF-DOM:vbi_chsw_reset:release-before-replace"
    if rel is not None:
        run.holds("RF-DOM", key, "cache_network_unref (vbi->cn) precedes vbi->cn = <new network>", ex.loc(f, i))
    else:
        run.violation("RF-DOM", key, "vbi->cn is overwritten with a new network without releasing the old one first: the old "
                      "station's pages stay cached and referenced", ex.loc(f, i))


def _is_field(f, node, rec, fld):
    l = f.exprs[ex.skip(f, node)]
    return l["k"] == "mem" and l.get("in") == rec and l["member"] == fld


def _pinned_to(f, ats, field, value):
    """Do the dominating comparisons of the (unsigned) field with constants leave exactly `value`?  (`== 1`, or
    `!= 0` together with `<= 1`, what is left of `if (0 == n) return; if (n > 1) { ...; return; }`)"""
    lo, hi, ne = 0, None, set()
    for a in ats:
        if a.R is None or a.R.const is None or not a.L.has(field) or a.L.calls or a.L.incr is not None or len(a.L.fields) != 1:
            continue
        n = f.exprs[a.L.node] if a.L.node is not None else None
        if n is None or n["k"] != "mem":
            continue
        c = a.R.const
        if a.rel == "==":
            lo, hi = max(lo, c), c if hi is None else min(hi, c)
        elif a.rel == "!=":
            ne.add(c)
        elif a.rel == "<":
            hi = c - 1 if hi is None else min(hi, c - 1)
        elif a.rel == "<=":
            hi = c if hi is None else min(hi, c)
        elif a.rel == ">":
            lo = max(lo, c + 1)
        elif a.rel == ">=":
            lo = max(lo, c)
    while lo in ne:
        lo += 1
    while hi is not None and hi in ne:
        hi -= 1
    return hi is not None and lo == hi == value


def _ref_counters(ctx, run):
    """RF-CORR: cache_page.ref_count 0 <-> 1 transitions are mirrored in cache_network.n_referenced_pages."""
    P = ctx.prog
    n = 0
    dec = lambda f, i: f.exprs[i]["k"] == "un" and f.exprs[i]["op"] == "--" and _is_field(f, f.exprs[i]["c"][0], "cache_network", "n_referenced_pages") \
        or (f.exprs[i]["k"] == "asg" and f.exprs[i]["op"] == "-=" and _is_field(f, f.exprs[i]["c"][0], "cache_network", "n_referenced_pages"))
    inc = lambda f, i: f.exprs[i]["k"] == "un" and f.exprs[i]["op"] == "++" and _is_field(f, f.exprs[i]["c"][0], "cache_network", "n_referenced_pages") \
        or (f.exprs[i]["k"] == "asg" and f.exprs[i]["op"] == "+=" and _is_field(f, f.exprs[i]["c"][0], "cache_network", "n_referenced_pages"))
    for f in P.funcs:
        if f.file != "src/cache.c":
            continue
        for bid, i in flow.all_events(f):
            e = f.exprs[i]
            if e["k"] == "asg" and e["op"] == "=" and _is_field(f, e["c"][0], "cache_page", "ref_count"):
                c = ex.const(f, e["c"][1])
                if c == 0:
                    # initialisation of a fresh page is not a release
                    if not _pinned_to(f, atoms.atoms_at(f, i), "cache_page.ref_count", 1):
                        continue
                    n += 1
                    run.touch(f)
                    ok, _ = atoms.must_pass(f, i, dec)
                    key = "RF-CORR:%s:last-unref-decrements-network" % f.name
                    if ok:
                        run.holds("RF-CORR", key, "after `%s` (last reference gone) every path to the exit executes "
                                  "--cn->n_referenced_pages" % ex.pretty(f, i), ex.loc(f, i))
                    else:
                        run.violation("RF-CORR", key, "a path from `%s` (the page's last reference is released) reaches the exit without "
                                      "--cn->n_referenced_pages: the network keeps counting a referenced page, is never recycled or "
                                      "deleted, and its pages survive the channel switch" % ex.pretty(f, i), ex.loc(f, i),
                                      witness={"function": f.name})
                elif c == 1:
                    n += 1
                    run.touch(f)
                    ok, _ = atoms.must_pass(f, i, inc)
                    before = any(inc(f, j) for b2, j in flow.all_events(f) if flow.dominates(f, b2, bid) and j != i)
                    key = "RF-CORR:%s:first-ref-increments-network" % f.name
                    if ok or before:
                        run.holds("RF-CORR", key, "`%s` is accompanied by ++cn->n_referenced_pages on every path" % ex.pretty(f, i), ex.loc(f, i))
                    else:
                        run.violation("RF-CORR", key, "`%s` hands out the first reference of a page without ++cn->n_referenced_pages: the "
                                      "network can be recycled while the page is held" % ex.pretty(f, i), ex.loc(f, i))
            if e["k"] == "un" and e["op"] == "++" and _is_field(f, e["c"][0], "cache_page", "ref_count"):
                n += 1
                run.touch(f)
                found = False
                for b2, j in flow.all_events(f):
                    if inc(f, j) and any(a.cmp_const("==", "cache_page.ref_count", 0) for a in atoms.atoms_at(f, j)) \
                            and bid in flow.reach_from(f, b2):
                        found = True
                key = "RF-CORR:%s:ref-from-zero-increments-network" % f.name
                if found:
                    run.holds("RF-CORR", key, "++n_referenced_pages under `0 == cp->ref_count` precedes `%s`" % ex.pretty(f, i), ex.loc(f, i))
                else:
                    run.violation("RF-CORR", key, "`%s` can raise a page from 0 references without ++cn->n_referenced_pages under "
                                  "`0 == cp->ref_count`" % ex.pretty(f, i), ex.loc(f, i))
    run.floor("ref_count 0<->1 transition sites in cache.c", n, 3)
    # channel switch order: the statistics reset acts on the new network
    f = P.need("vbi_chsw_reset", "src/vbi.c")
    run.touch(f)
    swap = [i for b, i in flow.all_events(f) if f.exprs[i]["k"] == "asg" and _is_field(f, f.exprs[i]["c"][0], "vbi_decoder", "cn")]
    resets = [i for b, i in flow.all_events(f) if f.exprs[i]["k"] == "call" and f.exprs[i].get("callee") == "vbi_teletext_channel_switched"]
    if not swap or not resets:
        raise AnalysisBroken("vbi_chsw_reset: network swap / vbi_teletext_channel_switched call not found")
    for r in resets:
        key = "RF-DOM:vbi_chsw_reset:stat-reset-after-swap"
        rb = flow.elem_pos(f)[r][0]
        ok = all(flow.dominates(f, flow.elem_pos(f)[sw][0], rb) and (flow.elem_pos(f)[sw][0] != rb or flow.elem_pos(f)[sw][1] < flow.elem_pos(f)[r][1])
                 for sw in swap)
        if ok:
            run.holds("RF-DOM", key, "vbi_teletext_channel_switched() runs after vbi->cn was replaced", ex.loc(f, r))
        else:
            run.violation("RF-DOM", key, "vbi_teletext_channel_switched() clears the per-page statistics of vbi->cn before the network "
                          "is replaced: the old network's pages are still stored, their removal then decrements the zeroed subpage "
                          "counters below zero and the recycled network carries the corrupt counters", ex.loc(f, r))


def _priority_passes(ctx, run):
    """Every loop over the cache priorities (the eviction passes of _vbi_cache_put_page and of
    delete_surplus_pages) runs from CACHE_PRI_NORMAL to CACHE_PRI_SPECIAL inclusive: pages of the
    highest priority are evictable too, or the memory limit cannot be enforced."""
    P = ctx.prog
    lo, hi = P.enum_consts.get("CACHE_PRI_NORMAL"), P.enum_consts.get("CACHE_PRI_SPECIAL")
    if lo is None or hi is None:
        raise AnalysisBroken("CACHE_PRI_NORMAL / CACHE_PRI_SPECIAL not found")
    n = 0
    for f in P.funcs:
        if f.file != "src/cache.c":
            continue
        L = loops.natural_loops(f)
        for head, body in L.items():
            t = f.blocks[head].term
            if not t or "cond" not in t:
                continue
            c = f.exprs[ex.skip(f, t["cond"])]
            if not (c["k"] == "bin" and c["op"] in ("<", "<=")):
                continue
            v = f.exprs[ex.skip(f, c["c"][0])]
            while v["k"] == "cast":
                v = f.exprs[ex.skip(f, v["c"][0])]
            k = ex.const(f, c["c"][1])
            if v["k"] != "ref" or v.get("name") != "pri" or k is None:
                continue
            n += 1
            run.touch(f)
            last = k if c["op"] == "<=" else k - 1
            key = "RF-TAB:%s:priority-pass:%d" % (f.name, n)
            if last == hi:
                run.holds("RF-TAB", key, "the pass runs up to CACHE_PRI_SPECIAL inclusive", ex.loc(f, ex.skip(f, t["cond"])))
            else:
                run.violation("RF-TAB", key, "this pass over the cache priorities stops at %d, CACHE_PRI_SPECIAL is %d: pages of the "
                              "skipped priority are never evicted by it, so the cache stays above its memory limit" % (last, hi),
                              ex.loc(f, ex.skip(f, t["cond"])), witness={"last": last, "special": hi})
    run.floor("passes over the cache priorities", n, 4)


def _subno_range_fits(ctx, run):
    """RF-WIDTH: the per-page statistics record the range of subpage numbers received
    (subno_min / subno_max); vbi_cache_hi_subno() reports it and the page walk of the search
    visits exactly that range.  Subpage numbers are 14 bit subcodes (the decoder masks the header
    with 0x3F7F; clock pages are cached with their time-coded number up to 0x2359), so the fields
    that take `cp->subno` must be able to hold that mask - a narrower field keeps the low bits
    only: 'highest subpage' disagrees with the map and the walk never reaches the page."""
    P = ctx.prog
    # the widest subcode the decoder stores
    masks = []
    for f in P.funcs:
        if f.file != "src/packet.c":
            continue
        for bid, i in flow.all_events(f):
            for lhs, var, op, rhs in flow.stores(f, i):
                if lhs is None or rhs is None or op != "=":
                    continue
                l = f.exprs[ex.skip(f, lhs)]
                if l["k"] == "mem" and l["member"] == "subno" and l.get("in") == "cache_page":
                    r = f.exprs[ex.skip(f, rhs)]
                    while r["k"] == "cast":
                        r = f.exprs[ex.skip(f, r["c"][0])]
                    if r["k"] == "bin" and r["op"] == "&":
                        for c in r["c"]:
                            v = ex.const(f, c)
                            if v is not None:
                                masks.append(v)
    if not masks:
        raise AnalysisBroken("no masked store to cache_page.subno found in packet.c")
    top = max(masks)
    n = 0
    for f in P.funcs:
        if f.file != "src/cache.c":
            continue
        for bid, i in flow.all_events(f):
            for lhs, var, op, rhs in flow.stores(f, i):
                if lhs is None or rhs is None or op != "=":
                    continue
                l = f.exprs[ex.skip(f, lhs)]
                if not (l["k"] == "mem" and l.get("in") == "ttx_page_stat" and l["member"] in ("subno_min", "subno_max")):
                    continue
                if not any(f.exprs[j]["k"] == "mem" and f.exprs[j]["member"] == "subno" and f.exprs[j].get("in") == "cache_page"
                           for j in ex.walk(f, rhs)):
                    continue
                n += 1
                run.touch(f)
                it = l.get("it")
                cap = ((1 << (it[0] - (1 if it[1] else 0))) - 1) if it else None
                key = "RF-WIDTH:%s:%s" % (f.name, l["member"])
                if cap is not None and cap >= top:
                    run.holds("RF-WIDTH", key, "`%s`: the %d bit field holds every subcode up to %#x" % (ex.pretty(f, i)[:40], it[0], top),
                              ex.loc(f, i))
                else:
                    run.violation("RF-WIDTH", key, "`%s` stores a subpage number (up to %#x; clock pages are cached with their "
                                  "time-coded number) into a field that holds at most %#x: the statistics keep the low bits only, "
                                  "vbi_cache_hi_subno() disagrees with the cached page and the search's page walk never visits it"
                                  % (ex.pretty(f, i)[:40], top, cap if cap is not None else 0), ex.loc(f, i))
    run.floor("statistics stores of a page's subpage number", n, 2)


def _range_updates_independent(ctx, run):
    """RF-CORR: cache_network_add_page() extends the received subpage range at both ends:
    subno_min and subno_max are two independent updates.  If the second is only reached when the
    first did not fire (an `else if`), a page that sets or lowers the minimum never raises the
    maximum: 'highest subpage' stays behind the cached pages and the page walk skips them."""
    P = ctx.prog
    f = P.need("cache_network_add_page", "src/cache.c")
    run.touch(f)
    n = 0
    for bid, i in flow.all_events(f):
        for lhs, var, op, rhs in flow.stores(f, i):
            if lhs is None:
                continue
            l = f.exprs[ex.skip(f, lhs)]
            if not (l["k"] == "mem" and l.get("in") == "ttx_page_stat" and l["member"] in ("subno_min", "subno_max")):
                continue
            other = "subno_max" if l["member"] == "subno_min" else "subno_min"
            n += 1
            dep = [a for a in atoms.atoms_at(f, i) if a.L.has("ttx_page_stat." + other) or (a.R is not None and a.R.has("ttx_page_stat." + other))]
            key = "RF-CORR:cache_network_add_page:%s-independent" % l["member"]
            if dep:
                run.violation("RF-CORR", key, "`%s` is reached only when the test on %s went a particular way (%s): the two ends of "
                              "the received subpage range are no longer updated independently, so a page that moves one end never "
                              "moves the other" % (ex.pretty(f, i)[:40], other, dep[0]), ex.loc(f, i))
            else:
                run.holds("RF-CORR", key, "the update of %s does not depend on the test of %s" % (l["member"], other), ex.loc(f, i))
    run.floor("updates of the received subpage range", n, 2)


RANGE_DECIDERS = {"cache_network_add_page", "_vbi_cache_foreach_page"}


def _subpage_range_decides_only_the_walk(ctx, run):
    """ttx_page_stat.subno_min / subno_max are hints: subno_min == 0 doubles as "no subpage seen yet", so after
    (pgno, 0) and (pgno, k) were stored the minimum reads k although subpage 0 is cached.  The page walk tolerates that
    (it only uses the range to skip holes and is re-anchored by the start clamp); a lookup that refuses numbers outside
    the range reports cached pages as missing.  Rule (who may branch on it): a branch condition reads these fields only
    in the function that maintains them and in the page walk."""
    P = ctx.prog
    n = 0
    bad = []
    for f in P.funcs:
        if not f.file.startswith("src/"):
            continue
        hit = None
        for bid, b in f.blocks.items():
            t = b.term
            if not t or "cond" not in t:
                continue
            o = atoms.Operand(f, t["cond"])
            if any(x.endswith((".subno_min", ".subno_max")) and x.startswith("ttx_page_stat") for x in o.fields):
                hit = t
                break
        if hit is None:
            continue
        n += 1
        run.touch(f)
        key = "RF-WHO:%s:branches-on-subpage-range" % f.name
        if f.name in RANGE_DECIDERS or getattr(f, "inv_name", None) in RANGE_DECIDERS:
            run.holds("RF-WHO", key, "%s() maintains the subpage range or is the page walk" % f.name, "%s:%d" % (f.file, hit.get("line", f.line)))
        else:
            run.violation("RF-WHO", key, "%s() decides on `%s`: subno_min == 0 also means 'none yet', so the range is not a true bound - "
                          "after subpage 0 and a later subpage were stored, subpage 0 is outside it and a lookup that trusts the range "
                          "reports a cached page as missing" % (f.name, ex.pretty(f, hit["cond"])[:60]),
                          "%s:%d" % (f.file, hit.get("line", f.line)), witness={"function": f.name})
    run.floor("functions branching on the subpage range", n, 2)
